#!/usr/bin/env python3
"""Regenerates MANIFEST.json from the table below (run after adding a property check)."""
import json
BASE = json.load(open('/root/.vp/BASELINE.json'))['cmd']
# id -> (level, technique, text, note, design_ref)
CLAIMED = {
 "C01": ("model_checking",
         "bounded-exhaustive enumeration of conforming serialisations replayed on jawk::go against a strict RFC 8259 reference automaton",
         "Every stream of <=2 values over a 75-value universe and <=3 (thorough 4) over a 12-value core, with every legal separator and every spelling deviation up to k=1 (thorough 2; k=2/3 on the core), is executed on the real code; stdout is read back by an independent strict reader and compared value by value with the reference parse. A pass is a coverage statement over that finite space, which contains by construction the collision cases (upper-case exponents, touching tokens, escapes of every kind, 64-bit boundaries, depth 64) that the 37 examples lack.",
         "trusted: rustc/std float parsing and formatting, the strict reference reader (unit-tested, self-checked against the generator on every case). Outside: nesting > 64, duplicate member names, surrogate escapes, non-finite literals.",
         "DESIGN.md §5 C01"),
}
NOT_YET = {}
props=[json.loads(l) for l in open('/verif/properties.jsonl')]
checks=[]; na=[]
for p in props:
    i=p['id']
    if i in CLAIMED:
        lvl,tech,text,note,ref=CLAIMED[i]
        checks.append({"property_id":i,"quick_cmd":f"./check {i} quick","thorough_cmd":f"./check {i} thorough",
          "evidence_file":f"evidence/{i}.json","replay_cmd_template":"./check replay {path}","engine":"jv",
          "level_claimed":{"category":lvl,"text":text,"design_ref":ref},"level_note":note,"technique":tech})
    else:
        na.append({"property_id":i,"reason":NOT_YET.get(i,"check not built yet in this round (planned: bounded-exhaustive exploration per DESIGN.md §5); nothing is claimed for it")})
m={"version":1,"setup_cmd":"./setup.sh",
 "hooks":{"guard":"yift_jawk_verif","enable":"none needed: no source hooks exist; the harness drives the public jawk::go / Cli API and the built executable (guard name reserved)","baseline_off_cmd":BASE,"source_commits":[],"add_only":True},
 "engines":[{"name":"jv","path":"harness","serves_properties":[c["property_id"] for c in checks],"kind_free_text":"stateless bounded-exhaustive explorer of the real code (in-process jawk::go with fault-injecting reader/writers; child processes for the executable) in lock-step with Rust reference models; 16 worker processes over static slices"}],
 "checks":checks,"not_applicable":na,
 "notes":"exit 0 = held on everything explored (KNOWN-FINDING lines allowed), 1 = VIOLATION line(s), 2 = machinery failure (never a verdict). Known findings: known_findings.json. Seeded property-breaking changes: seeded/."}
json.dump(m,open('/verif/MANIFEST.json','w'),indent=1)
print(len(checks),"claimed",len(na),"not claimed")
