#!/usr/bin/env python3
"""Regenerates MANIFEST.json from the table below (run after adding a property check)."""
import json
BASE = json.load(open('/root/.vp/BASELINE.json'))['cmd']
# id -> (level, technique, text, note, design_ref)
CLAIMED = {
 "C01": ("model_checking",
         "bounded-exhaustive enumeration of conforming serialisations replayed on jawk::go against a strict RFC 8259 reference automaton",
         "Every stream of <=2 values over a 75-value universe and <=3 (thorough 4) over a 12-value core, with every legal separator and every spelling deviation up to k=1 (thorough 2; k=2/3 on the core), is executed on the real code; stdout is read back by an independent strict reader and compared value by value with the reference parse. A pass is a coverage statement over that finite space, which contains by construction the collision cases (upper-case exponents, touching tokens, escapes of every kind, 64-bit boundaries, depth 64) that the 37 examples lack.",
         "trusted: rustc/std float parsing and formatting, the strict reference reader (unit-tested, self-checked against the generator on every case). Outside: nesting > 64, duplicate member names, surrogate escapes, non-finite literals.",
         "DESIGN.md §5 C01"),
}
CLAIMED["C05"] = ("model_checking",
  "bounded-exhaustive enumeration of byte strings, document corruptions and ill-typed calls on jawk::go with a no-panic/no-hang oracle (watchdog + breadcrumb)",
  "Every byte string up to length 5 (thorough 6) over the 24 JSON-significant bytes (and up to 4/5 over 28 bytes incl. invalid UTF-8 under all four policies), every prefix and single-byte corruption of every universe document, structural families to 4 KiB, every pure function on every argument tuple over 27 atoms (ill-typed included; 2^53, -2^63 and 2^64-1 included), multi-byte characters at every byte offset 0..40 of string arguments and option texts, every strftime specifier byte and out-of-range instants are executed; a panic is caught in-process, an abort or hang kills the worker whose breadcrumb names the case.",
  "Outside: nesting > 64, sizes > 10^4 ((range 2^53) is not executed), exponents > 10^3, exec/trigger/now, self-referential macros.",
  "DESIGN.md §5 C05")
CLAIMED["C06"] = ("model_checking",
  "bounded-exhaustive noise injection (deviation-bounded, k<=1 quick / 2 thorough) into clean streams, differential against the clean run per --on-error policy",
  "All clean streams of <=2 (thorough 3) values over a 6-value core in 5 separator kinds, with every 1- and 2-byte noise token over 12 non-value-starting bytes in every gap, under all four policies and six pipelines, are compared clause by clause with the run on the clean stream (and on the clean prefix for panic).",
  "trusted: the run on the clean stream (checked separately by C01/C03). Noise tokens are whitespace-delimited as the property states.",
  "DESIGN.md §5 C06")
CLAIMED["C02"] = ("model_checking",
  "bounded-exhaustive enumeration of values x styles x utf8 x row separators on jawk::go; rows re-read by an independent strict RFC 8259 reader; style relations and a second-run fixpoint checked on every case",
  "Every string of length <=2 over a 49-character alphabet (all C0 controls, DEL, U+2028/9, U+FFFF, astral planes) as value, member name and array element, 26 boundary numbers, 17 results of arithmetic (incl. overflow), ~90 containers of depth <=3, in all 3 styles x utf8 on/off x 4 row separators; each output is fed back for the fixpoint.",
  "trusted: the strict reference reader. Known finding: non-BMP characters without --utf8-strings (pinned by a unit test of the repository).",
  "DESIGN.md §5 C02")
CLAIMED["C14"] = ("model_checking",
  "exhaustive enumeration of (prefix, option subset, S, T) on an endless byte-counting reader with a 64 KiB horizon, against a step-wise reference pipeline; FIFO variant for the file path",
  "Every prefix of <=2 (thorough 3) values over a 5-value alphabet followed by an endless stream of qualifying values, under every subset of the six streaming options and every S in 0..3, T in 0..5, must return Ok with exactly the expected rows without reaching the horizon and without pulling more than 16 bytes past the value that produced row S+T.",
  "'unbounded' is approximated by the 64 KiB horizon (a pipeline that needs more look-ahead is reported, as intended). T=0 is allowed to read until row S+1 arrives.",
  "DESIGN.md §5 C14")
CLAIMED["C16"] = ("fault_enumeration",
  "exhaustive fault-point enumeration: read failure at every input offset (after 0..2 EINTR), write failure at every output offset (plain / short writes / EINTR), stderr failures, unopenable files, x policies x pipelines, on jawk::go with fault-injecting Read/Write",
  "Every fault point of every generated history is executed; the run must end in Err (never Ok, never a panic), must not ask the reader again after its failure, and what reached stdout must be a prefix of the fault-free output; faults the fault-free run never reaches must change nothing.",
  "trusted: std's Bytes/BufReader/write_all treatment of Interrupted. The in-process sinks stand in for the OS handles (C20 covers the executable).",
  "DESIGN.md §5 C16")
CLAIMED["C17"] = ("model_checking",
  "exhaustive enumeration of deliveries (every <=2-cut chunking, EINTR positions, file, FIFO) and of file partitions (every composition, every cut inside the text) with a byte-offset location model for the seven & selectors",
  "All streams of <=3 values over a 7-value core (multi-line values, multi-byte text, multi-digit numbers) in 6 separator kinds, clean and noisy: every delivery must give the identical observation, out(f1..fn) must equal out(f1)..out(fn), and &index/&index-in-file/&file-name/start/end are compared with the reference reader's spans (containment, contiguity, LF-only line counting).",
  "jawk reads stdin one byte at a time today, so chunked deliveries are indistinguishable on the current tree; they are kept because a buffered reader is the realistic change. Directory traversal order is outside.",
  "DESIGN.md §5 C17")
CLAIMED["C18"] = ("model_checking",
  "exhaustive single-fault corruption (truncation at every offending offset, parenthesis, unknown name, arity of every function and alias, trailing garbage, directions, --set, style options, csv constraints) of valid configurations in every option position and style, on jawk::go with a stdin factory that records being opened",
  "Each corrupted configuration is run on a non-empty input and must be rejected (Err or clap usage error) with zero bytes on stdout and without the stdin factory being called.",
  "trusted: clap's own validation of enum/numeric option values.",
  "DESIGN.md §5 C18")
CLAIMED["C19"] = ("model_checking",
  "exhaustive enumeration of boundary integers x pipeline/function routes (digit-exact comparison) and of all pairs of decimal strings x nas operations against exact BigInt decimal arithmetic",
  "~390 integers (powers of two +-1 up to 2^64, 2^53+-k, range ends, both signs) through 10 pipeline routes (incl. neighbour pairs n/n+1 through unique/sort/=) and 31 non-arithmetic function routes must come out digit for digit; all pairs over 120 (thorough 400) decimal strings (up to 60 digits, scale to 40, exponents to +-100, spelling variants) through \"+\" \"-\" \"*\", six comparisons, abs, unary minus and || are compared as exact rationals.",
  "trusted: num-bigint. Outside: \"/\", \"%\", \"round\" (not claimed exact by the property).",
  "DESIGN.md §5 C19")
CLAIMED["C20"] = ("model_checking",
  "exhaustive enumeration of a finite menu of real child processes (inputs x policies x configurations x stdout kinds x row separators), compared with the in-process run and with the strict reference reader",
  "The jawk binary built from the working tree is spawned for every combination of 16 inputs (four of them large enough to overflow every stdout buffer), 4 policies, 16 configurations (+file arguments, missing file), stdout as pipe / EPIPE pipe / /dev/full, row separator with and without newline; stdout must equal the library run's rows, diagnostics under --on-error=stderr must be on stderr only, and the exit status must be 0 exactly when the run succeeded and every byte was accepted (and non-zero for malformed input under --on-error=panic, judged by the reference reader).",
  "Outside: stdout as a closed descriptor (>&-), which std maps to success.",
  "DESIGN.md §5 C20")
CLAIMED["C08"] = ("model_checking",
  "bounded-exhaustive enumeration of row histories x pipelines x (S,T) on jawk::go; differential against the implementation's own unlimited result plus lock-step comparison with a reference pipeline (stable multi-key sort)",
  "All streams of <=4 (thorough 5) rows over the keys {a,b,c,absent} with distinguishable tied rows, and every stream of <=3 rows repeated cyclically to 17 and 40 rows, under 12 pipelines (0..3 sort keys with ties in both directions, unique, filter, split, sort on a selected name) x {rows, --group-by, --merge} x S in 0..3 (thorough 0..6) x T in {absent, 0..3} (thorough 0..6): the output must be exactly rows S..S+T-1 of the implementation's unlimited result (or the single collection built from exactly those rows), and must equal the reference pipeline.",
  "trusted: the reference order on strings and small integers. Sort keys are strings and small integers only (the order itself is C07's subject).",
  "DESIGN.md §5 C08")
CLAIMED["C07"] = ("model_checking",
  "exhaustive comparison table over a typed universe with the order axioms checked on all pairs and triples; bounded-exhaustive enumeration of row histories x key/direction configurations on jawk::go against a reference stable multi-key sort; exhaustive small lists/objects through every sorting function",
  "The six comparison functions are tabulated over all 86x86 pairs (all types, equal-by-value spellings) and must form one total order consistent with = and with the documented type order; --sort-by is run on all streams of <=5 (thorough 6) rows over 5 keys (ties made visible by ids, absent keys, two types) under 17 key/direction configurations, on all streams of <=4 (thorough 5) rows over 14 keys of all types, and on long streams (>11 distinct keys, >8 rows per key); sort, sort_unique, sort_by, sort_by_keys, sort_by_values(_by) on all lists/objects of <=5 (thorough 6) elements over 8 values and on 20..100-element inputs with ties.",
  "Among two unequal objects the documentation fixes no order: only the axioms are required there. Numbers are restricted to |n| < 2^53 or non-integral; -0 is outside (stated domain).",
  "DESIGN.md §5 C07")
CLAIMED["C09"] = ("model_checking",
  "bounded-exhaustive enumeration of row histories x upstream pipelines x {group-by, merge} x {json, text} on jawk::go; differential against the rows the ungrouped pipeline prints plus lock-step comparison with a reference pipeline",
  "All streams of <=4 (thorough 5) rows over the group keys {a, b, empty string, non-ASCII, number, null, absent}, including the empty stream and streams where no row survives, and cyclic streams of 17 and 40 rows, under 10 upstream pipelines (select, filter, unique, sorts, skip/take, split, take 0): exactly one value must be printed, equal to the documented grouping (first-seen key order, arrival order inside a group, non-string and absent keys dropped) of the rows the same pipeline prints without grouping.",
  "Text-mode output is read back as one JSON value per line (its field formatting is C15's subject).",
  "DESIGN.md §5 C09")
CLAIMED["C10"] = ("model_checking",
  "exhaustive equality table through the real = function, then bounded-exhaustive enumeration of value histories with and without selections on jawk::go; the --unique output is compared with the plain output minus later duplicates under that table",
  "The implementation's = is tabulated over all ordered pairs of a 28-text universe (zero and one in several spellings, escaped strings, nested equal collections, near misses) and must be an equivalence that agrees with reference equality; with --unique, all streams of <=3 (thorough 4) values over the universe and <=5 (thorough 6) over an 8-text core, all streams of <=4 (thorough 5) records through one and two selections (present / null / absent members), and growth families of up to 57 distinct values in three spellings must print exactly the first occurrences.",
  "-0 and member-order permutations are outside (the property excludes them).",
  "DESIGN.md §5 C10")
CLAIMED["C03"] = ("model_checking",
  "bounded-exhaustive enumeration of option combinations x input histories x argument orders on jawk::go, in lock-step with a reference pipeline of pure list transformations (expressions evaluated by the reference evaluator)",
  "51 840 configurations (quick: 17 280) built from interacting menus for --set, --split-by (one reading a --set variable), --filter (one a --set macro through a pipe), --select (one reading a selected name), --unique, --sort-by (1-2 keys, a selected name), --skip, --take, --group-by/--merge (one on a selected name) and --only-objects-and-arrays are run on every sequence of <=2 (thorough 3) values over 7 records and on cyclic 17/40-row inputs; rows must equal the documented stage composition; every configuration is re-run with its option groups reversed and rotated, every 211th with all permutations, and must print the same bytes.",
  "Expressions come from fixed menus (the expression language itself is C04/C12/C13). Relative order of repeated --select/--sort-by is kept, as the property states.",
  "DESIGN.md §5 C03")
CLAIMED["C11"] = ("model_checking",
  "bounded-exhaustive enumeration of input sequences x stateless pipelines x output styles on jawk::go - and, for every pipeline and style, of singles, pairs and A B A triples on the real executable with one process per run - with a metamorphic oracle (output of a sequence = header + concatenation of the single-value bodies)",
  "All sequences of <=5 (thorough 7) values over a 6-value universe under 18 stateless pipelines (regex with cache sizes 0/1/2 and per-record patterns, --set variables and macros that read ^ / a variable, --split-by, selected names, define/set/fold) in six output styles must print exactly the header followed by the bodies each value prints on its own; this covers every concatenation A.B, permutation and duplication within the bound.",
  "No & selector and no stateful option is used (the property excludes them).",
  "DESIGN.md §5 C11")
CLAIMED["C12"] = ("model_checking",
  "exhaustive enumeration of (observer body x enclosing context x binding form x placement x bound value x select position x split) on jawk::go; differential inside one run (bound form versus hand-substituted form) plus the reference evaluator",
  "13 observer bodies (the bound name next to ., ^., ^^., ^^^., another variable, another macro, a selected name) in 9 enclosing contexts (top level, map, filter, fold, sort_by, map_values, pipe stage, pipe-then-map, flat_map) under 18 binding forms (set, define and aliases, --set variable/macro, nesting both ways, shadowing, unused names, macros reading outer variables or ^), with the binding outside or inside the functional argument, as the 1st..4th --select, with and without --split-by: the bound and the substituted selection must have the same value in the same run and agree with the reference evaluator; the same expression in four --select positions must give four equal values.",
  "/name/ inside functional arguments and pipe stages is unspecified by the documentation and only compared pairwise; ^ beyond the chain of enclosing inputs likewise.",
  "DESIGN.md §5 C12")
CLAIMED["C13"] = ("model_checking",
  "exhaustive enumeration of aliases x argument tuples, expressions x option positions x input histories, expressions x spellings, and (cache size x pattern/subject histories), all on jawk::go, with differential oracles inside the implementation and the regex crate as reference for the cache",
  "Every alias against its canonical name on all documented examples and all argument tuples (arity <=3) over 6 atoms; 48 expressions as first/later --select, --filter, --sort-by (both directions), --group-by, --split-by, --set macro, --set variable (late positions also behind another --select, everything also after --split-by) over all sequences of <=3 (thorough 4) values over 5 records: rows kept / ordered / grouped / produced must be those the selected values dictate; 40 expressions in 14 spellings (separators, padding before the closing parenthesis, leading-dot sugar, commas directly after variables, macros, keys, numbers, strings) must have one value; cache sizes 0/1/2/64 over all sequences of <=4 (thorough 5) (subject, pattern) pairs must give the regex crate's own answers.",
  "Padding directly after the opening parenthesis is not documented and not demanded.",
  "DESIGN.md §5 C13")
CLAIMED["C15"] = ("model_checking",
  "bounded-exhaustive enumeration of rows of typed values x selection names (csv) and x text option sets within a deviation bound (text) on jawk::go; csv read back by an independent RFC 4180 reader, text compared with the documented rendering",
  "csv: every row of 1..2 selections (3: a slice in quick, all 27 000 in thorough) over 30 values (all types, absent, quotes, commas, CR, LF, tabs, edge blanks, non-ASCII, keyword and number look-alikes, 2^64-1, nested values holding such strings) x 3 name sets is read by an RFC 4180 reader that must find the names in order, N fields per record and each value recoverable by type; text: every row of 1..2 selections over 24 values under every option set within 3 (thorough 4) deviations from the defaults (separators, prefix/postfix, keywords, missing keyword, headers, single-byte escape sequences, row separators) must equal the documented rendering byte for byte.",
  "Text mode is checked on values with an unambiguous spelling; escape sequences are single-byte as the property states (a multi-byte escaped character panics in TextPrinter::from - outside every listed property, see DESIGN.md §7).",
  "DESIGN.md §5 C15")
CLAIMED["C04"] = ("model_checking",
  "bounded-exhaustive enumeration of expressions (every function x every argument tuple over typed atoms; every function pair; every nesting of context constructors up to a depth) on jawk::go, in lock-step with a reference evaluator written from the function documentation and self-checked against all documented examples",
  "Depth 1: each of the 108 pure functions on every argument tuple within its arity over 45 atoms of all types plus per-function atoms (and 12 bodies for functional arguments), and the atoms arriving as input, member, element, variable, macro, selected name and parent; depth 2: every function with one argument replaced by every function on its documented arguments; depth 3..5: every nesting of <=3 (thorough 4) context constructors (map, filter, flat_map, fold, sort_by, map_values, group_by, pipe, set, define, first-of-map over 6 sources) around 8 leaves reading ., ^, ^^, ^.n, :x, @m. The value of the selection must be the reference value, or absent when the reference says nothing.",
  "Left open by the documentation and therefore executed but not compared: and/or with both a deciding and a non-boolean argument, order of unequal objects, inexact number-as-string operations, range 0, split by the empty string, parse of texts that are not one RFC 8259 value, integers beyond 2^53 in arithmetic, ^ beyond the enclosing inputs, /name/ inside functional arguments. Not executed: range/cross beyond 10^4 items and self-calling macros (resource exhaustion, the property's own bound).",
  "DESIGN.md §5 C04")
NOT_YET = {}
props=[json.loads(l) for l in open('/verif/properties.jsonl')]
checks=[]; na=[]
for p in props:
    i=p['id']
    if i in CLAIMED:
        lvl,tech,text,note,ref=CLAIMED[i]
        # the space explored and the oracle are stated by the check itself (its `rule` / `explanation`, written into
        # the evidence on every run); use them verbatim so that the claim cannot drift away from the code
        try:
            ev=json.load(open(f'/verif/evidence/{i}.json'))['coverage']
            text="Explored exhaustively (quick tier; thorough bounds in brackets): "+ev['rule']+". Oracle: "+ev['explanation']+"."
        except Exception:
            pass
        checks.append({"property_id":i,"quick_cmd":f"./check {i} quick","thorough_cmd":f"./check {i} thorough",
          "evidence_file":f"evidence/{i}.json","replay_cmd_template":"./check replay {path}","engine":"jv",
          "level_claimed":{"category":lvl,"text":text,"design_ref":ref},"level_note":note,"technique":tech})
    else:
        na.append({"property_id":i,"reason":NOT_YET.get(i,"check not built yet in this round (planned: bounded-exhaustive exploration per DESIGN.md §5); nothing is claimed for it")})
m={"version":1,"setup_cmd":"./setup.sh",
 "hooks":{"guard":"yift_jawk_verif","enable":"none needed: no source hooks exist; the harness drives the public jawk::go / Cli API and the built executable (guard name reserved)","baseline_off_cmd":BASE,"source_commits":[],"add_only":True},
 "engines":[{"name":"jv","path":"harness","serves_properties":[c["property_id"] for c in checks],"kind_free_text":"stateless bounded-exhaustive explorer of the real code (in-process jawk::go with fault-injecting reader/writers; child processes for the executable) in lock-step with Rust reference models; 16 worker processes over static slices; every 499th run is repeated on a thread of its own and, if that ever diverges, the whole check is repeated with every run on a thread of its own (state the subject keeps between runs)"}],
 "checks":checks,"not_applicable":na,
 "notes":"exit 0 = held on everything explored (KNOWN-FINDING lines allowed), 1 = VIOLATION line(s), 2 = machinery failure (never a verdict). Known findings: known_findings.json. Seeded property-breaking changes: seeded/."}
json.dump(m,open('/verif/MANIFEST.json','w'),indent=1)
print(len(checks),"claimed",len(na),"not claimed")
