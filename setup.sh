#!/bin/bash
# setup_cmd: build the harness (and the jawk library it links) offline from files on disk.
set -e
cd "$(dirname "$0")/harness"
export CARGO_NET_OFFLINE=true
export CARGO_TARGET_DIR=/verif/target
cargo build --release --offline 2>&1 | tail -3
