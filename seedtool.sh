#!/bin/bash
# Self-test tooling for seeded property-breaking changes (never touches /repo's files).
#   ./seedtool.sh validate <dir-with-patch.diff-and-demo.sh>    confirm: applies, suite passes, demo fails with / passes without
#   ./seedtool.sh detect <dir-with-patch.diff> <prop> [<prop>...] run the quick checks against a scratch copy with the patch applied
# Scratch worktree and build output live under /tmp/mut and are removed by `./seedtool.sh clean`.
set -u
R=${MUT_ROOT:-/tmp/mut}
WT=$R/wt
VT=$R/vt
ensure_wt() {
  if [ ! -d "$WT" ]; then
    mkdir -p $R
    git -C /repo worktree add --detach "$WT" HEAD >/dev/null 2>&1
    cp -r /repo/target "$WT/target" 2>/dev/null
  fi
  git -C "$WT" checkout -q --detach "$(git -C /repo rev-parse HEAD)" 2>/dev/null
  git -C "$WT" checkout -q -- . 
  git -C "$WT" clean -qfd -e target
}
case "$1" in
 validate)
  d=$(realpath "$2"); ensure_wt
  if ! git -C "$WT" apply "$d/patch.diff"; then echo "RESULT $2: patch does not apply"; exit 1; fi
  (cd "$WT" && cargo test --workspace --no-fail-fast --offline 2>&1 | grep -E "^test result" | awk '{p+=$4; f+=$6} END {print "suite with patch: passed="p" failed="f}')
  (cd "$WT" && cargo build --offline >/dev/null 2>&1)
  bash "$d/demo.sh" "$WT" >$R/demo_with.log 2>&1; with=$?
  git -C "$WT" checkout -q -- .
  (cd "$WT" && cargo build --offline >/dev/null 2>&1)
  bash "$d/demo.sh" "$WT" >$R/demo_without.log 2>&1; without=$?
  echo "RESULT $2: demo with patch exit=$with (want !=0), without exit=$without (want 0)"
  ;;
 detect)
  d=$(realpath "$2"); shift 2; ensure_wt
  if ! git -C "$WT" apply "$d/patch.diff"; then echo "patch does not apply"; exit 1; fi
  for p in "$@"; do
    out=$(VERIF_SUBJECT=$WT VERIF_TARGET_DIR=$VT VERIF_EVIDENCE_DIR=$R/evidence VERIF_REPLAY_DIR=$R/replays /verif/check "$p" "${TIER:-quick}" 2>&1); rc=$?
    echo "DETECT $(basename $d) $p rc=$rc $(echo "$out" | grep -c '^VIOLATION') violation lines"
    echo "$out" | grep -E '^(VIOLATION|MACHINERY)' | head -3
    if [ $rc = 1 ]; then f=$(echo "$out" | grep -m1 '^VIOLATION' | sed 's/.*replay=//'); python3 -c "
import json,sys
d=json.load(open('$f')); print('   ',d['clause'],'|',d['signature'][:150]); print('    exp:',d['expected'][:200]); print('    act:',d['actual'][:200])"; fi
  done
  git -C "$WT" checkout -q -- .
  ;;
 clean)
  git -C /repo worktree remove --force "$WT" 2>/dev/null; rm -rf $R; git -C /repo worktree prune
  ;;
esac
