//! Small enumeration combinators (fixed, simplest-first order).

/// All sequences over 0..k of length exactly n, in lexicographic order.
pub fn seqs_exact(k: usize, n: usize, mut f: impl FnMut(&[usize])) {
    let mut idx = vec![0usize; n];
    loop {
        f(&idx);
        let mut i = n;
        loop {
            if i == 0 {
                return;
            }
            i -= 1;
            idx[i] += 1;
            if idx[i] < k {
                break;
            }
            idx[i] = 0;
            if i == 0 {
                return;
            }
        }
        if n == 0 {
            return;
        }
    }
}

/// All sequences over 0..k of length 0..=n, shorter first (prefix-closed).
pub fn seqs_upto(k: usize, n: usize, mut f: impl FnMut(&[usize])) {
    for len in 0..=n {
        if len == 0 {
            f(&[]);
        } else if k > 0 {
            seqs_exact(k, len, &mut f);
        }
    }
}

/// Mixed-radix product: all index vectors with idx[i] < radix[i].
pub fn product(radix: &[usize], mut f: impl FnMut(&[usize])) {
    if radix.iter().any(|r| *r == 0) {
        return;
    }
    let n = radix.len();
    let mut idx = vec![0usize; n];
    loop {
        f(&idx);
        let mut i = n;
        loop {
            if i == 0 {
                return;
            }
            i -= 1;
            idx[i] += 1;
            if idx[i] < radix[i] {
                break;
            }
            idx[i] = 0;
            if i == 0 {
                return;
            }
        }
        if n == 0 {
            return;
        }
    }
}

/// All subsets of 0..n as bitmasks, by increasing popcount.
pub fn subsets_by_size(n: usize) -> Vec<u32> {
    let mut v: Vec<u32> = (0..(1u32 << n)).collect();
    v.sort_by_key(|m| (m.count_ones(), *m));
    v
}

/// All permutations of 0..n (lexicographic).
pub fn permutations(n: usize) -> Vec<Vec<usize>> {
    fn rec(cur: &mut Vec<usize>, used: &mut Vec<bool>, n: usize, out: &mut Vec<Vec<usize>>) {
        if cur.len() == n {
            out.push(cur.clone());
            return;
        }
        for i in 0..n {
            if !used[i] {
                used[i] = true;
                cur.push(i);
                rec(cur, used, n, out);
                cur.pop();
                used[i] = false;
            }
        }
    }
    let mut out = Vec::new();
    rec(&mut Vec::new(), &mut vec![false; n], n, &mut out);
    out
}

/// All ways to choose exactly k of n sites (combinations), lexicographic.
pub fn combinations(n: usize, k: usize) -> Vec<Vec<usize>> {
    fn rec(start: usize, n: usize, k: usize, cur: &mut Vec<usize>, out: &mut Vec<Vec<usize>>) {
        if cur.len() == k {
            out.push(cur.clone());
            return;
        }
        for i in start..n {
            cur.push(i);
            rec(i + 1, n, k, cur, out);
            cur.pop();
        }
    }
    let mut out = Vec::new();
    rec(0, n, k, &mut Vec::new(), &mut out);
    out
}
