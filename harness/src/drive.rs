//! In-process driver for `jawk::go` with fault-injecting reader / writers,
//! and a child-process driver for the real executable.

use clap::{CommandFactory, FromArgMatches};
use jawk::Cli;
use serde::{Deserialize, Serialize};
use std::cell::RefCell;
use std::io::{self, Read, Write};
use std::panic::{catch_unwind, AssertUnwindSafe};
use std::rc::Rc;

#[derive(Clone, Debug, Serialize, Deserialize, PartialEq, Default)]
pub enum FaultKind {
    #[default]
    Error,
    /// `n` Interrupted results, then the real error
    InterruptedThenError(u32),
}

#[derive(Clone, Debug, Serialize, Deserialize, Default, PartialEq)]
pub struct ReadPlan {
    /// fail when the reader is asked for the byte at this offset (offset == len: instead of EOF)
    pub fail_at: Option<usize>,
    pub kind: FaultKind,
    /// offsets before which one `Interrupted` is returned (harmless; std retries)
    pub interrupts: Vec<usize>,
    /// chunking: a single read never crosses one of these offsets (empty = 1 byte per read)
    #[serde(default)]
    pub cuts: Vec<usize>,
    /// serve as many bytes as the caller's buffer takes (bounded by `cuts`), instead of 1
    #[serde(default)]
    pub greedy: bool,
    /// io::ErrorKind of the injected read failure ("" = Other)
    #[serde(default)]
    pub error_kind: String,
    /// after `prefix`, serve this repeated forever (endless input) up to `horizon` bytes
    pub endless_tail: Option<Vec<u8>>,
    pub horizon: usize,
}

#[derive(Clone, Debug, Serialize, Deserialize, Default, PartialEq)]
pub struct WritePlan {
    /// stdout accepts exactly this many bytes, then fails
    pub stdout_fail_at: Option<usize>,
    pub stderr_fail_at: Option<usize>,
    /// writers accept at most this many bytes per call (short writes), 0 = unlimited
    pub max_chunk: usize,
    /// return one Interrupted before every n-th write call (0 = never)
    pub interrupt_every: usize,
    /// io::ErrorKind of the injected stdout failure ("" = Other). WouldBlock and TimedOut are transient: the writer
    /// fails once at the offset and accepts everything afterwards (what a caller that carries on would see).
    #[serde(default)]
    pub error_kind: String,
}

#[derive(Clone, Debug, Serialize, Deserialize, PartialEq)]
pub enum Input {
    Stdin(Vec<u8>),
    /// files are created under the work dir and appended to args
    Files(Vec<(String, Vec<u8>)>),
}

#[derive(Clone, Debug, Serialize, Deserialize, PartialEq)]
pub struct Case {
    pub args: Vec<String>,
    pub input: Input,
    #[serde(default)]
    pub rplan: ReadPlan,
    #[serde(default)]
    pub wplan: WritePlan,
}

impl Case {
    pub fn new(args: &[&str], input: &[u8]) -> Case {
        Case {
            args: args.iter().map(|s| s.to_string()).collect(),
            input: Input::Stdin(input.to_vec()),
            rplan: ReadPlan::default(),
            wplan: WritePlan::default(),
        }
    }
    pub fn owned(args: Vec<String>, input: Vec<u8>) -> Case {
        Case { args, input: Input::Stdin(input), rplan: ReadPlan::default(), wplan: WritePlan::default() }
    }
    pub fn shell(&self) -> String {
        let q = |s: &str| format!("'{}'", s.replace('\'', "'\\''"));
        let args: Vec<String> = self.args.iter().map(|a| q(a)).collect();
        match &self.input {
            Input::Stdin(b) => format!(
                "printf '%s' {} | jawk {}",
                q(&String::from_utf8_lossy(b)),
                args.join(" ")
            ),
            Input::Files(fs) => format!(
                "jawk {} {}",
                args.join(" "),
                fs.iter().map(|(n, _)| n.clone()).collect::<Vec<_>>().join(" ")
            ),
        }
    }
}

#[derive(Clone, Debug, Serialize, Deserialize, PartialEq)]
pub enum Res {
    Ok,
    Err(String),
    Panic(String),
    /// clap rejected the arguments
    Usage(String),
}

impl Res {
    pub fn is_ok(&self) -> bool {
        matches!(self, Res::Ok)
    }
    pub fn is_err(&self) -> bool {
        matches!(self, Res::Err(_) | Res::Usage(_))
    }
    pub fn is_panic(&self) -> bool {
        matches!(self, Res::Panic(_))
    }
    pub fn short(&self) -> String {
        match self {
            Res::Ok => "Ok".into(),
            Res::Err(e) => format!("Err({})", trunc(e, 120)),
            Res::Panic(e) => format!("PANIC({})", trunc(e, 160)),
            Res::Usage(e) => format!("Usage({})", trunc(e.lines().next().unwrap_or(""), 100)),
        }
    }
}

pub fn trunc(s: &str, n: usize) -> String {
    if s.chars().count() <= n {
        s.to_string()
    } else {
        let t: String = s.chars().take(n).collect();
        format!("{t}…")
    }
}

#[derive(Clone, Debug, Serialize, Deserialize, PartialEq)]
pub struct Obs {
    pub res: Res,
    pub stdout: Vec<u8>,
    pub stderr: Vec<u8>,
    pub factory_calls: u32,
    pub bytes_pulled: usize,
    pub read_calls: usize,
    pub reads_after_error: u32,
    pub horizon_hit: bool,
    pub stdout_write_calls: usize,
}

impl Obs {
    pub fn out_str(&self) -> String {
        String::from_utf8_lossy(&self.stdout).into_owned()
    }
    pub fn err_str(&self) -> String {
        String::from_utf8_lossy(&self.stderr).into_owned()
    }
    pub fn brief(&self) -> String {
        format!(
            "res={} stdout={:?} stderr={:?} pulled={}",
            self.res.short(),
            trunc(&self.out_str(), 300),
            trunc(&self.err_str(), 200),
            self.bytes_pulled
        )
    }
}

#[derive(Default)]
struct RStats {
    factory_calls: u32,
    bytes_pulled: usize,
    read_calls: usize,
    errored: bool,
    reads_after_error: u32,
    horizon_hit: bool,
}

struct FaultyReader {
    data: Rc<Vec<u8>>,
    pos: usize,
    plan: Rc<ReadPlan>,
    stats: Rc<RefCell<RStats>>,
    interrupted_here: u32,
    intr_done_at: Option<usize>,
}

impl Read for FaultyReader {
    fn read(&mut self, buf: &mut [u8]) -> io::Result<usize> {
        let mut st = self.stats.borrow_mut();
        st.read_calls += 1;
        if st.errored {
            st.reads_after_error += 1;
        }
        if buf.is_empty() {
            return Ok(0);
        }
        if let Some(at) = self.plan.fail_at {
            if self.pos == at {
                match self.plan.kind {
                    FaultKind::Error => {}
                    FaultKind::InterruptedThenError(n) => {
                        if self.interrupted_here < n {
                            self.interrupted_here += 1;
                            return Err(io::Error::new(io::ErrorKind::Interrupted, "injected EINTR"));
                        }
                    }
                }
                st.errored = true;
                let kind = match self.plan.error_kind.as_str() {
                    "BrokenPipe" => io::ErrorKind::BrokenPipe,
                    "ConnectionReset" => io::ErrorKind::ConnectionReset,
                    "ConnectionAborted" => io::ErrorKind::ConnectionAborted,
                    "UnexpectedEof" => io::ErrorKind::UnexpectedEof,
                    "TimedOut" => io::ErrorKind::TimedOut,
                    "WouldBlock" => io::ErrorKind::WouldBlock,
                    "InvalidData" => io::ErrorKind::InvalidData,
                    "PermissionDenied" => io::ErrorKind::PermissionDenied,
                    "NotFound" => io::ErrorKind::NotFound,
                    _ => io::ErrorKind::Other,
                };
                return Err(io::Error::new(kind, "injected read failure"));
            }
        }
        if self.intr_done_at != Some(self.pos) && self.plan.interrupts.contains(&self.pos) {
            self.intr_done_at = Some(self.pos);
            return Err(io::Error::new(io::ErrorKind::Interrupted, "injected EINTR"));
        }
        if self.plan.greedy && self.pos < self.data.len() {
            let mut end = self.data.len().min(self.pos + buf.len());
            let mut stops: Vec<usize> = self.plan.cuts.clone();
            stops.extend(self.plan.interrupts.iter().copied());
            if let Some(f) = self.plan.fail_at {
                stops.push(f);
            }
            for c in stops {
                if c > self.pos && c < end {
                    end = c;
                }
            }
            let n = end - self.pos;
            buf[..n].copy_from_slice(&self.data[self.pos..end]);
            self.pos = end;
            st.bytes_pulled += n;
            return Ok(n);
        }
        let byte = if self.pos < self.data.len() {
            Some(self.data[self.pos])
        } else if let Some(tail) = &self.plan.endless_tail {
            if self.pos >= self.plan.horizon {
                st.horizon_hit = true;
                None
            } else {
                Some(tail[(self.pos - self.data.len()) % tail.len()])
            }
        } else {
            None
        };
        match byte {
            Some(b) => {
                buf[0] = b;
                self.pos += 1;
                st.bytes_pulled += 1;
                Ok(1)
            }
            None => Ok(0),
        }
    }
}

pub struct FaultyWriter {
    pub data: Vec<u8>,
    kind: String,
    fail_at: Option<usize>,
    max_chunk: usize,
    interrupt_every: usize,
    pub calls: usize,
    pub failed: bool,
}

impl Write for FaultyWriter {
    fn write(&mut self, buf: &[u8]) -> io::Result<usize> {
        self.calls += 1;
        if buf.is_empty() {
            return Ok(0);
        }
        if self.interrupt_every > 0 && self.calls % self.interrupt_every == 0 {
            return Err(io::Error::new(io::ErrorKind::Interrupted, "injected EINTR"));
        }
        let mut n = buf.len();
        if self.max_chunk > 0 {
            n = n.min(self.max_chunk);
        }
        if let Some(at) = self.fail_at {
            let room = at.saturating_sub(self.data.len());
            if room == 0 {
                self.failed = true;
                let kind = match self.kind.as_str() {
                    "WouldBlock" => io::ErrorKind::WouldBlock,
                    "TimedOut" => io::ErrorKind::TimedOut,
                    "BrokenPipe" => io::ErrorKind::BrokenPipe,
                    "WriteZero" => io::ErrorKind::WriteZero,
                    "ConnectionReset" => io::ErrorKind::ConnectionReset,
                    "PermissionDenied" => io::ErrorKind::PermissionDenied,
                    "OutOfMemory" => io::ErrorKind::OutOfMemory,
                    _ => io::ErrorKind::Other,
                };
                if matches!(kind, io::ErrorKind::WouldBlock | io::ErrorKind::TimedOut) {
                    self.fail_at = None;
                }
                return Err(io::Error::new(kind, "injected write failure"));
            }
            n = n.min(room);
        }
        self.data.extend_from_slice(&buf[..n]);
        Ok(n)
    }
    fn flush(&mut self) -> io::Result<()> {
        Ok(())
    }
}

thread_local! {
    static CMD: RefCell<clap::Command> = RefCell::new(Cli::command());
}

pub fn parse_cli(args: &[String]) -> Result<Cli, String> {
    CMD.with(|c| parse_cli_with(&mut c.borrow_mut(), args))
}

fn parse_cli_with(c: &mut clap::Command, args: &[String]) -> Result<Cli, String> {
    let full = std::iter::once("jawk".to_string()).chain(args.iter().cloned());
    match c.try_get_matches_from_mut(full) {
        Ok(m) => Cli::from_arg_matches(&m).map_err(|e| e.to_string()),
        Err(e) => Err(e.to_string()),
    }
}

pub fn silence_panics() {
    std::panic::set_hook(Box::new(|_| {}));
}

fn panic_msg(p: Box<dyn std::any::Any + Send>) -> String {
    if let Some(s) = p.downcast_ref::<&str>() {
        s.to_string()
    } else if let Some(s) = p.downcast_ref::<String>() {
        s.clone()
    } else {
        "non-string panic payload".into()
    }
}

/// Scratch directory of this process for input files (created on demand, removed at the end of the process).
/// On a memory file system when there is one (hundreds of thousands of small files are written and removed per run),
/// otherwise under /verif/work.
pub fn work_dir() -> std::path::PathBuf {
    use std::sync::OnceLock;
    static BASE: OnceLock<std::path::PathBuf> = OnceLock::new();
    let base = BASE.get_or_init(|| {
        let shm = std::path::PathBuf::from("/dev/shm/jv-work");
        if std::env::var("JV_WORK_ON_DISK").is_err() && std::fs::create_dir_all(&shm).is_ok() && std::fs::write(shm.join(format!(".probe{}", std::process::id())), b"x").is_ok() {
            let _ = std::fs::remove_file(shm.join(format!(".probe{}", std::process::id())));
            shm
        } else {
            std::path::PathBuf::from("/verif/work")
        }
    });
    let d = base.join(std::process::id().to_string());
    let _ = std::fs::create_dir_all(&d);
    d
}

pub fn run(case: &Case) -> Obs {
    crate::crumb::set(case);
    let mut args = case.args.clone();
    let mut to_remove = Vec::new();
    let data: Vec<u8> = match &case.input {
        Input::Stdin(b) => b.clone(),
        Input::Files(files) => {
            let d = work_dir();
            for (name, bytes) in files {
                let p = d.join(name);
                if let Some(parent) = p.parent() {
                    let _ = std::fs::create_dir_all(parent);
                }
                std::fs::write(&p, bytes).expect("write work file");
                // a name with a directory part stands for a DIRECTORY argument: its top directory is named once
                match name.split_once('/') {
                    Some((top, _)) => {
                        let dir = d.join(top).to_string_lossy().into_owned();
                        if !args.contains(&dir) {
                            args.push(dir);
                        }
                    }
                    None => args.push(p.to_string_lossy().into_owned()),
                }
                to_remove.push(p);
            }
            // a non-empty stdin is still supplied so that "stdin untouched" is observable
            b"\"STDIN-MUST-NOT-BE-READ\"".to_vec()
        }
    };
    let obs = run_with(&args, data, &case.rplan, &case.wplan);
    for p in to_remove {
        let _ = std::fs::remove_file(&p);
        // directories made for directory arguments (only ever below the work dir)
        let mut up = p.parent();
        while let Some(q) = up {
            if q == work_dir() || std::fs::remove_dir(q).is_err() {
                break;
            }
            up = q.parent();
        }
    }
    obs
}

thread_local! {
    /// every run on a thread of its own (`JV_FRESH_THREAD=1`: the orchestrator's second attempt, see main.rs)
    static FRESH_MODE: bool = std::env::var_os("JV_FRESH_THREAD").is_some();
    static FORCE_FRESH: std::cell::Cell<bool> = const { std::cell::Cell::new(false) };
}

/// run `f` with every subject run inside it on a thread of its own
pub fn on_fresh_threads<T>(f: impl FnOnce() -> T) -> T {
    let old = FORCE_FRESH.with(|c| c.replace(true));
    let r = f();
    FORCE_FRESH.with(|c| c.set(old));
    r
}

pub fn fresh_mode() -> bool {
    FRESH_MODE.with(|b| *b)
}

/// A real run is a process of its own; the runs of a worker share one process, and - by default - one thread. What the
/// subject keeps in thread-locals or statics between two calls then shapes every later run alike: the single runs an
/// oracle compares with and the run under test, so the state hides itself. A thread per run removes the thread-local
/// part of that, but costs ~150 us per run on this machine when 16 workers do it at once (7 x the run itself), so it is
/// the probe (every 499th run is repeated on a thread of its own, `Ctx::run`) and the fall-back mode (when a probe
/// diverged, the orchestrator starts the whole check again with `JV_FRESH_THREAD=1`), not the default.
pub fn run_with(args: &[String], data: Vec<u8>, rplan: &ReadPlan, wplan: &WritePlan) -> Obs {
    if !(fresh_mode() || FORCE_FRESH.with(|c| c.get())) {
        return CMD.with(|c| run_on_this_thread(&mut c.borrow_mut(), args, data, rplan, wplan));
    }
    CMD.with(|c| {
        let mut cmd = c.borrow_mut();
        let cmd: &mut clap::Command = &mut cmd;
        std::thread::scope(|s| {
            let h = std::thread::Builder::new().stack_size(8 << 20).spawn_scoped(s, move || run_on_this_thread(cmd, args, data, rplan, wplan));
            match h {
                Ok(h) => h.join().unwrap_or_else(|p| Obs { res: Res::Panic(panic_msg(p)), stdout: vec![], stderr: vec![], factory_calls: 0, bytes_pulled: 0, read_calls: 0, reads_after_error: 0, horizon_hit: false, stdout_write_calls: 0 }),
                Err(e) => panic!("cannot start a thread for the run: {e}"),
            }
        })
    })
}

fn run_on_this_thread(cmd: &mut clap::Command, args: &[String], data: Vec<u8>, rplan: &ReadPlan, wplan: &WritePlan) -> Obs {
    let cli = match parse_cli_with(cmd, args) {
        Ok(c) => c,
        Err(e) => {
            return Obs {
                res: Res::Usage(e),
                stdout: vec![],
                stderr: vec![],
                factory_calls: 0,
                bytes_pulled: 0,
                read_calls: 0,
                reads_after_error: 0,
                horizon_hit: false,
                stdout_write_calls: 0,
            }
        }
    };
    let out = Rc::new(RefCell::new(FaultyWriter {
        data: Vec::new(),
        kind: wplan.error_kind.clone(),
        fail_at: wplan.stdout_fail_at,
        max_chunk: wplan.max_chunk,
        interrupt_every: wplan.interrupt_every,
        calls: 0,
        failed: false,
    }));
    let err = Rc::new(RefCell::new(FaultyWriter {
        data: Vec::new(),
        kind: String::new(),
        fail_at: wplan.stderr_fail_at,
        max_chunk: wplan.max_chunk,
        interrupt_every: wplan.interrupt_every,
        calls: 0,
        failed: false,
    }));
    let stats = Rc::new(RefCell::new(RStats::default()));
    let data = Rc::new(data);
    let plan = Rc::new(rplan.clone());
    let factory = {
        let stats = stats.clone();
        let data = data.clone();
        let plan = plan.clone();
        Box::new(move || {
            stats.borrow_mut().factory_calls += 1;
            FaultyReader {
                data: data.clone(),
                pos: 0,
                plan: plan.clone(),
                stats: stats.clone(),
                interrupted_here: 0,
                intr_done_at: None,
            }
        })
    };
    let o2: Rc<RefCell<dyn Write + Send>> = out.clone();
    let e2: Rc<RefCell<dyn Write + Send>> = err.clone();
    let r = catch_unwind(AssertUnwindSafe(move || jawk::go(cli, o2, e2, factory)));
    let res = match r {
        Ok(Ok(())) => Res::Ok,
        Ok(Err(e)) => Res::Err(e.to_string()),
        Err(p) => Res::Panic(panic_msg(p)),
    };
    // a panic may have left a RefCell borrowed; try_borrow to stay safe
    let stdout = out.try_borrow().map(|w| w.data.clone()).unwrap_or_default();
    let stdout_write_calls = out.try_borrow().map(|w| w.calls).unwrap_or(0);
    let stderr = err.try_borrow().map(|w| w.data.clone()).unwrap_or_default();
    let st = stats.borrow();
    Obs {
        res,
        stdout,
        stderr,
        factory_calls: st.factory_calls,
        bytes_pulled: st.bytes_pulled,
        read_calls: st.read_calls,
        reads_after_error: st.reads_after_error,
        horizon_hit: st.horizon_hit,
        stdout_write_calls,
    }
}

/// Convenience: run with plain args and stdin bytes.
pub fn run_simple(args: &[&str], input: &[u8]) -> Obs {
    run(&Case::new(args, input))
}

// ------------------------------------------------------------------ child-process driver (C20)

#[derive(Clone, Copy, Debug, PartialEq)]
pub enum OutMode {
    Pipe,
    /// a pipe whose reader is already gone: every write fails with EPIPE
    ClosedPipe,
    /// /dev/full: every write fails with ENOSPC
    DevFull,
}

#[derive(Clone, Debug)]
pub struct ChildObs {
    pub code: Option<i32>,
    pub signal: Option<i32>,
    pub stdout: Vec<u8>,
    pub stderr: Vec<u8>,
    pub timed_out: bool,
}

/// marker input for `run_child`: the child gets a directory as its standard input
pub const STDIN_IS_A_DIRECTORY: &[u8] = b"\0<stdin is a directory>";

pub fn run_child(bin: &str, args: &[String], input: &[u8], mode: OutMode) -> std::io::Result<ChildObs> {
    run_child_env(bin, args, input, mode, &[])
}

/// `run_child` with arguments that need not be text and extra environment variables for the child
pub fn run_child_env<A: AsRef<std::ffi::OsStr>>(bin: &str, args: &[A], input: &[u8], mode: OutMode, env: &[(&str, String)]) -> std::io::Result<ChildObs> {
    use std::os::fd::{FromRawFd, OwnedFd};
    use std::os::unix::process::ExitStatusExt;
    use std::process::{Command, Stdio};
    let mut cmd = Command::new(bin);
    // an input that cannot be read at all: the standard input is a directory (every read fails with EISDIR)
    let stdin_is_dir = input == STDIN_IS_A_DIRECTORY;
    if stdin_is_dir {
        cmd.args(args).stdin(std::fs::File::open(work_dir())?).stderr(Stdio::piped());
    } else {
        cmd.args(args).stdin(Stdio::piped()).stderr(Stdio::piped());
    }
    cmd.env("RUST_BACKTRACE", "0");
    for (k, v) in env {
        cmd.env(k, v);
    }
    match mode {
        OutMode::Pipe => {
            cmd.stdout(Stdio::piped());
        }
        OutMode::DevFull => {
            cmd.stdout(std::fs::OpenOptions::new().write(true).open("/dev/full")?);
        }
        OutMode::ClosedPipe => {
            let mut fds = [0i32; 2];
            if unsafe { libc::pipe2(fds.as_mut_ptr(), libc::O_CLOEXEC) } != 0 {
                return Err(std::io::Error::last_os_error());
            }
            unsafe { libc::close(fds[0]) };
            let w = unsafe { OwnedFd::from_raw_fd(fds[1]) };
            cmd.stdout(Stdio::from(w));
        }
    }
    // a child must not outlive the worker that started it (a worker that is killed at its deadline would otherwise
    // leave a looping subject behind, eating a core for the rest of the session)
    unsafe {
        use std::os::unix::process::CommandExt;
        cmd.pre_exec(|| {
            libc::prctl(libc::PR_SET_PDEATHSIG, libc::SIGKILL);
            Ok(())
        });
    }
    let mut child = cmd.spawn()?;
    let stdin = child.stdin.take();
    let data = input.to_vec();
    let feeder = std::thread::spawn(move || {
        if let Some(mut stdin) = stdin {
            let _ = stdin.write_all(&data);
        }
    });
    let mut out_pipe = child.stdout.take();
    let out_reader = std::thread::spawn(move || {
        let mut v = Vec::new();
        if let Some(p) = out_pipe.as_mut() {
            let _ = p.read_to_end(&mut v);
        }
        v
    });
    let mut err_pipe = child.stderr.take().unwrap();
    let err_reader = std::thread::spawn(move || {
        let mut v = Vec::new();
        let _ = err_pipe.read_to_end(&mut v);
        v
    });
    let t0 = std::time::Instant::now();
    let mut timed_out = false;
    let status = loop {
        match child.try_wait()? {
            Some(s) => break s,
            None => {
                if t0.elapsed().as_secs() > 20 {
                    let _ = child.kill();
                    timed_out = true;
                    break child.wait()?;
                }
                std::thread::sleep(std::time::Duration::from_micros(300));
            }
        }
    };
    let _ = feeder.join();
    let stdout = out_reader.join().unwrap_or_default();
    let stderr = err_reader.join().unwrap_or_default();
    Ok(ChildObs { code: status.code(), signal: status.signal(), stdout, stderr, timed_out })
}
