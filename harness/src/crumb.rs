//! Breadcrumb: the case currently being executed, kept in a static buffer so that
//! a fatal-signal handler or the hang watchdog can persist it before the
//! process dies. The orchestrator turns it into a replayable violation.

use crate::drive::Case;
use std::sync::atomic::{AtomicI32, AtomicU64, AtomicUsize, Ordering};

const CAP: usize = 1 << 16;
static mut BUF: [u8; CAP] = [0; CAP];
static LEN: AtomicUsize = AtomicUsize::new(0);
static FD: AtomicI32 = AtomicI32::new(-1);
pub static CASE_NO: AtomicU64 = AtomicU64::new(0);

pub fn set(case: &Case) {
    CASE_NO.fetch_add(1, Ordering::Relaxed);
    if FD.load(Ordering::Relaxed) < 0 {
        return;
    }
    // cheap serialisation: JSON only when small enough, built lazily would be
    // nicer but a handler cannot allocate; serde_json on a ~100 byte case is ~1 µs.
    let s = serde_json::to_vec(case).unwrap_or_default();
    let n = s.len().min(CAP);
    unsafe {
        let p = std::ptr::addr_of_mut!(BUF) as *mut u8;
        std::ptr::copy_nonoverlapping(s.as_ptr(), p, n);
    }
    LEN.store(if s.len() > CAP { 0 } else { n }, Ordering::Release);
}

fn dump(tag: &[u8]) {
    let fd = FD.load(Ordering::Relaxed);
    if fd < 0 {
        return;
    }
    let n = LEN.load(Ordering::Acquire);
    unsafe {
        libc::write(fd, tag.as_ptr() as *const libc::c_void, tag.len());
        libc::write(fd, b"\n".as_ptr() as *const libc::c_void, 1);
        let p = std::ptr::addr_of!(BUF) as *const u8;
        libc::write(fd, p as *const libc::c_void, n);
        libc::fsync(fd);
    }
}

extern "C" fn on_fatal(sig: libc::c_int) {
    let tag: &[u8] = match sig {
        libc::SIGSEGV => b"SIGSEGV",
        libc::SIGBUS => b"SIGBUS",
        libc::SIGABRT => b"SIGABRT",
        libc::SIGILL => b"SIGILL",
        libc::SIGFPE => b"SIGFPE",
        _ => b"SIGNAL",
    };
    dump(tag);
    unsafe { libc::_exit(70) }
}

/// Install handlers and the hang watchdog. `path` receives the crumb.
pub fn install(path: &str, hang_secs: u64) {
    let c = std::ffi::CString::new(path).unwrap();
    let fd = unsafe { libc::open(c.as_ptr(), libc::O_CREAT | libc::O_WRONLY | libc::O_TRUNC, 0o644) };
    FD.store(fd, Ordering::Relaxed);
    unsafe {
        // alternate stack so that a stack overflow can still be reported
        let sz = 1 << 16;
        let stack = libc::mmap(
            std::ptr::null_mut(),
            sz,
            libc::PROT_READ | libc::PROT_WRITE,
            libc::MAP_PRIVATE | libc::MAP_ANONYMOUS,
            -1,
            0,
        );
        let ss = libc::stack_t { ss_sp: stack, ss_flags: 0, ss_size: sz };
        libc::sigaltstack(&ss, std::ptr::null_mut());
        for sig in [libc::SIGSEGV, libc::SIGBUS, libc::SIGABRT, libc::SIGILL, libc::SIGFPE] {
            let mut sa: libc::sigaction = std::mem::zeroed();
            sa.sa_sigaction = on_fatal as usize;
            sa.sa_flags = libc::SA_ONSTACK;
            libc::sigaction(sig, &sa, std::ptr::null_mut());
        }
    }
    std::thread::spawn(move || {
        // CPU time of this process: a subject that hangs spins; a machine that stalls (the whole VM paused for a
        // snapshot, say) consumes none. No progress for `hang_secs` of wall time counts as a hang when the process also
        // burnt at least half of that as CPU time - or when four times that long has passed however idle it was.
        let cpu_now = || -> f64 {
            let mut ts: libc::timespec = unsafe { std::mem::zeroed() };
            unsafe { libc::clock_gettime(libc::CLOCK_PROCESS_CPUTIME_ID, &mut ts) };
            ts.tv_sec as f64 + ts.tv_nsec as f64 * 1e-9
        };
        let mut last = CASE_NO.load(Ordering::Relaxed);
        let mut since = std::time::Instant::now();
        let mut cpu_since = cpu_now();
        loop {
            std::thread::sleep(std::time::Duration::from_millis(500));
            let now = CASE_NO.load(Ordering::Relaxed);
            if now != last {
                last = now;
                since = std::time::Instant::now();
                cpu_since = cpu_now();
            } else if now > 0
                && !PAUSED.load(Ordering::Relaxed)
                && ((since.elapsed().as_secs() >= hang_secs && cpu_now() - cpu_since >= hang_secs as f64 / 2.0) || since.elapsed().as_secs() >= 4 * hang_secs)
            {
                dump(b"HANG");
                unsafe { libc::_exit(71) }
            }
        }
    });
}

use std::sync::atomic::AtomicBool;
static PAUSED: AtomicBool = AtomicBool::new(false);
/// Disable hang detection while the harness itself does long non-case work.
pub fn pause(p: bool) {
    PAUSED.store(p, Ordering::Relaxed);
    CASE_NO.fetch_add(1, Ordering::Relaxed);
}
