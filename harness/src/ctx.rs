//! Per-worker exploration context: slicing, counters, samples, violations.

use crate::drive::{self, Case, Obs};
use serde::{Deserialize, Serialize};
use std::collections::{BTreeMap, HashSet};
use std::hash::{Hash, Hasher};

#[derive(Clone, Copy, Debug, PartialEq, Eq)]
pub enum Tier {
    Quick,
    Thorough,
}

impl Tier {
    pub fn name(&self) -> &'static str {
        match self {
            Tier::Quick => "quick",
            Tier::Thorough => "thorough",
        }
    }
    pub fn pick<T>(&self, q: T, t: T) -> T {
        match self {
            Tier::Quick => q,
            Tier::Thorough => t,
        }
    }
}

#[derive(Clone, Debug, Serialize, Deserialize)]
pub struct Violation {
    pub property: String,
    /// which clause of the oracle failed
    pub clause: String,
    /// discriminating signature (used for grouping and for known-finding matching)
    pub sig: String,
    pub cases: Vec<Case>,
    pub expected: String,
    pub actual: String,
    pub size: usize,
    pub count: u64,
}

#[derive(Clone, Debug, Serialize, Deserialize, Default)]
pub struct Report {
    pub evaluations: u64,
    pub cases: u64,
    pub nontrivial: u64,
    pub traces: u64,
    pub states: Vec<u64>,
    pub transitions: Vec<u64>,
    pub outcomes: BTreeMap<String, u64>,
    pub guards: BTreeMap<String, u64>,
    pub samples: Vec<serde_json::Value>,
    pub violations: Vec<Violation>,
    pub violations_total: u64,
    pub machinery_errors: Vec<String>,
    pub levels_completed: Vec<String>,
    pub capped: Option<String>,
    pub notes: BTreeMap<String, String>,
}

pub fn h64<T: Hash + ?Sized>(t: &T) -> u64 {
    let mut h = Fnv(0xcbf29ce484222325);
    t.hash(&mut h);
    h.0
}

pub struct Fnv(pub u64);
impl Hasher for Fnv {
    fn finish(&self) -> u64 {
        self.0
    }
    fn write(&mut self, bytes: &[u8]) {
        for b in bytes {
            self.0 ^= *b as u64;
            self.0 = self.0.wrapping_mul(0x100000001b3);
        }
    }
}

pub struct Ctx {
    pub id: String,
    pub tier: Tier,
    pub slice: u64,
    pub nslices: u64,
    pub seed: u64,
    counter: u64,
    pub rep: Report,
    states: HashSet<u64>,
    transitions: HashSet<u64>,
    vio: BTreeMap<String, Violation>,
    deadline: std::time::Instant,
    sample_slots: usize,
    pub max_sigs: usize,
    /// where partial reports are written (so that a worker killed by a crash or hang in the subject keeps its counters)
    pub snapshot_path: Option<String>,
    last_snap: std::time::Instant,
}

impl Ctx {
    pub fn new(id: &str, tier: Tier, slice: u64, nslices: u64, seed: u64, budget_s: u64) -> Ctx {
        Ctx {
            id: id.to_string(),
            tier,
            slice,
            nslices,
            seed,
            counter: 0,
            rep: Report::default(),
            states: HashSet::new(),
            transitions: HashSet::new(),
            vio: BTreeMap::new(),
            deadline: std::time::Instant::now() + std::time::Duration::from_secs(budget_s),
            sample_slots: 6,
            max_sigs: 400,
            snapshot_path: None,
            last_snap: std::time::Instant::now(),
        }
    }
    /// Static slicing: call once per unit of work at the chosen loop level;
    /// true iff this worker owns the unit.
    #[inline]
    pub fn mine(&mut self) -> bool {
        let c = self.counter;
        self.counter += 1;
        c % self.nslices == self.slice
    }
    pub fn time_up(&self) -> bool {
        std::time::Instant::now() >= self.deadline
    }
    pub fn cap(&mut self, what: &str) {
        if self.rep.capped.is_none() {
            self.rep.capped = Some(what.to_string());
        }
    }
    pub fn level_done(&mut self, name: &str) {
        if !self.time_up() && self.rep.capped.is_none() {
            self.rep.levels_completed.push(name.to_string());
        }
    }
    /// Execute one case on the implementation (counts as an evaluation). Every
    /// 499th execution is repeated, on a thread of its own, and must give the identical observation (see
    /// `drive::run_with`).
    pub fn run(&mut self, case: &Case) -> Obs {
        self.rep.evaluations += 1;
        if self.rep.evaluations % 512 == 0 && self.last_snap.elapsed().as_secs() >= 2 {
            self.snapshot();
        }
        let o = drive::run(case);
        if self.rep.evaluations % 499 == 0 {
            // the repetition runs on a thread of its own: state the subject keeps between two runs of one thread
            // (which the executable, being a process per run, never sees) shows as a divergence
            let o2 = drive::on_fresh_threads(|| drive::run(case));
            if o != o2 {
                self.rep.machinery_errors.push(format!(
                    "nondeterministic observation (the repetition ran on a fresh thread) for case {}: {} vs {}",
                    serde_json::to_string(case).unwrap_or_default(),
                    o.brief(),
                    o2.brief()
                ));
            }
        }
        o
    }
    pub fn run_simple(&mut self, args: &[&str], input: &[u8]) -> Obs {
        self.run(&Case::new(args, input))
    }
    #[inline]
    pub fn state<T: Hash + ?Sized>(&mut self, t: &T) {
        if self.states.len() < 2_000_000 {
            self.states.insert(h64(t));
        }
    }
    #[inline]
    pub fn transition<T: Hash + ?Sized>(&mut self, t: &T) {
        if self.transitions.len() < 2_000_000 {
            self.transitions.insert(h64(t));
        }
    }
    pub fn outcome(&mut self, class: &str) {
        *self.rep.outcomes.entry(class.to_string()).or_insert(0) += 1;
    }
    pub fn guard(&mut self, name: &str) {
        *self.rep.guards.entry(name.to_string()).or_insert(0) += 1;
    }
    pub fn guard_n(&mut self, name: &str, n: u64) {
        *self.rep.guards.entry(name.to_string()).or_insert(0) += n;
    }
    /// one complete model trace (history) was replayed on the implementation and compared
    pub fn trace_validated(&mut self) {
        self.rep.traces += 1;
    }
    /// a distinct (by construction) case, non-trivial by the property's rule
    pub fn nontrivial(&mut self) {
        self.rep.nontrivial += 1;
    }
    pub fn case_done(&mut self) {
        self.rep.cases += 1;
    }
    /// Keep a few samples: the first ones, then seed-dependent picks.
    pub fn sample(&mut self, f: impl FnOnce() -> serde_json::Value) {
        let n = self.rep.cases;
        if self.rep.samples.len() < 3 {
            self.rep.samples.push(f());
        } else if self.rep.samples.len() < self.sample_slots + 3 {
            let k = 1009 + (self.seed % 997) * 13;
            if n % k == 0 {
                self.rep.samples.push(f());
            }
        }
    }
    pub fn violation(&mut self, clause: &str, sig: &str, cases: &[Case], expected: String, actual: String) {
        self.rep.violations_total += 1;
        let size: usize = cases
            .iter()
            .map(|c| {
                c.args.iter().map(|a| a.len() + 1).sum::<usize>()
                    + match &c.input {
                        drive::Input::Stdin(b) => b.len(),
                        drive::Input::Files(f) => f.iter().map(|(n, b)| n.len() + b.len()).sum(),
                    }
            })
            .sum();
        let key = format!("{clause}|{sig}");
        if let Some(v) = self.vio.get_mut(&key) {
            v.count += 1;
            if size < v.size {
                v.size = size;
                v.cases = cases.to_vec();
                v.expected = expected;
                v.actual = actual;
            }
            return;
        }
        if self.vio.len() >= self.max_sigs {
            // keep counting but do not store more signatures
            *self.rep.outcomes.entry("violations-beyond-signature-cap".into()).or_insert(0) += 1;
            return;
        }
        self.vio.insert(
            key,
            Violation {
                property: self.id.clone(),
                clause: clause.to_string(),
                sig: sig.to_string(),
                cases: cases.to_vec(),
                expected,
                actual,
                size,
                count: 1,
            },
        );
    }
    pub fn machinery_error(&mut self, msg: String) {
        if self.rep.machinery_errors.len() < 20 {
            self.rep.machinery_errors.push(msg);
        }
    }
    pub fn note(&mut self, k: &str, v: String) {
        self.rep.notes.insert(k.to_string(), v);
    }
    pub fn snapshot(&mut self) {
        self.last_snap = std::time::Instant::now();
        if let Some(p) = &self.snapshot_path {
            let mut r = self.rep.clone();
            r.states = self.states.iter().copied().collect();
            r.transitions = self.transitions.iter().copied().collect();
            r.violations = self.vio.values().cloned().collect();
            r.capped = Some("worker died inside the subject; partial report".into());
            let tmp = format!("{p}.tmp");
            if std::fs::write(&tmp, serde_json::to_vec(&r).unwrap_or_default()).is_ok() {
                let _ = std::fs::rename(&tmp, p);
            }
        }
    }
    pub fn finish(mut self) -> Report {
        self.rep.states = self.states.into_iter().collect();
        self.rep.transitions = self.transitions.into_iter().collect();
        self.rep.violations = self.vio.into_values().collect();
        self.rep
    }
}
