//! Known findings: committed file, read-only at run time. An entry with
//! status "known" suppresses exactly the violations whose `clause|signature`
//! matches its regular expression; "fixed" entries suppress nothing.

use crate::ctx::Violation;
use serde::Deserialize;

#[derive(Deserialize)]
pub struct Entry {
    pub status: String,
    pub property: String,
    #[serde(default)]
    pub r#match: Option<String>,
    pub what: String,
    #[serde(default)]
    pub commit: Option<String>,
}

#[derive(Deserialize)]
pub struct File {
    pub findings: Vec<Entry>,
}

pub struct Known {
    entries: Vec<(String, regex::Regex, String)>,
}

pub fn load(path: &std::path::Path) -> Result<Known, String> {
    let b = match std::fs::read(path) {
        Ok(b) => b,
        Err(_) => return Ok(Known { entries: vec![] }),
    };
    let f: File = serde_json::from_slice(&b).map_err(|e| e.to_string())?;
    let mut entries = Vec::new();
    for e in f.findings {
        if e.status == "known" {
            let m = e.r#match.ok_or_else(|| format!("known entry without match: {}", e.what))?;
            let re = regex::Regex::new(&m).map_err(|x| x.to_string())?;
            entries.push((e.property, re, e.what));
        }
    }
    Ok(Known { entries })
}

impl Known {
    pub fn matching(&self, property: &str, v: &Violation) -> Option<String> {
        let key = format!("{}|{}", v.clause, v.sig);
        for (p, re, what) in &self.entries {
            if p == property && re.is_match(&key) {
                return Some(what.clone());
            }
        }
        None
    }
}
