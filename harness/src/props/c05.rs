//! C05 — no input data and no parsable expression can make jawk panic or hang.

use super::{Prop, COMMON_ASSUMPTIONS};
use crate::ctx::{Ctx, Tier};
use crate::drive::{Case, Obs};
use crate::refmodel::ftable;
use crate::refmodel::json;
use crate::refmodel::spell::{self, template};

pub fn prop() -> Prop {
    Prop {
        id: "C05",
        level: "model_checking",
        rule: "(i) all byte strings of length <=5 (thorough 6) over a 24-byte JSON alphabet and <=4 (5) over 28 bytes incl. invalid UTF-8, under every --on-error policy up to length 4 (5); (ii) every prefix and every single-byte corruption (by each of 28 bytes, at each offset) of every U1 document and of touching pairs over the core; (iii) structural families up to 4 KiB with nesting <= 64; (iv) every pure function applied to every argument tuple (arity <= 3) over a 24-atom menu incl. ill-typed ones, on 4 inputs; (v) multi-byte characters at every byte offset 0..40 of string arguments and of expression texts in every option; (vi) %+every ASCII byte in strftime formats, out-of-range instants. (ix) ~45 expressions that come back into the function they are in (parse_selection inside a parsed selection - literal, through the data, inside a lambda, three levels -, macros that refer to themselves and end, every lambda-taking function inside its own lambda) x 4 policies x 2 cache sizes. Non-trivial = the input is not a clean stream / the call is not the documented happy path; distinct by construction",
        explanation: "exhaustive enumeration; oracle: the run returns (Ok or Err) without a panic (caught in-process), abort or hang (worker watchdog + breadcrumb)",
        assumptions: COMMON_ASSUMPTIONS.to_vec(),
        guards: vec!["expression-that-comes-back-into-its-own-function", "object-with-many-kinds-of-member-names", "regex-calls-nested-under-a-cache", "invalid-utf8-input", "policy-panic", "truncated-document", "ill-typed-call", "multibyte-at-offset-32", "strftime-byte"],
        budget_s: (120, 3000),
        single_worker: false,
        run,
        recheck: Some(recheck),
    }
}

fn recheck(cases: &[Case], _clause: &str) -> bool {
    cases.iter().any(|c| crate::drive::run(c).res.is_panic())
}

fn judge(ctx: &mut Ctx, case: &Case, obs: &Obs, sigkind: &str, detail: &str) -> bool {
    ctx.case_done();
    ctx.trace_validated();
    match &obs.res {
        crate::drive::Res::Panic(msg) => {
            ctx.outcome("panic");
            // signature: where it panics (message without the varying numbers) + the kind of case
            let m: String = msg.chars().map(|c| if c.is_ascii_digit() { '#' } else { c }).collect();
            let m = m.split(" of `").next().unwrap_or("").to_string();
            let m = m.split("; it is inside").next().unwrap_or("").to_string();
            let m = crate::drive::trunc(&m, 90);
            ctx.violation("panic", &format!("{sigkind}: {detail}: {m}"), &[case.clone()], "Ok or Err".into(), format!("panic: {msg}"));
            true
        }
        crate::drive::Res::Ok => {
            ctx.outcome("ok");
            false
        }
        crate::drive::Res::Err(_) => {
            ctx.outcome("err");
            false
        }
        crate::drive::Res::Usage(_) => {
            ctx.outcome("usage");
            false
        }
    }
}

const A24: &[u8] = b" \n{}[],:\"\\-.01eEtrunlfas";
const A28: &[u8] = b" \n{}[],:\"\\-.01eEtrunlfas+\xc3\xa9\xff";
const POLICIES: [&str; 4] = ["ignore", "panic", "stderr", "stdout"];

fn bytes_run(ctx: &mut Ctx, input: &[u8], policy: Option<&str>) {
    let args: Vec<String> = match policy {
        Some(p) => vec![format!("--on-error={p}")],
        None => vec![],
    };
    let case = Case::owned(args, input.to_vec());
    let obs = ctx.run(&case);
    let class: (usize, &str) = match json::parse_stream(input) {
        Ok(v) => (v.len().min(3), "clean"),
        Err((v, e)) => {
            ctx.nontrivial();
            (v.len().min(3), e.what)
        }
    };
    ctx.state(&class);
    ctx.transition(&(class, obs.res.is_ok(), policy));
    let shape: String = input.iter().take(3).map(|b| format!("{b:02x}")).collect();
    judge(ctx, &case, &obs, "bytes", &format!("input starting {shape} policy {}", policy.unwrap_or("default")));
    ctx.sample(|| serde_json::json!({"input_bytes": String::from_utf8_lossy(input), "policy": policy, "result": obs.res.short()}));
}

fn part_i(ctx: &mut Ctx) {
    let (n24, n28, npol) = match ctx.tier {
        Tier::Quick => (5usize, 4usize, 4usize),
        Tier::Thorough => (6, 5, 5),
    };
    // 24-byte alphabet, default policy; slicing on the first two bytes
    for len in 0..=n24 {
        if len < 2 {
            let mut todo = Vec::new();
            crate::explore::seqs_exact(A24.len(), len, |idx| todo.push(idx.iter().map(|i| A24[*i]).collect::<Vec<u8>>()));
            for t in todo {
                if ctx.mine() {
                    bytes_run(ctx, &t, None);
                }
            }
            continue;
        }
        for a in A24 {
            for b in A24 {
                if !ctx.mine() {
                    continue;
                }
                let mut buf = vec![*a, *b];
                buf.resize(len, 0);
                let rest = len - 2;
                crate::explore::seqs_exact(A24.len(), rest, |idx| {
                    for (k, i) in idx.iter().enumerate() {
                        buf[2 + k] = A24[*i];
                    }
                    let b2 = buf.clone();
                    bytes_run(ctx, &b2, None);
                });
                if ctx.time_up() {
                    ctx.cap("part i/24");
                    return;
                }
            }
        }
        ctx.level_done(&format!("i:all-strings-len-{len}-over-24-bytes"));
    }
    // 28-byte alphabet (adds + and non-UTF-8), every policy for the shorter ones
    for len in 1..=n28 {
        for a in A28 {
            if !ctx.mine() {
                continue;
            }
            let mut buf = vec![*a];
            buf.resize(len, 0);
            crate::explore::seqs_exact(A28.len(), len - 1, |idx| {
                for (k, i) in idx.iter().enumerate() {
                    buf[1 + k] = A28[*i];
                }
                let b2 = buf.clone();
                if b2.contains(&0xff) {
                    ctx.guard("invalid-utf8-input");
                }
                if len <= npol {
                    for p in POLICIES {
                        if p == "panic" {
                            ctx.guard("policy-panic");
                        }
                        bytes_run(ctx, &b2, Some(p));
                    }
                } else {
                    bytes_run(ctx, &b2, None);
                }
            });
            if ctx.time_up() {
                ctx.cap("part i/28");
                return;
            }
        }
        ctx.level_done(&format!("i:all-strings-len-{len}-over-28-bytes-all-policies<= {npol}"));
    }
}

fn part_ii(ctx: &mut Ctx) {
    let u1 = spell::universe1();
    let core = spell::core12();
    let mut docs: Vec<Vec<u8>> = Vec::new();
    for v in &u1 {
        let t = template(v);
        docs.push(t.default_text().into_bytes());
        // one escaped / exponent spelling per value as well
        let mut n = 0;
        t.deviations(1, |s| {
            if n % 5 == 0 {
                docs.push(s.into_bytes());
            }
            n += 1;
        });
    }
    for a in &core {
        for b in &core {
            let (sa, sb) = (template(a).default_text(), template(b).default_text());
            docs.push(format!("{sa} {sb}").into_bytes());
            if spell::may_touch(&sa, &sb) {
                docs.push(format!("{sa}{sb}").into_bytes());
            }
        }
    }
    docs.sort();
    docs.dedup();
    for d in &docs {
        if !ctx.mine() {
            continue;
        }
        for cut in 0..d.len() {
            ctx.guard("truncated-document");
            for p in ["ignore", "panic"] {
                bytes_run(ctx, &d[..cut], Some(p));
            }
        }
        for off in 0..d.len() {
            for b in A28 {
                if d[off] == *b {
                    continue;
                }
                let mut m = d.clone();
                m[off] = *b;
                bytes_run(ctx, &m, None);
            }
        }
        if ctx.time_up() {
            ctx.cap("part ii");
            return;
        }
    }
    ctx.level_done("ii:every-prefix-and-single-corruption");
    if ctx.tier == Tier::Thorough {
        let cdocs: Vec<Vec<u8>> = core.iter().map(|v| template(v).default_text().into_bytes()).collect();
        for a in &cdocs {
            for b in &cdocs {
                if !ctx.mine() {
                    continue;
                }
                let mut d = a.clone();
                d.push(b' ');
                d.extend_from_slice(b);
                for o1 in 0..d.len() {
                    for o2 in (o1 + 1)..d.len() {
                        for b1 in A28 {
                            for b2 in A28 {
                                let mut m = d.clone();
                                m[o1] = *b1;
                                m[o2] = *b2;
                                bytes_run(ctx, &m, None);
                            }
                        }
                    }
                }
                if ctx.time_up() {
                    ctx.cap("part ii double");
                    return;
                }
            }
        }
        ctx.level_done("ii:double-corruptions-of-core-pairs");
    }
}

fn part_iii(ctx: &mut Ctx) {
    let mut fam: Vec<Vec<u8>> = Vec::new();
    for k in [1usize, 2, 3, 8, 16, 32, 63, 64] {
        fam.push(b"[".repeat(k));
        fam.push(b"{\"a\":".repeat(k));
        fam.push([b"[".repeat(k), b"1".to_vec(), b"]".repeat(k)].concat());
        fam.push([b"[".repeat(k), b"]".repeat(k + 1)].concat());
        fam.push([b"{\"a\":".repeat(k), b"1".to_vec(), b"}".repeat(k.saturating_sub(1))].concat());
        fam.push([b"[".repeat(k), b"\"".to_vec()].concat());
    }
    for k in [1usize, 19, 20, 21, 40, 308, 309, 400, 1000, 4096] {
        fam.push(b"9".repeat(k));
        fam.push([b"-".to_vec(), b"9".repeat(k)].concat());
        fam.push([b"0.".to_vec(), b"0".repeat(k), b"1".to_vec()].concat());
        fam.push([b"1".to_vec(), b"0".repeat(k), b".5".to_vec()].concat());
        fam.push(b"\"\\u00e9".repeat(k.min(500)));
        fam.push([b"\"".to_vec(), b"\\u00e9".repeat(k.min(600)), b"\"".to_vec()].concat());
        fam.push([b"\"".to_vec(), "é".repeat(k.min(2000)).into_bytes()].concat());
        fam.push([b"\"".to_vec(), b"\xff".repeat(k.min(4000)), b"\"".to_vec()].concat());
        fam.push(b"1 ".repeat(k.min(2048)));
        fam.push(b"} ".repeat(k.min(2048)));
        fam.push(b"\"\"".repeat(k.min(2048)));
    }
    for e in ["1e1000", "1e-1000", "-1e1000", "1e999999999999", "1E+308", "1e309", "0e99999", "1e", "1e+", "-", "-.", "1.", ".1", "1.e1", "00", "-01", "0x10", "1e1e1"] {
        fam.push(e.as_bytes().to_vec());
    }
    // histories of malformed records: the same broken record n times, then valid values
    // (state that leaks from one failed record into the next only shows after several)
    let broken: Vec<Vec<u8>> = vec![
        b"[x".to_vec(),
        b"[[[[x".to_vec(),
        [b"[".repeat(40), b"x".to_vec()].concat(),
        [b"{\"a\":".repeat(30), b"x".to_vec()].concat(),
        b"{\"a\": [1, 2}".to_vec(),
        b"{\"a\":{x".to_vec(),
        b"[1,".to_vec(),
        b"{\"a\"".to_vec(),
        b"\"\\q\"".to_vec(),
        b"[\"\\u12".to_vec(),
        b"[tru".to_vec(),
        b"[-".to_vec(),
        b"[1e".to_vec(),
    ];
    for r in &broken {
        for n in [1usize, 2, 3, 4, 5, 8, 16, 33, 65, 130, 300, 1000] {
            if (r.len() + 1) * n > 4096 {
                continue;
            }
            let mut f = Vec::new();
            for _ in 0..n {
                f.extend_from_slice(r);
                f.push(b'\n');
            }
            f.extend_from_slice(b"[1]\n{\"a\":[2]}\n3\n");
            fam.push(f);
        }
    }
    // \\u escapes: every sequence of <=3 escapes over {high surrogate, low surrogate, BMP, the highest and lowest of each
    // range}, as a value, as a member name, at the end of the input, and through (parse .)
    {
        let esc = ["\\uD83D", "\\uDE03", "\\u00e9", "\\uD800", "\\uDBFF", "\\uDC00", "\\uDFFF", "\\uFFFF", "x"];
        let mut seqs: Vec<Vec<usize>> = Vec::new();
        crate::explore::seqs_upto(esc.len(), 3, |s| seqs.push(s.to_vec()));
        for s in seqs {
            if s.is_empty() {
                continue;
            }
            let body: String = s.iter().map(|i| esc[*i]).collect();
            fam.push(format!("\"{body}\" 1\n").into_bytes());
            fam.push(format!("{{\"{body}\": [\"{body}\"]}} [2]").into_bytes());
            fam.push(format!("[\"a{body}").into_bytes());
        }
    }
    for f in fam {
        if !ctx.mine() {
            continue;
        }
        for p in POLICIES {
            bytes_run(ctx, &f, Some(p));
        }
    }
    ctx.level_done("iii:structural-families<=4KiB,nesting<=64,repeated-malformed-records");
}

pub const ATOMS: &[&str] = &[
    "null", "true", "false", "0", "1", "2", "4", "5", "-1", "1.5", "10000", "9007199254740992", "-9223372036854775808", "18446744073709551615", "\"\"", "\"a\"", "\"é\"", "\"aé😃\"",
    "\"12\"", "\"a,b\"", "\"\u{ff11}\u{ff12}\"", "\"\u{b2}\"", "[]", "[1,2,3]", "[\"a\",\"b\"]", "{}", "{\"a\":1,\"b\":2}", "[{\"a,b\":1,\"c\":2},{\"a\":1,\"b,c\":2},{\",\":1,\"a\":2},{\"\":1,\",a\":2}]", ".nokey", ".", "(= . 1)", ".a",
];
pub const INPUTS: &[&str] = &["{\"a\":[1,2],\"b\":\"é\"}", "[3,\"x\",null]", "\"é😃\"", "7"];

fn run_exprs(ctx: &mut Ctx, exprs: &[String], input: &str, policy: &str, kind: &str, fname: &str) {
    let mut args: Vec<String> = vec![format!("--on-error={policy}")];
    // an option that must not matter, in rotation
    match crate::ctx::h64(&exprs.first()) % 3 {
        1 => args.push("--regular-expression-cache-size=1".into()),
        2 => args.push("--regular-expression-cache-size=8".into()),
        _ => {}
    }
    for (i, e) in exprs.iter().enumerate() {
        args.push(format!("--select={e}=x{i}"));
    }
    let case = Case::owned(args, input.as_bytes().to_vec());
    let obs = ctx.run(&case);
    ctx.nontrivial();
    if obs.res.is_panic() {
        // pinpoint
        for e in exprs {
            let c1 = Case::owned(vec![format!("--on-error={policy}"), format!("--select={e}=x")], input.as_bytes().to_vec());
            let o1 = ctx.run(&c1);
            if o1.res.is_panic() {
                let f = e.trim_start_matches('(').split(' ').next().unwrap_or(fname).to_string();
                judge(ctx, &c1, &o1, kind, &f);
            }
        }
    } else {
        judge(ctx, &case, &obs, kind, fname);
    }
    ctx.sample(|| serde_json::json!({"selects": exprs.iter().take(3).collect::<Vec<_>>(), "input": input, "result": obs.res.short()}));
}

fn part_iv(ctx: &mut Ctx) {
    let policies: &[&str] = match ctx.tier {
        Tier::Quick => &["ignore"],
        Tier::Thorough => &POLICIES,
    };
    for f in ftable::pure_functions() {
        let mut names = vec![f.name];
        if ctx.tier == Tier::Thorough {
            names.extend(f.aliases.iter());
        }
        let lo = f.min;
        let hi = f.max.min(3).max(f.min);
        for name in names {
            for ar in lo..=hi {
                if !ctx.mine() {
                    continue;
                }
                ctx.guard("ill-typed-call");
                let mut batch: Vec<String> = Vec::new();
                let mut all: Vec<Vec<String>> = Vec::new();
                // the general atoms plus the ones that matter for this function in particular (patterns, formats, separators)
                let mut atoms: Vec<&str> = ATOMS.to_vec();
                if ar <= 2 {
                    atoms.extend(super::c04::extra_atoms(f.name));
                }
                crate::explore::seqs_exact(atoms.len(), ar, |idx| {
                    let args: Vec<&str> = idx.iter().map(|i| atoms[*i]).collect();
                    // a count beyond the property's bound of 10^4 items is resource exhaustion where the count IS the size asked for
                    if f.name == "range" && (args[0] == "9007199254740992" || args[0] == "18446744073709551615") {
                        return;
                    }
                    batch.push(format!("({} {})", name, args.join(" ")));
                    if batch.len() == 24 {
                        all.push(std::mem::take(&mut batch));
                    }
                });
                if !batch.is_empty() {
                    all.push(batch);
                }
                for b in &all {
                    for input in INPUTS {
                        for p in policies {
                            run_exprs(ctx, b, input, p, "call", f.name);
                        }
                    }
                }
                if ctx.time_up() {
                    ctx.cap("part iv");
                    return;
                }
            }
        }
    }
    ctx.level_done("iv:every-pure-function-x-every-atom-tuple(arity<=3)");
}

fn mb_strings() -> Vec<String> {
    // a multi-byte character placed so that it straddles every byte offset 0..40
    let mut v = Vec::new();
    for ch in ["é", "€", "😃"] {
        for pre in 0..=40usize {
            v.push(format!("{}{}{}", "a".repeat(pre), ch, "b"));
        }
    }
    v
}

fn part_v(ctx: &mut Ctx) {
    let strings = mb_strings();
    // (a) string-taking functions with every count 0..=len+1
    let two_arg = ["head", "tail", "take", "take_last", "split", "concat", "match", "get", "join", "parse_time", "format_time"];
    for s in &strings {
        if !ctx.mine() {
            continue;
        }
        let lit = format!("\"{s}\"");
        let nbytes = s.len();
        let mut exprs = Vec::new();
        for n in 0..=(nbytes + 1) {
            for f in ["head", "tail", "take", "take_last"] {
                exprs.push(format!("({f} {lit} {n})"));
            }
            for m in [0usize, 1, 2, nbytes] {
                exprs.push(format!("(sub {lit} {n} {m})"));
            }
        }
        for f in ["size", "parse", "stringify", "base63_decode", "parse_selection", "as_string", "env", "\"||\"", "\"abs\""] {
            exprs.push(format!("({f} {lit})"));
        }
        for f in two_arg {
            exprs.push(format!("({f} {lit} {lit})"));
            exprs.push(format!("({f} {lit} \"b\")"));
            exprs.push(format!("({f} \"b\" {lit})"));
        }
        exprs.push(format!("(extract_regex_group {lit} \"(.)b\" 1)"));
        exprs.push(format!("(split {lit} \"\")"));
        exprs.push(format!("(put {{}} {lit} 1)"));
        exprs.push(format!("(set {lit} 1 :a)"));
        exprs.push(format!("(define {lit} 1 @a)"));
        for chunk in exprs.chunks(30) {
            run_exprs(ctx, chunk, "1", "ignore", "multibyte-string-argument", "string functions");
        }
        if s.len() >= 33 {
            ctx.guard("multibyte-at-offset-32");
        }
        // (b) the same string as the text of every option that takes an expression
        for opt in ["--select", "--filter", "--split-by", "--group-by", "--sort-by", "--set"] {
            let texts = [
                lit.clone(),
                format!("(concat {lit} \"x\")"),
                format!(".{s}"),
                format!(":{s}"),
                format!("/{s}/"),
                format!("{s}"),
                format!("(parse {lit})"),
            ];
            for t in texts {
                let arg = if opt == "--set" { format!("{opt}=v={t}") } else { format!("{opt}={t}") };
                let case = Case::owned(vec![arg], b"1 {\"a\":1}".to_vec());
                let obs = ctx.run(&case);
                ctx.nontrivial();
                judge(ctx, &case, &obs, "multibyte-option-text", opt);
            }
            if opt == "--set" {
                let case = Case::owned(vec![format!("--set={s}=1")], b"1".to_vec());
                let obs = ctx.run(&case);
                judge(ctx, &case, &obs, "multibyte-option-text", "--set name");
            }
        }
        // (c) as input data handled by (parse .) and friends
        let input = format!("\"{s}\" [\"{s}\"] {{\"{s}\":\"{s}\"}}");
        for e in ["(parse .)", "(head . 33)", "(take . 32)", "(parse_selection .)", "(stringify .)", "(size .)", "(keys .)", "(join .)", "(take_last . 1)", "(tail . 1)"] {
            let case = Case::owned(vec![format!("--select={e}=x")], input.as_bytes().to_vec());
            let obs = ctx.run(&case);
            ctx.nontrivial();
            judge(ctx, &case, &obs, "multibyte-input", e);
        }
        if ctx.time_up() {
            ctx.cap("part v");
            return;
        }
    }
    ctx.level_done("v:multibyte-at-every-offset-0..40");
}

fn part_vi(ctx: &mut Ctx) {
    let instants = ["0", "1", "-1", "1.5", "1700000000", "1e12", "-1e12", "1e18", "-1e18", "1e300", "-1e300", "18446744073709551615", "-9223372036854775808", "253402300800", "-62167219201"];
    let mut exprs = Vec::new();
    for b in 0x20u8..0x7f {
        if b == b'"' || b == b'\\' {
            continue;
        }
        let c = b as char;
        for inst in ["0", "1700000000.5"] {
            exprs.push(format!("(format_time {inst} \"%{c}\")"));
            exprs.push(format!("(format_time {inst} \"%-{c}\")"));
            exprs.push(format!("(format_time {inst} \"%.3{c}\")"));
            exprs.push(format!("(format_time {inst} \"%:{c}\")"));
        }
        exprs.push(format!("(parse_time \"2020-01-02 03:04:05\" \"%{c}\")"));
        exprs.push(format!("(parse_time_with_zone \"2020-01-02 03:04:05 +0000\" \"%{c}\")"));
        exprs.push(format!("(parse_time \"{c}\" \"%{c}\")"));
    }
    exprs.push("(format_time 0 \"%\")".into());
    exprs.push("(format_time 0 \"%%%\")".into());
    exprs.push("(parse_time \"\" \"\")".into());
    for inst in instants {
        for fmt in ["%Y-%m-%dT%H:%M:%S", "%s", "%+", "%c", "%Z"] {
            exprs.push(format!("(format_time {inst} \"{fmt}\")"));
        }
    }
    for t in ["9999-12-31 23:59:60", "0000-00-00 00:00:00", "99999-01-01 00:00:00", "2020-02-30 00:00:00", "-2020-01-01 00:00:00", "2020-01-01 24:00:00"] {
        exprs.push(format!("(parse_time \"{t}\" \"%Y-%m-%d %H:%M:%S\")"));
        exprs.push(format!("(parse_time_with_zone \"{t} +9999\" \"%Y-%m-%d %H:%M:%S %z\")"));
    }
    // other numeric edge calls
    for e in [
        "(range -1)", "(range 1.5)", "(range 0)", "(% 1 0)", "(/ 1 0)", "(% -9223372036854775808 -1)", "(/ -9223372036854775808 -1)",
        "(abs -9223372036854775808)", "(- -9223372036854775808)", "(- 0 18446744073709551615)", "(+ 18446744073709551615 1)",
        "(* 18446744073709551615 18446744073709551615)", "(round 1e300)", "(ceil -1e300)", "(floor 1.8446744073709552e19)",
        "(sub [1,2,3] 10001 10001)", "(sub \"abc\" 10001 2)", "(take [1] 10001)",
        "(head \"abc\" 10001)", "(tail \"abc\" 10001)", "(get [1] 10001)",
        "(take_last [1,2] 0)", "(take_last {\"a\":1} 0)", "(take_last \"\" 0)", "(take_last \"abc\" 0)", "(tail \"\" 0)", "(head \"\" 0)",
        "(\"/\" \"1\" \"0\")", "(\"%\" \"1\" \"0\")", "(\"/\" \"1\" \"3\")", "(\"round\" \"1e1000\")", "(\"+\" \"1e1000\" \"1e-1000\")",
        "(\"*\" \"1e1000\" \"1e1000\")", "(\"||\" \"1e-1000\")", "(\"round\" \"0.5\")", "(\"sort_by\" [\"1e1000\",\"x\"] .)",
        "(fold [] .)", "(fold [1] 0 (+ .so_far .value))", "(first [])", "(last [])", "(pop [])", "(pop_first [])", "(sum [])", "(join [])",
        "(zip [] [])", "(cross [] [])", "(extract_regex_group \"ab\" \"(a)|(b)\" 2)", "(extract_regex_group \"b\" \"(a)|(b)\" 1)",
        "(extract_regex_group \"ac\" \"a(b)?c\" 1)", "(extract_regex_group \"a\" \"(a)\" 2)", "(extract_regex_group \"a\" \"(a)\" 18446744073709551615)",
        "(match \"a\" \"(\")", "(match \"a\" \"\")", "(extract_regex_group \"a\" \"(\" 0)", "(split \"\" \"\")", "(base63_decode \"=\")",
        "(base63_decode \"/w==\")", "(parse \"\")", "(parse \"[\")", "(parse_selection \"(\")", "(parse_selection \"\")", "(parse_selection \"(nosuch 1)\")",
    ] {
        exprs.push(e.to_string());
    }
    let chunks: Vec<Vec<String>> = exprs.chunks(20).map(|c| c.to_vec()).collect();
    for c in chunks {
        if !ctx.mine() {
            continue;
        }
        ctx.guard("strftime-byte");
        for p in ["ignore", "panic"] {
            run_exprs(ctx, &c, "1", p, "edge-call", "time/number edge");
        }
    }
    ctx.level_done("vi:strftime-bytes,out-of-range-instants,numeric-edges");
}

/// the two regular-expression functions nested in each other's arguments (depth <= 2), patterns with groups that may
/// stay out of a match, under cache sizes 0, 1 and 2
fn part_vii(ctx: &mut Ctx) {
    let t0 = ["\"a\"", "\"b\"", "\"xa\"", "\"(a)|(b)\"", "\"(x)?(a)\"", "\"(b)*a(\u{e9})?\"", "\"[\"", ".nokey", "1", "\"\""];
    let idx = ["0", "1", "2", "3", "-1", "\"1\""];
    let mut t1: Vec<String> = Vec::new();
    for s in t0 {
        for p in t0 {
            t1.push(format!("(match {s} {p})"));
            for i in idx {
                t1.push(format!("(extract_regex_group {s} {p} {i})"));
            }
        }
    }
    // representatives of depth 1 used as arguments at depth 2
    let inner = [
        "(match \"a\" \"(a)|(b)\")", "(extract_regex_group \"b\" \"(a)|(b)\" 2)", "(extract_regex_group \"b\" \"(a)|(b)\" 1)", "(extract_regex_group \"xa\" \"(x)?(a)\" 0)",
        "(? (match \"a\" \"a\") \"a\" \"b\")", "(concat (extract_regex_group \"xa\" \"(x)?(a)\" 1) \"a\")", "(extract_regex_group \"a\" \"[\" 0)", "(stringify (match \"b\" \"a\"))",
    ];
    let mut t2: Vec<String> = Vec::new();
    let args2: Vec<&str> = t0.iter().cloned().chain(inner.iter().cloned()).collect();
    for s in &args2 {
        for p in &args2 {
            if !(inner.contains(s) || inner.contains(p)) {
                continue;
            }
            t2.push(format!("(match {s} {p})"));
            for i in ["0", "1", "2"] {
                t2.push(format!("(extract_regex_group {s} {p} {i})"));
            }
            t2.push(format!("(map (push [] {s} {p}) (match . {p}))"));
        }
    }
    let all: Vec<String> = t1.into_iter().chain(t2).collect();
    for (bi, batch) in all.chunks(24).enumerate() {
        if !ctx.mine() {
            continue;
        }
        for cache in ["0", "1", "2"] {
            let mut args: Vec<String> = vec![format!("--regular-expression-cache-size={cache}")];
            for (i, e) in batch.iter().enumerate() {
                args.push(format!("--select={e}=x{i}"));
            }
            // two records: the second evaluation of every call site meets a warm cache
            let case = Case::owned(args, b"1\n2\n".to_vec());
            let obs = ctx.run(&case);
            ctx.nontrivial();
            ctx.guard("regex-calls-nested-under-a-cache");
            ctx.transition(&("regex-nest", bi, cache));
            if obs.res.is_panic() {
                for e in batch {
                    let c1 = Case::owned(vec![format!("--regular-expression-cache-size={cache}"), format!("--select={e}=x")], b"1\n2\n".to_vec());
                    let o1 = ctx.run(&c1);
                    if o1.res.is_panic() {
                        judge(ctx, &c1, &o1, "regex-call", &format!("cache {cache}: {}", e.split(' ').next().unwrap_or("")));
                    }
                }
            } else {
                judge(ctx, &case, &obs, "regex-call", "nested");
            }
        }
    }
    ctx.level_done("vii:regex-functions-nested-to-depth-2-x-cache-sizes-0,1,2");
}

/// objects with many member names of several kinds (plain integers, digits followed by text, text, non-ASCII) in
/// several arrangements, through every function that takes an object
fn part_viii(ctx: &mut Ctx) {
    let key_of = |j: usize| match j % 6 {
        0 => format!("{j}"),
        1 => format!("{j}a"),
        2 => format!("k{j}"),
        3 => format!("{j}.5"),
        4 => format!("{j}-"),
        _ => format!("\u{e9}{j}"),
    };
    let fns = ["(sort_by_keys .)", "(sort_by_values .)", "(keys .)", "(entries .)", "(map_keys . (concat . \"x\"))", "(filter_keys . (number? (parse .)))", "(sort_by_values_by . (- .))", "(stringify .)", "(sort (keys .))", "(sort_by (entries .) .key)"];
    for n in [5usize, 20, 21, 24, 32, 33, 65, 130] {
        for rot in 0..8usize {
            if !ctx.mine() {
                continue;
            }
            let members: Vec<String> = (0..n).map(|i| format!("\"{}\": {}", key_of((i * (2 * rot + 1) + rot * rot) % n.max(1) + if (2 * rot + 1) % n == 0 { i } else { 0 }), (i * 7 + rot) % 11)).collect();
            // duplicates are possible for some (n, rot): the parser keeps the last one, which is as good an object as any
            let input = format!("{{{}}}", members.join(", "));
            let exprs: Vec<String> = fns.iter().map(|s| s.to_string()).collect();
            ctx.guard("object-with-many-kinds-of-member-names");
            for p in ["ignore", "panic"] {
                run_exprs(ctx, &exprs, &input, p, "object-function", "sort_by_keys");
            }
        }
    }
    ctx.level_done("viii:objects-of-5..130-members-with-names-of-several-kinds-x-10-object-functions");
}


/// ix: expressions that come back into the function they are in - a selection text that is parsed and evaluated inside a
/// parsed selection, a macro that refers to itself and ends, every function with a lambda argument inside its own
/// lambda, a regex call in the subject and in the pattern of a regex call - on records that make each of them take
/// several turns. Legal programs all of them: none may panic.
fn part_ix(ctx: &mut Ctx) {
    let js = |t: &str| crate::refmodel::json::to_text(&crate::refmodel::json::V::s(t));
    let mut exprs: Vec<String> = Vec::new();
    // parse_selection inside parse_selection: literal, through the data, inside a lambda, three levels
    let inner = "(len .l)";
    let l1 = format!("(parse_selection {})", js(inner));
    let l2 = format!("(parse_selection {})", js(&l1));
    let l3 = format!("(parse_selection {})", js(&l2));
    exprs.extend([l1.clone(), l2.clone(), l3.clone()]);
    exprs.push(format!("(map .l {})", format!("(parse_selection {})", js("(parse_selection \"(+ . 1)\")"))));
    exprs.push("(parse_selection .e)".into());
    exprs.push("(parse_selection (parse_selection .e2))".into());
    exprs.push(format!("(push [] {l2} {l2} {l1})"));
    exprs.push(format!("(parse_selection {})", js("(map .l (parse_selection \"(parse_selection \\\"(* . 2)\\\")\"))")));
    exprs.push(format!("(sort_by .l {})", js_sel("(- 0 (parse_selection \"(+ . 0)\"))")));
    // macros that refer to themselves and end
    for f in ["+", "\"+\"", "concat", "push", "and", "default"] {
        exprs.push(format!("(define \"rec\" (default ({f} .value (| .next (@ \"rec\"))) .value) (@ \"rec\"))"));
        exprs.push(format!("(define \"rec\" (? (number? .n) (? (> .n 0) ({f} .value (| (put . \"n\" (- .n 1)) @rec)) .value) .nokey) @rec)"));
    }
    // every function that takes a lambda, inside its own lambda, twice
    for f in ["map", "filter", "flat_map", "sort_by", "group_by", "any", "all", "first", "map_values", "filter_values", "map_keys", "fold"] {
        let (src, inner_src) = if f.ends_with("values") || f.ends_with("keys") { (".o", "(put {} \"k\" .)") } else { (".ll", ".") };
        if f == "fold" {
            exprs.push("(fold .ll 0 (+ .so_far (fold .value 0 (+ .so_far .value))))".into());
            exprs.push("(fold .ll [] (push .so_far (fold .value 0 (+ .so_far (fold (push [] .value .value) 0 (+ .so_far .value))))))".into());
        } else {
            exprs.push(format!("({f} {src} ({f} {inner_src} ({f} (push [] . .) .)))"));
            exprs.push(format!("({f} {src} ({f} {inner_src} true))"));
        }
    }
    let input = "{\"l\": [1, 2, 3], \"ll\": [[1, 2], [3], []], \"o\": {\"a\": 1, \"b\": [2]}, \"e\": \"(parse_selection .f)\", \"f\": \"(len .e)\", \"e2\": \"\\\".e\\\"\", \"value\": \"1\", \"n\": 3, \"next\": {\"value\": \"20\", \"next\": {\"value\": \"300\"}}}\n";
    let two = format!("{input}{input}");
    for (ei, e) in exprs.iter().enumerate() {
        if !ctx.mine() {
            continue;
        }
        for pol in POLICIES {
            for cache in ["0", "2"] {
                let args = vec![format!("--on-error={pol}"), format!("--regular-expression-cache-size={cache}"), format!("--select={e}=x"), format!("--filter=(default (null? {e}) true)")];
                let case = Case::owned(args, two.clone().into_bytes());
                let obs = ctx.run(&case);
                ctx.nontrivial();
                ctx.guard("expression-that-comes-back-into-its-own-function");
                ctx.transition(&("re-entrant", ei, pol));
                judge(ctx, &case, &obs, "re-entrant-expression", &e.chars().take(40).collect::<String>());
            }
        }
    }
    ctx.level_done("ix:expressions-that-come-back-into-the-function-they-are-in(parse_selection,self-referring-macros,lambdas-in-their-own-lambda)");
}

fn js_sel(t: &str) -> String {
    t.to_string()
}

fn run(ctx: &mut Ctx) {
    part_ix(ctx);
    part_viii(ctx);
    part_vii(ctx);
    part_iii(ctx);
    part_vi(ctx);
    part_v(ctx);
    part_ii(ctx);
    part_iv(ctx);
    part_i(ctx);
}
