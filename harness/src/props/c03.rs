//! C03 — the pipeline is the documented stage composition in the documented order.

use super::pipe::{self, Outcome};
use super::{Prop, COMMON_ASSUMPTIONS};
use crate::ctx::{Ctx, Tier};
use crate::drive::Case;
use crate::refmodel::expr::p;
use crate::refmodel::json::{self, V};
use crate::refmodel::pipeline::{self, Config, Group, SetVal};

pub fn prop() -> Prop {
    Prop {
        id: "C03",
        level: "model_checking",
        rule: "configurations = set(2) x split(3, one reading a --set variable) x filter(3, one a --set macro) x select(4, one reading a previously selected name) x unique(2) x sort(5: none, 1 key both directions, 2 keys, a selected name) x skip(3) x take(3) x {none, --group-by, --merge, --group-by on a selected name} x only-objects-and-arrays(2) = 51 840 (quick: the 17 280 with --set given and a filter); inputs = all sequences of <=2 (thorough <=3) values over 9 records (ties, items that differ only in where a nested object closes, absent and non-string keys, empty and missing arrays, a scalar, an array, integers that differ only beyond 2^53) and cyclic repetitions to 17 and 40 rows for every 13th configuration; every configuration is also run with its option groups reversed and rotated (relative order of repeated --select/--sort-by kept), and every 211th with all permutations of its option groups; and with each of --regular-expression-cache-size, --on-error=stderr/panic/stdout added at a varying position (nothing may change on a clean input); non-trivial = at least two stages are active and something is printed; distinct by construction; plus, for 10 configurations whose stage expressions read the position of a record (&index, &index-in-file) or not, every sequence of <=4 values over 2 records, an array and 3 scalars with --only-objects-and-arrays against the same sequence without its scalars; every configuration is also run in 7 other documented spellings of its command line, one per second case in rotation and all of them on the empty input (three of them mixing the spellings within one command line; second long names such as --choose/--where/--break-by/--combine/--order-by/--limit, short options, value as a separate word or attached); every sixteenth case with two or more records also with the records given as files, one per file; presence patterns: every sequence of <=3 (thorough <=4) records out of 9 that hold only the first, only the second, both, a third, none of the selected members or null x selections(a,b / a,b,c / b,a / a alone / none) x unique x sort(none, .a, .b DESC, .c+.a) x limits(none, skip 1, take 1, skip 1 take 2) x {none, --merge, --group-by .a}",
        explanation: "stdout rows are compared with the reference pipeline (pure list transformations in the documented order); argument orders are compared byte for byte with the canonical order",
        assumptions: COMMON_ASSUMPTIONS.to_vec(),
        guards: vec!["records-given-as-files", "selections-present-in-different-columns", "limits-whose-sum-exceeds-64-bits", "command-line-respelled", "scalars-removed-before-position-dependent-stages", "irrelevant-option-added", "limiter-before-grouper", "two-sort-keys-with-take", "split-reads-set-variable", "sort-by-selected-name", "all-group-permutations", "scalar-removed-by-only-objects-and-arrays", "unique-removed-a-row", "group-by-selected-name"],
        budget_s: (150, 3000),
        single_worker: false,
        run,
        recheck: None,
    }
}

fn records() -> Vec<V> {
    [
        "{\"k\":\"a\",\"v\":0,\"items\":[1,2]}",
        "{\"k\":\"b\",\"v\":1,\"items\":[2]}",
        "{\"k\":\"a\",\"v\":1,\"items\":[]}",
        "{\"k\":1,\"v\":0}",
        "7",
        "[{\"k\":\"a\"}]",
        "{\"v\":0,\"items\":[3,1]}",
        // integers that differ only beyond 2^53 (never compared with each other by a sort key of the menu)
        "{\"k\":\"b\",\"v\":9007199254740993,\"items\":[9007199254740992,9007199254740993,9007199254740992]}",
        // two different items that differ only in where a nested object closes (same members in the same order of appearance)
        "{\"k\":\"c\",\"v\":2,\"items\":[{\"a\":{\"b\":1}},{\"a\":{},\"b\":1},{\"a\":{\"b\":1}},2]}",
    ]
    .iter()
    .map(|t| json::parse_str(t))
    .collect()
}

/// one configuration from the menu indices
fn build(ix: &[usize]) -> Config {
    let (set, split, filter, select, unique, sort, skip, take, group, ooa) = (ix[0], ix[1], ix[2], ix[3], ix[4], ix[5], ix[6], ix[7], ix[8], ix[9]);
    let mut c = Config::default();
    if set == 1 {
        c.sets.push(("th".into(), SetVal::Var(V::int(2))));
        // the macro has the same name as the variable: the two name spaces are separate
        c.sets.push(("th".into(), SetVal::Macro(p("(= .k \"a\")"))));
    }
    let rec = |f: &str| if split > 0 { format!("^.{f}") } else { format!(".{f}") };
    c.split = match split {
        0 => None,
        1 => Some(p(".items")),
        _ => Some(p("(filter .items (>= . :th))")),
    };
    c.filter = match filter {
        0 => None,
        1 => Some(p(&format!("(!= {} 0)", rec("v")))),
        _ => Some(if split > 0 { p("(| ^ @th)") } else { p("@th") }),
    };
    c.selects = match select {
        0 => vec![],
        1 => vec![(p(&rec("k")), "k".into())],
        2 => vec![(p(&rec("k")), "k".into()), (p("(string? /k/)"), "s".into())],
        _ => vec![(p("."), "row".into()), (p(&rec("v")), "v".into())],
    };
    c.unique = unique == 1;
    c.sorts = match sort {
        0 => vec![],
        1 => vec![(p(&rec("v")), false, "")],
        2 => vec![(p(&rec("v")), true, "DESC")],
        3 => vec![(p(&rec("k")), false, "asc"), (p(&rec("v")), true, "desc")],
        _ => vec![(p("/k/"), true, "DESC")],
    };
    c.skip = skip as u64;
    c.take = match take {
        0 => None,
        t => Some(t as u64),
    };
    c.group = match group {
        0 => None,
        1 => Some(Group::By(p(&rec("k")))),
        2 => Some(Group::Merge),
        _ => Some(Group::By(p("/k/"))),
    };
    c.ooa = ooa == 1;
    c
}

/// option groups: arguments of the same option stay together and in order
fn groups_of(args: &[String]) -> Vec<Vec<String>> {
    let mut g: Vec<(String, Vec<String>)> = Vec::new();
    for a in args {
        let name = a.split('=').next().unwrap_or("").to_string();
        match g.iter_mut().find(|(n, _)| *n == name) {
            Some((_, v)) => v.push(a.clone()),
            None => g.push((name, vec![a.clone()])),
        }
    }
    g.into_iter().map(|(_, v)| v).collect()
}

fn check(ctx: &mut Ctx, cfg: &Config, ix: &[usize], inputs: &[V], orders: bool, all_perms: bool, rot: usize) {
    let case = pipe::case_for(cfg, inputs);
    let sig = pipe::shape(cfg);
    let (obs, out) = pipe::run_rows(ctx, &case, &sig);
    ctx.case_done();
    ctx.trace_validated();
    let got = match out {
        Outcome::Rows(r) => r,
        Outcome::Broken => {
            ctx.outcome("broken");
            return;
        }
    };
    let stages = (ix[1] > 0) as u8 + (ix[2] > 0) as u8 + (ix[3] > 0) as u8 + (ix[4] > 0) as u8 + (ix[5] > 0) as u8 + (ix[6] > 0 || ix[7] > 0) as u8 + (ix[8] > 0) as u8 + (ix[9] > 0) as u8;
    if stages >= 2 && !got.is_empty() {
        ctx.nontrivial();
    }
    if cfg.group.is_some() && (cfg.skip > 0 || cfg.take.is_some()) {
        ctx.guard("limiter-before-grouper");
    }
    if cfg.sorts.len() == 2 && cfg.take.is_some() {
        ctx.guard("two-sort-keys-with-take");
    }
    if ix[1] == 2 && ix[0] == 1 {
        ctx.guard("split-reads-set-variable");
    }
    if ix[5] == 4 && (ix[3] == 1 || ix[3] == 2) && !got.is_empty() {
        ctx.guard("sort-by-selected-name");
    }
    if ix[8] == 3 && (ix[3] == 1 || ix[3] == 2) {
        ctx.guard("group-by-selected-name");
    }
    if cfg.ooa && inputs.iter().any(|v| !matches!(v, V::Obj(_) | V::Arr(_))) {
        ctx.guard("scalar-removed-by-only-objects-and-arrays");
    }
    match pipe::compare_with_model(ctx, cfg, inputs, &case, &got, "output-differs-from-the-documented-stage-composition") {
        Some(true) => ctx.outcome(if got.is_empty() { "ok-nothing-printed" } else if cfg.group.is_some() { "ok-collection" } else { "ok-rows" }),
        Some(false) => ctx.outcome("violation"),
        None => ctx.outcome("not-compared"),
    }
    if cfg.unique {
        let mut c2 = cfg.clone();
        c2.unique = false;
        if let (Ok(a), Ok(b)) = (cfg.ordered_rows(inputs), c2.ordered_rows(inputs)) {
            if a.len() < b.len() {
                ctx.guard("unique-removed-a-row");
            }
        }
    }
    ctx.sample(|| serde_json::json!({"args": case.args, "input": String::from_utf8_lossy(&pipeline::input_text(inputs)), "stdout": obs.out_str()}));
    // the documented spellings of the same command line, one per case in rotation (all of them when `orders`)
    {
        let variants: Vec<usize> = if inputs.is_empty() { (1..=7).collect() } else if rot % 2 == 0 { vec![1 + (rot / 2) % 7] } else { vec![] };
        for variant in variants {
            let a = pipe::respell(&case.args, variant);
            if a == case.args {
                continue;
            }
            let c2 = Case::owned(a, pipeline::input_text(inputs));
            let o2 = ctx.run(&c2);
            ctx.case_done();
            ctx.guard("command-line-respelled");
            if o2.res != obs.res || o2.stdout != obs.stdout || o2.stderr != obs.stderr {
                ctx.violation("output-depends-on-the-spelling-of-the-options", &format!("{sig} spelling#{variant}"), &[c2.clone(), case.clone()], obs.brief(), o2.brief());
            }
        }
    }
    // the same records given as files, one record per file (every sixteenth case with two or more records): where the
    // input comes from changes nothing - in particular not whether the end of the input reaches every stage
    if inputs.len() >= 2 && (rot + inputs.len()) % 16 == 1 {
        let files: Vec<(String, Vec<u8>)> = inputs.iter().enumerate().map(|(i, v)| (format!("r{i}.json"), pipeline::input_text(std::slice::from_ref(v)))).collect();
        // `--merge` takes an optional value: it must not be the word before the file names
        let mut fargs = case.args.clone();
        if fargs.last().map(|a| a == "--merge" || a == "--group-by").unwrap_or(false) {
            fargs.rotate_right(1);
        }
        let fcase = Case { args: fargs, input: crate::drive::Input::Files(files), rplan: Default::default(), wplan: Default::default() };
        let fo = ctx.run(&fcase);
        ctx.case_done();
        ctx.guard("records-given-as-files");
        if fo.res != obs.res || fo.stdout != obs.stdout {
            ctx.violation("output-depends-on-whether-the-input-comes-from-files", &format!("{sig} one record per file"), &[fcase.clone(), case.clone()], obs.brief(), fo.brief());
        }
    }
    if !orders && !all_perms {
        return;
    }
    // options that have nothing to say about a clean input must not change a byte of the result
    if orders {
        for extra in ["--regular-expression-cache-size=2", "--on-error=stderr", "--on-error=panic", "--on-error=stdout"] {
            let mut a = case.args.clone();
            a.insert((crate::ctx::h64(&a) as usize) % (a.len() + 1), extra.to_string());
            let c2 = Case::owned(a, pipeline::input_text(inputs));
            let o2 = ctx.run(&c2);
            ctx.case_done();
            ctx.guard("irrelevant-option-added");
            if o2.res != obs.res || o2.stdout != obs.stdout || o2.stderr != obs.stderr {
                ctx.violation("output-changed-by-an-option-that-does-not-apply", &format!("{sig} + {}", extra.split('=').next().unwrap_or("")), &[c2.clone(), case.clone()], obs.brief(), o2.brief());
            }
        }
    }
    // ... nor may the documented spellings of the same command line: second long names, short options, the value as
    // a separate word or attached to the short option
    // the result does not depend on the order of the options
    let groups = groups_of(&case.args);
    let n = groups.len();
    if n < 2 {
        return;
    }
    let mut variants: Vec<Vec<usize>> = Vec::new();
    variants.push((0..n).rev().collect());
    let r = 1 + (crate::ctx::h64(&case.args) as usize) % (n - 1);
    variants.push((0..n).map(|i| (i + r) % n).collect());
    if all_perms && n <= 6 {
        variants = crate::explore::permutations(n);
        ctx.guard("all-group-permutations");
    }
    for perm in variants {
        let args: Vec<String> = perm.iter().flat_map(|i| groups[*i].clone()).collect();
        if args == case.args {
            continue;
        }
        let c2 = Case::owned(args, pipeline::input_text(inputs));
        let o2 = ctx.run(&c2);
        ctx.case_done();
        ctx.transition(&(perm.clone(), n));
        if o2.res != obs.res || o2.stdout != obs.stdout || o2.stderr != obs.stderr {
            ctx.violation(
                "output-depends-on-the-order-of-the-options",
                &format!("{sig} moved-first:{}", c2.args[0].split('=').next().unwrap_or("")),
                &[c2.clone(), case.clone()],
                obs.brief(),
                o2.brief(),
            );
        }
    }
}

fn run(ctx: &mut Ctx) {
    let recs = records();
    let radix: [usize; 10] = [2, 3, 3, 4, 2, 5, 3, 3, 4, 2];
    let quick = ctx.tier == Tier::Quick;
    let maxlen = ctx.tier.pick(2usize, 3);
    let mut inputs: Vec<Vec<V>> = Vec::new();
    crate::explore::seqs_upto(recs.len(), maxlen, |i| inputs.push(i.iter().map(|j| recs[*j].clone()).collect()));
    let mut long_inputs: Vec<Vec<V>> = Vec::new();
    for total in [17usize, 40] {
        crate::explore::seqs_upto(recs.len(), ctx.tier.pick(2, 3), |i| {
            if !i.is_empty() {
                long_inputs.push((0..total).map(|j| recs[i[j % i.len()]].clone()).collect());
            }
        });
    }
    let mut configs: Vec<Vec<usize>> = Vec::new();
    crate::explore::product(&radix, |ix| configs.push(ix.to_vec()));
    let mut n = 0usize;
    for ix in &configs {
        if quick && (ix[0] != 1 || ix[2] == 0) {
            continue;
        }
        n += 1;
        if !ctx.mine() {
            continue;
        }
        let cfg = build(ix);
        ctx.state(&ix.clone());
        let all_perms = n % 211 == 0;
        for (k, inp) in inputs.iter().enumerate() {
            // argument orders on every configuration, for the inputs of maximal length (and the empty one)
            let orders = inp.len() == maxlen && (k % 3 == 0) || inp.is_empty();
            check(ctx, &cfg, ix, inp, orders, all_perms && inp.len() == 2 && k % 5 == 0, n + k);
        }
        if n % 13 == 0 {
            for inp in &long_inputs {
                check(ctx, &cfg, ix, inp, false, false, n);
            }
        }
        if ctx.time_up() {
            ctx.cap("configurations");
            return;
        }
    }
    ctx.level_done(&format!("{}-configurations-x-all-inputs-of-<={maxlen}-records", n));
    ooa_removes_scalars_before_the_stages(ctx);
    presence_patterns(ctx);
    // limits at the edge of their range (S + T does not fit in 64 bits) in a handful of configurations
    let mut n_edge = 0usize;
    for ix in &configs {
        // set given, no filter restriction: every 97th configuration that has both a skip and a take
        if ix[6] == 0 || ix[7] == 0 {
            continue;
        }
        n_edge += 1;
        if n_edge % 97 != 0 || !ctx.mine() {
            continue;
        }
        for (s, t) in [(1u64, u64::MAX), (u64::MAX, 1u64), (u64::MAX, u64::MAX), (2, u64::MAX - 1)] {
            let mut cfg = build(ix);
            cfg.skip = s;
            cfg.take = Some(t);
            ctx.guard("limits-whose-sum-exceeds-64-bits");
            for inp in inputs.iter().filter(|i| i.len() == 2).step_by(7) {
                check(ctx, &cfg, ix, inp, false, false, 1);
            }
        }
    }
    ctx.level_done("limits-at-the-edge-of-the-64-bit-range");
}

/// Which of several selections has a value changes from row to row: records that hold only the first, only the second,
/// both (same or different values), only a third member, nothing. Equal values then sit in different columns, rows
/// without a sort key arrive before and between rows that have one, and rows without a group key before the first group.
fn presence_patterns(ctx: &mut Ctx) {
    let recs: Vec<V> = ["{\"a\":\"x\"}", "{\"b\":\"x\"}", "{\"a\":\"x\",\"b\":\"x\"}", "{\"a\":\"x\",\"b\":\"y\"}", "{\"c\":\"x\"}", "{}", "{\"a\":\"y\",\"c\":\"x\"}", "{\"a\":null}", "{\"a\":null,\"b\":\"x\"}"].iter().map(|t| json::parse_str(t)).collect();
    let mut inputs: Vec<Vec<V>> = Vec::new();
    crate::explore::seqs_upto(recs.len(), ctx.tier.pick(3, 4), |i| inputs.push(i.iter().map(|j| recs[*j].clone()).collect()));
    let radix = [5usize, 2, 4, 4, 3];
    let mut configs: Vec<Vec<usize>> = Vec::new();
    crate::explore::product(&radix, |ix| configs.push(ix.to_vec()));
    for ix in &configs {
        if !ctx.mine() {
            continue;
        }
        let mut c = Config::default();
        c.selects = match ix[0] {
            0 => vec![(p(".a"), "a".into()), (p(".b"), "b".into())],
            1 => vec![(p(".a"), "a".into()), (p(".b"), "b".into()), (p(".c"), "c".into())],
            2 => vec![(p(".b"), "b".into()), (p(".a"), "a".into())],
            3 => vec![(p(".a"), "a".into())],
            _ => vec![],
        };
        c.unique = ix[1] == 1;
        c.sorts = match ix[2] {
            0 => vec![],
            1 => vec![(p(".a"), false, "")],
            2 => vec![(p(".b"), true, "DESC")],
            _ => vec![(p(".c"), false, "asc"), (p(".a"), true, "desc")],
        };
        (c.skip, c.take) = match ix[3] {
            0 => (0, None),
            1 => (1, None),
            2 => (0, Some(1)),
            _ => (1, Some(2)),
        };
        c.group = match ix[4] {
            0 => None,
            1 => Some(Group::Merge),
            _ => Some(Group::By(p(".a"))),
        };
        let full: Vec<usize> = vec![1, 0, 0, if ix[0] == 4 { 0 } else { ix[0].min(2) + 1 }, ix[1], ix[2].min(1), ix[3].min(1), ix[3] / 2, ix[4], 0];
        for inp in &inputs {
            ctx.guard("selections-present-in-different-columns");
            ctx.transition(&("presence", ix.clone(), inp.len()));
            check(ctx, &c, &full, inp, false, false, 1);
        }
        if ctx.time_up() {
            ctx.cap("presence patterns");
            return;
        }
    }
    ctx.level_done("presence-patterns(9-records-holding-some-of-the-selected-members-or-null,<=3-rows,480-configurations)");
}

/// "after --only-objects-and-arrays has removed top-level scalars": the stages see exactly the sequence that remains,
/// so with the flag the output for a sequence equals the output for the same sequence without its scalars - also for
/// stage expressions that look at the position of a record in the input (&index, &index-in-file), which the
/// reference pipeline does not model.
fn ooa_removes_scalars_before_the_stages(ctx: &mut Ctx) {
    let universe = ["{\"a\": 1}", "[2]", "3", "\"s\"", "null", "{\"a\": 1, \"b\": [true]}"];
    let is_record = |i: usize| universe[i].starts_with('{') || universe[i].starts_with('[');
    let configs: [&[&str]; 10] = [
        &["--select=&index=i", "--select=.=v"],
        &["--filter=(= (% &index 2) 0)"],
        &["--group-by=(stringify &index)"],
        &["--sort-by=&index=DESC"],
        &["--select=(% &index-in-file 2)=p", "--unique"],
        &["--select=&index=i", "--select=&index-in-file=j", "--skip=1", "--take=2"],
        &["--split-by=(push [] . &index)"],
        &["--set=one=1", "--select=(+ &index :one)=n", "--sort-by=(- 0 /n/)"],
        &["--select=.a=a", "--sort-by=.a", "--merge"],
        &["--unique", "--take=2"],
    ];
    let mut seqs: Vec<Vec<usize>> = Vec::new();
    crate::explore::seqs_upto(universe.len(), 4, |s| seqs.push(s.to_vec()));
    for (ci, cfg) in configs.iter().enumerate() {
        for s in &seqs {
            if !s.iter().any(|i| !is_record(*i)) || !ctx.mine() {
                continue;
            }
            let text = |idx: &[usize]| -> Vec<u8> { idx.iter().map(|i| format!("{}\n", universe[*i])).collect::<String>().into_bytes() };
            let kept: Vec<usize> = s.iter().cloned().filter(|i| is_record(*i)).collect();
            let mut args: Vec<String> = cfg.iter().map(|a| a.to_string()).collect();
            args.insert(ci % (args.len() + 1), "--only-objects-and-arrays".into());
            let with_scalars = Case::owned(args.clone(), text(s));
            let without = Case::owned(args, text(&kept));
            let a = ctx.run(&with_scalars);
            let b = ctx.run(&without);
            ctx.case_done();
            ctx.trace_validated();
            ctx.guard("scalars-removed-before-position-dependent-stages");
            if !kept.is_empty() && kept.first() != s.first() {
                ctx.nontrivial();
            }
            ctx.transition(&("ooa-removal", ci, kept.len(), s.len()));
            if a.res != b.res || a.stdout != b.stdout {
                ctx.outcome("differs");
                ctx.violation("removed-scalars-still-visible-to-the-stages", &format!("ooa config#{ci} {:?}", cfg), &[with_scalars.clone(), without.clone()], b.brief(), a.brief());
            } else {
                ctx.outcome("agrees");
            }
        }
    }
    ctx.level_done("only-objects-and-arrays:sequence-with-scalars-vs-the-same-sequence-without-them(10-configurations,<=4-values)");
}
