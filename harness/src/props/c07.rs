//! C07 — sorting: one total order, permutation, stable, multi-key, direction-aware.

use super::pipe::{self, Outcome};
use super::{Prop, COMMON_ASSUMPTIONS};
use crate::ctx::{Ctx, Tier};
use crate::drive::Case;
use crate::refmodel::eval::{self, Env};
use crate::refmodel::expr::{self, p, E};
use crate::refmodel::json::{self, V};
use crate::refmodel::pipeline::Config;
use std::cmp::Ordering;

pub fn prop() -> Prop {
    Prop {
        id: "C07",
        level: "model_checking",
        rule: "(a) the full table of < <= > >= = != over a 103-text universe (incl. non-integral numbers one unit in the last place apart) (with -0, -0.0 next to 0, 0.0, and objects that differ only in member order, for which only the order axioms are required) of all types (equal-by-value spellings, numbers |n|<2^53 or non-integral) through the real functions, then totality, antisymmetry w.r.t. =, transitivity over all triples, congruence of =, agreement with the documented order; (b) --sort-by on all streams of <=5 (thorough <=7) rows {k,v,id} over the keys {\"b\",\"a\",2,null,absent} x 31 key/direction configurations (three keys in all eight patterns of directions; three repeat a selection with another direction; four use keys that are calls whose option texts share their first word or differ in one blank) (1..3 keys; omitted/ASC/DESC/asc/Desc; `=` and blank separators), all streams of <=4 (thorough <=5) rows over 16 keys of all types (0 and -0 among them) in both directions, and long streams with >11 distinct keys and >8 rows per key; (c) sort, sort_unique, sort_by, sort_by_keys, sort_by_values, sort_by_values_by on all lists/objects of <=5 (thorough <=6) elements over an 8-value universe, and on lists/objects of 20..100 elements with distinguishable ties; non-trivial = the input holds a tie between distinguishable rows, an absent key or two types; distinct by construction",
        explanation: "rows carry ids, so permutation, stability and multi-key order are observable; the output is compared with the reference pipeline (stable lexicographic insertion sort under the documented order) and, independently, checked to be a permutation of the sortable rows in which tied neighbours keep arrival order",
        assumptions: COMMON_ASSUMPTIONS.to_vec(),
        guards: vec!["sort-keys-that-read-enclosing-inputs", "member-names-beyond-ascii-letters", "command-line-respelled", "tie-between-distinguishable-rows", "absent-key-dropped", "mixed-types", "three-keys", "desc", "more-than-11-distinct-keys", "more-than-8-rows-per-key", "order-table-complete", "function-sorts-with-ties"],
        budget_s: (100, 2400),
        single_worker: false,
        run,
        recheck: None,
    }
}

const W: [&str; 103] = [
    "0.3", "0.30000000000000004", "2.675", "2.6750000000000003",
    "\"null\"", "\"true\"", "\"[1]\"", "{\"a\":1,\"ab\":2}", "{\"\":0,\"a\":1}", "[[],{}]",
    "{\"b\":2,\"a\":1}", "{\"a\":5,\"b\":0}", "[{\"b\":2,\"a\":1}]", "{\"b\":0,\"a\":5}", "-0", "-0.0", "[-0]", "null", "false", "true", "\"\"", "\"a\"", "\"\\u0061\"", "\"A\"", "\"ab\"", "\"b\"", "\"é\"", "\"z\"", "\"😃\"", "\"\\uffff\"", "\"1\"", "\"10\"", "\"9\"", "0", "0.0", "-1", "-1.0",
    "1", "1.0", "1e0", "10e-1", "1.5", "15e-1", "2", "-0.5", "100", "1e2", "9007199254740991", "-9007199254740991", "1e300", "-1e300", "5e-324", "0.1", "1e-1", "3", "2.5", "10",
    "9", "[]", "[1]", "[1.0]", "[1,2]", "[1,2,3]", "[2]", "[[]]", "[[1]]", "[null]", "[\"a\"]", "[1,\"a\"]", "[true]", "[{}]", "[1.5]", "[[1],[2]]", "[[1],[1]]", "[\"a\",\"b\"]", "[\"b\"]", "[false]",
    "[null,null]", "[10]", "[9]", "[1,[]]", "[1,null]", "{}", "{\"a\":1}", "{\"a\":1.0}", "{\"a\":2}", "{\"b\":1}", "{\"a\":1,\"b\":2}", "{\"a\":[1]}", "{\"a\":null}", "{\"a\":{}}", "{\"\":0}", "[{\"a\":1}]", "[{\"a\":1.0}]", "[{\"a\":2}]", "1.0e0", "0.5",
    "5e-1", "-2", "\"aa\"", "\"a b\"", "[\"\"]", "[0]",
];

struct Table {
    lt: Vec<Vec<bool>>,
    eq: Vec<Vec<bool>>,
}

fn order_table(ctx: &mut Ctx) -> Option<Table> {
    let n = W.len();
    let vals: Vec<V> = W.iter().map(|t| json::parse_str(t)).collect();
    let mut lt = vec![vec![false; n]; n];
    let mut eq = vec![vec![false; n]; n];
    let mut lem = vec![vec![false; n]; n];
    // two values that are equal as JSON values but list their members in a different order: `=` calls them equal,
    // the order is free to separate them (the documentation fixes nothing among objects) - but it must stay an order
    let permuted = |a: &V, b: &V| eval::veq(a, b) && a != b;
    let names = ["<", "<=", ">", ">=", "=", "!="];
    let args: Vec<String> = names.iter().enumerate().map(|(i, f)| format!("--select=({f} #0 #1)=f{i}")).collect();
    for i in 0..n {
        for j in 0..n {
            let case = Case::owned(args.clone(), format!("[{},{}]", W[i], W[j]).into_bytes());
            let obs = ctx.run(&case);
            ctx.case_done();
            let row = json::parse_rows(&obs.stdout, b"\n").ok().and_then(|r| r.into_iter().next());
            let mut f = [false; 6];
            let mut ok = obs.res.is_ok() && row.is_some();
            if let Some(r) = &row {
                for k in 0..6 {
                    match r.get(&format!("f{k}")) {
                        Some(V::Bool(x)) => f[k] = *x,
                        _ => ok = false,
                    }
                }
            }
            let sig = format!("{} vs {}", vals[i].type_name(), vals[j].type_name());
            if !ok {
                ctx.violation("comparison-not-boolean", &sig, &[case.clone()], "six booleans".into(), obs.brief());
                return None;
            }
            let (l, le, g, ge, e, ne) = (f[0], f[1], f[2], f[3], f[4], f[5]);
            // the six functions agree with one another: exactly one of <, =, > and the derived ones follow
            let perm = permuted(&vals[i], &vals[j]);
            let consistent = if perm { l != ge && g != le && ne == !e } else { (l as u8 + e as u8 + g as u8 == 1) && le == (l || e) && ge == (g || e) && ne == !e };
            if !consistent {
                ctx.violation(
                    "comparison-functions-disagree-with-one-another",
                    &sig,
                    &[case.clone()],
                    "exactly one of < = > ; <= is (< or =) ; >= is (> or =) ; != is not =".into(),
                    format!("{} {}: <:{l} <=:{le} >:{g} >=:{ge} =:{e} !=:{ne}", W[i], W[j]),
                );
            }
            // agreement with the documented order where it fixes the answer
            if let Some(o) = eval::vcmp(&vals[i], &vals[j]).filter(|_| !perm && !contains_permuted_pair(&vals[i], &vals[j])) {
                if l != (o == Ordering::Less) || g != (o == Ordering::Greater) {
                    ctx.violation(
                        "comparison-differs-from-the-documented-order",
                        &sig,
                        &[case.clone()],
                        format!("{} {:?} {}", W[i], o, W[j]),
                        format!("<:{l} >:{g} =:{e}"),
                    );
                }
            }
            if e != eval::veq(&vals[i], &vals[j]) {
                ctx.violation("eq-differs-from-reference-equality", &sig, &[case.clone()], format!("{}", !e), format!("(= {} {}) is {e}", W[i], W[j]));
            }
            lt[i][j] = l;
            eq[i][j] = e && !perm && !contains_permuted_pair(&vals[i], &vals[j]);
            lem[i][j] = le;
            ctx.transition(&(vals[i].type_rank(), vals[j].type_rank(), l, e));
        }
    }
    // axioms over all pairs and triples
    let le = |a: usize, b: usize| lem[a][b];
    for a in 0..n {
        for b in 0..n {
            if !le(a, b) && !le(b, a) {
                ctx.violation("order-not-total-or-not-antisymmetric", &format!("{} vs {}", vals[a].type_name(), vals[b].type_name()), &[], "a<=b or b<=a".into(), format!("{} / {}", W[a], W[b]));
            }
            if lt[a][b] == lt[b][a] && !(eq[a][b]) && !(le(a, b) && le(b, a)) || (eq[a][b] != eq[b][a]) || (lt[a][b] && eq[a][b]) {
                if !(lt[a][b] != lt[b][a] || eq[a][b]) || eq[a][b] != eq[b][a] {
                    ctx.violation("order-not-total-or-not-antisymmetric", &format!("{} vs {}", vals[a].type_name(), vals[b].type_name()), &[], "exactly one of a<b, a=b, b<a".into(), format!("{} / {}", W[a], W[b]));
                }
            }
            for c in 0..n {
                if le(a, b) && le(b, c) && !le(a, c) {
                    ctx.violation("order-not-transitive", &format!("{} {} {}", vals[a].type_name(), vals[b].type_name(), vals[c].type_name()), &[], "a<=b and b<=c imply a<=c".into(), format!("{} <= {} <= {} but not {} <= {}", W[a], W[b], W[c], W[a], W[c]));
                }
                if eq[a][b] && lt[a][c] != lt[b][c] {
                    ctx.violation("equal-values-order-differently", &format!("{} vs {}", vals[a].type_name(), vals[c].type_name()), &[], "a=b implies (a<c) = (b<c)".into(), format!("{} = {} but they compare differently with {}", W[a], W[b], W[c]));
                }
            }
        }
    }
    ctx.guard("order-table-complete");
    Some(Table { lt, eq })
}

/// do the two values hold, at the same position, a pair of objects that differ only in member order?
fn contains_permuted_pair(a: &V, b: &V) -> bool {
    match (a, b) {
        (V::Arr(x), V::Arr(y)) => x.len() == y.len() && eval::veq(a, b) && a != b || x.iter().zip(y.iter()).any(|(p, q)| contains_permuted_pair(p, q)),
        (V::Obj(_), V::Obj(_)) => eval::veq(a, b) && a != b,
        _ => false,
    }
}

struct SortCfg {
    name: &'static str,
    /// (key expression, descending, text after the expression on the command line)
    keys: Vec<(&'static str, bool, &'static str)>,
}

fn sort_cfgs() -> Vec<SortCfg> {
    let c = |name: &'static str, keys: Vec<(&'static str, bool, &'static str)>| SortCfg { name, keys };
    vec![
        c("k", vec![(".k", false, "")]),
        c("k=ASC", vec![(".k", false, "=ASC")]),
        c("k=DESC", vec![(".k", true, "=DESC")]),
        c("k=asc", vec![(".k", false, "=asc")]),
        c("k=Desc", vec![(".k", true, "=Desc")]),
        c("k DESC", vec![(".k", true, " DESC")]),
        c("k asc", vec![(".k", false, " asc")]),
        c("v,k", vec![(".v", false, ""), (".k", false, "")]),
        c("vD,k", vec![(".v", true, "=DESC"), (".k", false, "")]),
        c("v,kD", vec![(".v", false, ""), (".k", true, "=DESC")]),
        c("vD,kD", vec![(".v", true, "=DESC"), (".k", true, "=desc")]),
        c("k,v", vec![(".k", false, ""), (".v", false, "=ASC")]),
        c("kD,v", vec![(".k", true, "=DESC"), (".v", false, "")]),
        c("k,vD", vec![(".k", false, ""), (".v", true, " DESC")]),
        c("v,k,idD", vec![(".v", false, ""), (".k", false, ""), (".id", true, "=DESC")]),
        c("kD,vD,idD", vec![(".k", true, "=DESC"), (".v", true, "=DESC"), (".id", true, "=DESC")]),
        c("len-k", vec![("(len .k)", false, "")]),
        c("kD,k", vec![(".k", true, "=DESC"), (".k", false, "")]),
        c("k,v,kD", vec![(".k", false, ""), (".v", false, ""), (".k", true, "=DESC")]),
        c("vD,k,v", vec![(".v", true, "=DESC"), (".k", false, ""), (".v", false, "=ASC")]),
        // keys that are calls: the option texts share their first word, their first argument, or differ in one blank
        c("get-v,get-k", vec![("(.get \"v\")", false, ""), ("(.get \"k\")", false, "")]),
        c("get-v,get-kD", vec![("(get . \"v\")", false, ""), ("(get . \"k\")", true, "=DESC")]),
        c("vD,v+0", vec![(".v", true, "=DESC"), ("(+ .v 0)", false, "")]),
        c("len-k,k", vec![("(len  .k)", false, ""), (".k", false, ""), ("(len .k)", true, "=DESC")]),
        // three keys in every pattern of directions (v ties often, k sometimes, id never): which key counts more shows
        // only when neighbours differ in direction
        c("v,k,id", vec![(".v", false, ""), (".k", false, ""), (".id", false, "")]),
        c("v,kD,id", vec![(".v", false, ""), (".k", true, "=DESC"), (".id", false, "")]),
        c("v,kD,idD", vec![(".v", false, ""), (".k", true, "=DESC"), (".id", true, "=DESC")]),
        c("vD,k,id", vec![(".v", true, "=DESC"), (".k", false, ""), (".id", false, "")]),
        c("vD,k,idD", vec![(".v", true, "=DESC"), (".k", false, ""), (".id", true, "=DESC")]),
        c("vD,kD,id", vec![(".v", true, "=DESC"), (".k", true, "=DESC"), (".id", false, "")]),
        c("vD,kD,idD", vec![(".v", true, "=DESC"), (".k", true, "=DESC"), (".id", true, "=DESC")]),
    ]
}

fn cfg_of(sc: &SortCfg) -> (Config, Vec<String>) {
    let mut cfg = Config::default();
    let mut args = Vec::new();
    for (e, d, tail) in &sc.keys {
        cfg.sorts.push((p(e), *d, ""));
        args.push(format!("--sort-by={e}{tail}"));
    }
    (cfg, args)
}

fn key_tuple(sc: &SortCfg, row: &V) -> Result<Option<Vec<V>>, eval::Taint> {
    let mut ks = Vec::new();
    for (e, _, _) in &sc.keys {
        match eval::eval(&p(e), &Env::of(row.clone()))? {
            Some(k) => ks.push(k),
            None => return Ok(None),
        }
    }
    Ok(Some(ks))
}

fn check_sort(ctx: &mut Ctx, sc: &SortCfg, rows: &[V]) {
    let (cfg, args) = cfg_of(sc);
    let case = Case::owned(args, crate::refmodel::pipeline::input_text(rows));
    let (_, out) = pipe::run_rows_respelled(ctx, &case, sc.name);
    ctx.case_done();
    ctx.trace_validated();
    let got = match out {
        Outcome::Rows(r) => r,
        Outcome::Broken => return,
    };
    // bookkeeping
    let mut tuples: Vec<Option<Vec<V>>> = Vec::new();
    for r in rows {
        match key_tuple(sc, r) {
            Ok(t) => tuples.push(t),
            Err(_) => return,
        }
    }
    let mut nontrivial = false;
    if tuples.iter().any(|t| t.is_none()) {
        ctx.guard("absent-key-dropped");
        nontrivial = true;
    }
    let present: Vec<&Vec<V>> = tuples.iter().flatten().collect();
    for (i, a) in present.iter().enumerate() {
        for b2 in present.iter().skip(i + 1) {
            if a.iter().zip(b2.iter()).all(|(x, y)| eval::veq(x, y)) {
                ctx.guard("tie-between-distinguishable-rows");
                nontrivial = true;
            }
            if a[0].type_name() != b2[0].type_name() {
                ctx.guard("mixed-types");
                nontrivial = true;
            }
        }
    }
    if sc.keys.len() == 3 {
        ctx.guard("three-keys");
    }
    if sc.keys.iter().any(|k| k.1) {
        ctx.guard("desc");
    }
    if nontrivial {
        ctx.nontrivial();
    }
    ctx.state(&(sc.name, pipe::texts(&got)));
    // (1) reference pipeline
    let ok_model = pipe::compare_with_model(ctx, &cfg, rows, &case, &got, "sorted-output-differs-from-reference");
    // (2) independent structural checks: permutation of the sortable rows, ties keep arrival order
    let mut sortable: Vec<String> = rows.iter().zip(tuples.iter()).filter(|(_, t)| t.is_some()).map(|(r, _)| json::to_text(r)).collect();
    let mut printed: Vec<String> = got.iter().map(json::to_text).collect();
    let ids: Vec<i128> = got.iter().filter_map(|r| match r.get("id") { Some(V::Num(json::Num::Int(i))) => Some(*i), _ => None }).collect();
    sortable.sort();
    printed.sort();
    if sortable != printed {
        ctx.violation("not-a-permutation-of-the-sortable-rows", sc.name, &[case.clone()], format!("{sortable:?}"), format!("{printed:?}"));
    } else {
        for w in 0..got.len().saturating_sub(1) {
            let (a, b2) = (key_tuple(sc, &got[w]), key_tuple(sc, &got[w + 1]));
            if let (Ok(Some(a)), Ok(Some(b2))) = (a, b2) {
                if a.iter().zip(b2.iter()).all(|(x, y)| eval::veq(x, y)) && ids.len() == got.len() && ids[w] > ids[w + 1] {
                    ctx.violation("tied-rows-not-in-arrival-order", sc.name, &[case.clone()], "ids increasing within a tie".into(), pipe::texts(&got));
                }
            }
        }
    }
    ctx.outcome(if ok_model == Some(false) { "violation" } else if ok_model.is_none() { "not-compared" } else if got.len() < rows.len() { "ok-rows-dropped" } else { "ok" });
    ctx.sample(|| serde_json::json!({"args": case.args, "rows": pipe::texts(rows), "sorted": pipe::texts(&got)}));
}

/// (c) the sorting functions on every list / object over a small universe
fn check_function(ctx: &mut Ctx, text: &str, input: &V) {
    let e: E = p(text);
    // raw UTF-8 output: the \\u spelling of characters outside the BMP is C02's subject (a known finding there)
    let case = Case::owned(vec!["--utf8-strings".to_string(), format!("--select={}=x", expr::show(&e))], (expr::const_text(input) + "\n").into_bytes());
    let obs = ctx.run(&case);
    ctx.case_done();
    ctx.trace_validated();
    let fname = text.split(|c: char| c == ' ' || c == ')').next().unwrap_or("").trim_start_matches('(');
    let got = match json::parse_rows(&obs.stdout, b"\n") {
        Ok(r) if r.len() == 1 && obs.res.is_ok() => r[0].get("x").cloned(),
        _ => {
            ctx.violation("run-failed", fname, &[case.clone()], "one row".into(), obs.brief());
            return;
        }
    };
    match eval::eval(&e, &Env::of(input.clone())) {
        Err(_) => ctx.outcome("not-compared"),
        Ok(m) => {
            if !eval::agrees_opt(&m, &got, false) {
                ctx.outcome("violation");
                ctx.violation(
                    "sorting-function-differs-from-reference",
                    &format!("{fname} on {}", input.type_name()),
                    &[case.clone()],
                    eval::show_opt(&m),
                    eval::show_opt(&got),
                );
            } else {
                ctx.outcome("ok-function");
            }
        }
    }
}

fn run(ctx: &mut Ctx) {
    // (a) order table — one worker does it (14k runs), the others go straight to (b)
    if ctx.slice == 0 {
        let t = order_table(ctx);
        if let Some(t) = &t {
            ctx.note("order-table", format!("{} x {} pairs, {} strict, {} equal", W.len(), W.len(), t.lt.iter().flatten().filter(|x| **x).count(), t.eq.iter().flatten().filter(|x| **x).count()));
        }
    } else {
        ctx.guard_n("order-table-complete", 0);
    }
    ctx.level_done("a:order-table-and-axioms");
    // (b) --sort-by
    let keys5: Vec<Option<V>> = vec![Some(V::s("b")), Some(V::s("a")), Some(V::int(2)), Some(V::Null), None];
    let cfgs = sort_cfgs();
    let maxlen = ctx.tier.pick(5usize, 7);
    for len in 0..=maxlen {
        let mut todo: Vec<Vec<usize>> = Vec::new();
        crate::explore::seqs_exact(keys5.len(), len, |i| todo.push(i.to_vec()));
        for idx in todo {
            if !ctx.mine() {
                continue;
            }
            let rows = pipe::rows_from(&keys5, &idx);
            for sc in &cfgs {
                check_sort(ctx, sc, &rows);
            }
            if ctx.time_up() {
                ctx.cap(&format!("b: streams of length {len}"));
                return;
            }
        }
        ctx.level_done(&format!("b:all-streams-of-{len}-rows-x-{}-key-configurations", cfgs.len()));
    }
    let keys14: Vec<Option<V>> =
        ["null", "false", "true", "\"a\"", "\"B\"", "\"é\"", "-1", "1.5", "2", "{}", "[1]", "[1,0]", "[]", "0", "-0"].iter().map(|t| Some(json::parse_str(t))).chain(std::iter::once(None)).collect();
    let wide = ctx.tier.pick(4usize, 5);
    for len in 1..=wide {
        let mut todo: Vec<Vec<usize>> = Vec::new();
        crate::explore::seqs_exact(keys14.len(), len, |i| todo.push(i.to_vec()));
        for idx in todo {
            if !ctx.mine() {
                continue;
            }
            let rows = pipe::rows_from(&keys14, &idx);
            check_sort(ctx, &cfgs[0], &rows);
            check_sort(ctx, &cfgs[2], &rows);
            if ctx.time_up() {
                ctx.cap(&format!("b: wide streams of length {len}"));
                return;
            }
        }
        ctx.level_done(&format!("b:all-streams-of-{len}-rows-over-16-keys-of-all-types"));
    }
    // long families
    for (nkeys, total) in [(13usize, 40usize), (3, 40), (2, 30), (13, 13), (14, 57)] {
        for rot in 0..4 {
            if !ctx.mine() {
                continue;
            }
            let idx: Vec<usize> = (0..total).map(|i| (i * 5 + rot * 3 + (i / 7)) % nkeys).collect();
            let rows = pipe::rows_from(&keys14, &idx);
            if nkeys > 11 {
                ctx.guard("more-than-11-distinct-keys");
            }
            if total / nkeys > 8 {
                ctx.guard("more-than-8-rows-per-key");
            }
            for sc in &cfgs {
                check_sort(ctx, sc, &rows);
            }
        }
    }
    ctx.level_done("b:long-families");
    // (c) functions
    let u8v: Vec<V> = ["1", "\"a\"", "null", "2", "[1]", "1.5", "\"b\"", "true"].iter().map(|t| json::parse_str(t)).collect();
    let flen = ctx.tier.pick(5usize, 6);
    let list_fns = ["(sort .)", "(sort_unique .)", "(sort_by . (? (number? .) \"n\" (? (string? .) \"s\" .nokey)))", "(order .)", "(sort_by . (len .))"];
    let obj_fns = ["(sort_by_keys .)", "(sort_by_values .)", "(sort_by_values_by . (? (number? .) 0 (? (string? .) 1 2)))", "(order_by_values .)"];
    for len in 0..=flen {
        let mut todo: Vec<Vec<usize>> = Vec::new();
        crate::explore::seqs_exact(u8v.len(), len, |i| todo.push(i.to_vec()));
        for idx in todo {
            if !ctx.mine() {
                continue;
            }
            let list = V::Arr(idx.iter().map(|i| u8v[*i].clone()).collect());
            let mut seen = std::collections::HashSet::new();
            if idx.iter().any(|i| !seen.insert(*i)) {
                ctx.guard("function-sorts-with-ties");
                ctx.nontrivial();
            }
            for f in list_fns {
                check_function(ctx, f, &list);
            }
            // objects: member names in a scrambled order, values from the universe
            let names = ["m", "c", "x", "a", "q", "b", "z"];
            let obj = V::Obj(idx.iter().enumerate().map(|(j, i)| (names[j].to_string(), u8v[*i].clone())).collect());
            for f in obj_fns {
                check_function(ctx, f, &obj);
            }
            if ctx.time_up() {
                ctx.cap(&format!("c: lists of length {len}"));
                return;
            }
        }
        ctx.level_done(&format!("c:functions-on-all-lists-and-objects-of-{len}"));
    }
    // member names: every arrangement of <= 3 distinct names out of 14 (the empty name, letters in both cases, names that
    // look like numbers, non-ASCII names on both sides of the surrogate range and beyond the BMP) through sort_by_keys,
    // and the same strings as values through sort / sort_by_values (strings are ordered by code point)
    {
        let names = ["", "a", "B", "b", "A", "10", "9", "1a", "\u{e9}", "\u{ff21}", "\u{1f600}", "\u{e000}", "a b", "\u{d7ff}"];
        let mut todo: Vec<Vec<usize>> = Vec::new();
        crate::explore::seqs_upto(names.len(), 3, |i| {
            if (0..i.len()).all(|a| (0..a).all(|b| i[a] != i[b])) && i.len() >= 2 {
                todo.push(i.to_vec());
            }
        });
        for idx in todo {
            if !ctx.mine() {
                continue;
            }
            ctx.guard("member-names-beyond-ascii-letters");
            ctx.nontrivial();
            let obj = V::Obj(idx.iter().enumerate().map(|(j, i)| (names[*i].to_string(), V::int(j as i128))).collect());
            check_function(ctx, "(sort_by_keys .)", &obj);
            let list = V::Arr(idx.iter().map(|i| V::s(names[*i])).collect());
            check_function(ctx, "(sort .)", &list);
            let vals = V::Obj(idx.iter().enumerate().map(|(j, i)| (format!("m{j}"), V::s(names[*i]))).collect());
            check_function(ctx, "(sort_by_values .)", &vals);
        }
        ctx.level_done("c:member-names-and-strings-of-14-kinds(arrangements-of-2..3)");
    }
    // keys that read an enclosing input (a weight table, a sign) through ^ / ^^: every arrangement of 2..4 items
    {
        let items = ["a", "b", "c", "d"];
        let mut todo: Vec<Vec<usize>> = Vec::new();
        crate::explore::seqs_upto(items.len(), 4, |i| {
            if i.len() >= 2 && (0..i.len()).all(|a| (0..a).all(|b| i[a] != i[b])) {
                todo.push(i.to_vec());
            }
        });
        for idx in todo {
            if !ctx.mine() {
                continue;
            }
            ctx.guard("sort-keys-that-read-enclosing-inputs");
            ctx.nontrivial();
            let names = V::Arr(idx.iter().map(|i| V::s(items[*i])).collect());
            let nums = V::Arr(idx.iter().map(|i| V::int(*i as i128 + 1)).collect());
            let input = V::Obj(vec![
                ("names".into(), names.clone()),
                ("nums".into(), nums.clone()),
                ("sign".into(), V::int(-1)),
                ("w".into(), json::parse_str("{\"a\": 3, \"b\": 1, \"c\": 4, \"d\": 2}")),
                ("groups".into(), V::Arr(vec![names.clone(), V::Arr(vec![V::s("d"), V::s("a")])])),
            ]);
            for f in ["(sort_by .names (get ^.w .))", "(sort_by .nums (* . ^.sign))", "(map .groups (sort_by . (get ^^.w .)))", "(order_by .names (- 0 (get ^.w .)))", "(sort_by .names (get ^.w ^.names#0))"] {
                check_function(ctx, f, &input);
            }
        }
        ctx.level_done("c:sort-keys-that-read-enclosing-inputs(arrangements-of-2..4)");
    }
    // long lists / objects with distinguishable ties (library sorts switch algorithm with the length)
    for n in [20usize, 21, 32, 33, 40, 57, 100] {
        for rot in 0..ctx.tier.pick(4usize, 12) {
            if !ctx.mine() {
                continue;
            }
            let ks: Vec<Option<V>> = ["null", "false", "\"a\"", "1", "1.5"].iter().map(|t| Some(json::parse_str(t))).chain(std::iter::once(None)).collect();
            let idx: Vec<usize> = (0..n).map(|i| (7 * i + 3 + rot + (i / (rot + 2))) % if rot % 2 == 0 { 5 } else { 6 }).collect();
            let list = V::Arr(pipe::rows_from(&ks, &idx));
            ctx.guard("function-sorts-with-ties");
            ctx.nontrivial();
            for f in ["(sort_by . .k)", "(order_by . (get . \"k\"))", "(sort_by . .v)"] {
                check_function(ctx, f, &list);
            }
            let obj = V::Obj(pipe::rows_from(&ks, &idx).into_iter().enumerate().map(|(i, r)| (format!("m{}", (i * 37) % 101), r)).collect());
            for f in ["(sort_by_values_by . .k)", "(sort_by_values_by . .v)", "(sort_by_keys .)"] {
                if f == "(sort_by_values_by . .k)" && idx.iter().any(|i| *i == 5) {
                    continue; // absent keys: the documentation of sort_by_values_by says nothing
                }
                check_function(ctx, f, &obj);
            }
            let vals = V::Obj(idx.iter().enumerate().map(|(i, k)| (format!("m{}", (i * 37) % 101), ks[*k % 5].clone().unwrap())).collect());
            check_function(ctx, "(sort_by_values .)", &vals);
        }
    }
    ctx.level_done("c:long-lists-and-objects-with-ties(20..100)");
    let _ = Tier::Quick;
}
