//! Property registry: alphabet + bounds + oracle per property.

use crate::ctx::Ctx;
use crate::drive::Case;

pub mod c01;
pub mod c02;
pub mod c03;
pub mod c04;
pub mod c05;
pub mod c06;
pub mod c07;
pub mod c08;
pub mod c09;
pub mod c10;
pub mod c11;
pub mod c12;
pub mod c13;
pub mod pipe;
pub mod c14;
pub mod c15;
pub mod c16;
pub mod c17;
pub mod c18;
pub mod c19;
pub mod c20;

pub struct Prop {
    pub id: &'static str,
    pub level: &'static str,
    pub rule: &'static str,
    pub explanation: &'static str,
    pub assumptions: Vec<&'static str>,
    /// facts the run must have witnessed at least once (vacuity guards)
    pub guards: Vec<&'static str>,
    /// per-worker wall-clock safety net (quick, thorough), seconds
    pub budget_s: (u64, u64),
    pub single_worker: bool,
    pub run: fn(&mut Ctx),
    /// re-evaluate the oracle on recorded cases (for `jv replay`): true = still violated
    pub recheck: Option<fn(&[Case], &str) -> bool>,
}

pub const COMMON_ASSUMPTIONS: [&str; 4] = [
    "rustc/std (str::parse::<f64>, f64 Display, char) are correct",
    "clap splits --opt=value arguments as documented",
    "the reference models in /verif/harness/src/refmodel are a faithful reading of RFC 8259 / the jawk documentation (cross-checked by unit tests and by the seeded-mutant corpus)",
    "nothing is claimed beyond the stated alphabets and bounds",
];

pub fn registry() -> Vec<Prop> {
    vec![c01::prop(), c02::prop(), c03::prop(), c04::prop(), c05::prop(), c06::prop(), c07::prop(), c08::prop(), c09::prop(), c10::prop(), c11::prop(), c12::prop(), c13::prop(), c14::prop(), c15::prop(), c16::prop(), c17::prop(), c18::prop(), c19::prop(), c20::prop()]
}
