//! C12 — bindings are lexical and transparent; pipes and later selects keep their inputs.

use super::{Prop, COMMON_ASSUMPTIONS};
use crate::ctx::{Ctx, Tier};
use crate::drive::Case;
use crate::refmodel::eval::{self, Env};
use crate::refmodel::expr::{self, p, E};
use crate::refmodel::json::{self, V};

pub fn prop() -> Prop {
    Prop {
        id: "C12",
        level: "model_checking",
        rule: "observer bodies H (15: the bound name next to ., ^., ^^., ^^^., another variable, another macro, a selected name) x enclosing contexts X (12: top level, map, filter, fold, sort_by, map_values, pipe stage, pipe-then-map, flat_map, pipes with a stage that returns its input unchanged) x binding forms F (27: a macro whose body binds its own name again; a macro whose body is a pipe and is used as a stage of another pipe; set, define, a macro whose body names another macro or variable that is bound later, earlier or re-bound at the place of use, --set variable, --set macro, nested both ways, shadowing an inner/outer/--set binding, unused names, a macro whose body reads a variable bound outside/inside, a macro reading ^) x placement (binding outside X / inside the functional argument) x bound values (4) x position 1..4 among --select options x with/without --split-by x 2 inputs; plus the same expression repeated in four --select positions; plus 3..130 variables and macros in scope at once (nested set/define, or --set given that many times); 10..1100 expansions of one macro in one record, most yielding nothing; shadowing where the inner and the outer value are numerically close (2^64-1 / 2^64, -2^63 / -2^63-1, 2^53+1 / 2^53, 0 / -0.0); bindings made anew for every record and every element: around the documented example call of every function, each literal argument in turn is read from a variable (sigil and function spelling) and, in first position, from a macro bound to a member that changes A B A A / B A B B, against reading the member directly and against the record alone; nine nestings of a constant binding and one that changes from element to element (set/define/--set macro/--set variable/pipe), per element and per record; macros that refer to themselves and end (11 functions folded over a linked record of depth 1..4 through a --set macro, a defined macro and the hand-unrolled expression, against the function on the values directly); non-trivial = the body reads something the binding had to carry over (^, another binding, a selected name) or sits after --split-by / other selections; distinct by construction",
        explanation: "each case is one run with two selections: the bound form and the form obtained by substituting the bound value / macro body by hand; both must have the same value (differential, no model needed) and both are also compared with the reference evaluator",
        assumptions: COMMON_ASSUMPTIONS.to_vec(),
        guards: vec!["macro-that-refers-to-itself-and-ends", "one-macro-body-expanded-under-several-bindings-in-one-expression", "function-argument-bound-anew-for-every-record", "constant-binding-inside-a-changing-one", "bound-name-followed-by-a-comma", "preset-variable-is-evaluated-before-any-record", "binding-names-beyond-ascii-letters", "many-macro-expansions-in-one-record", "shadowing-with-numerically-close-values", "many-bindings-in-scope", "parent-read-under-a-binding", "other-variable-survives", "other-macro-survives", "selected-name-survives", "after-split", "shadowing", "macro-body-reads-outer-variable", "pipe-stage-parent", "later-select-sees-same-parents"],
        budget_s: (100, 1800),
        single_worker: false,
        run,
        recheck: None,
    }
}

fn subst(e: &E, var: Option<(&str, &E)>, mac: Option<(&str, &E)>) -> E {
    match e {
        E::Var(n) => match var {
            Some((name, v)) if name == n => v.clone(),
            _ => e.clone(),
        },
        E::Mac(n) => match mac {
            Some((name, m)) if name == n => m.clone(),
            _ => e.clone(),
        },
        E::Call(n, a) => E::Call(n.clone(), a.iter().map(|x| subst(x, var, mac)).collect()),
        _ => e.clone(),
    }
}

fn hole(x: &E, h: &E) -> E {
    match x {
        E::Var(n) if n == "HOLE" => h.clone(),
        E::Call(n, a) => E::Call(n.clone(), a.iter().map(|y| hole(y, h)).collect()),
        _ => x.clone(),
    }
}

struct Form {
    name: &'static str,
    /// extra command-line arguments (--set)
    args: Vec<&'static str>,
    /// wrapper with :HOLE where the body goes; `None` = no wrapper (binding comes from --set)
    wrap: Option<&'static str>,
    /// what the body's :x / @m must be replaced with to get the hand-substituted form
    var: Option<&'static str>,
    mac: Option<&'static str>,
    uses_mac: bool,
}

fn forms(val: &'static str) -> Vec<Form> {
    let l = |s: String| -> &'static str { Box::leak(s.into_boxed_str()) };
    let f = |name, args: Vec<&'static str>, wrap: Option<&'static str>, var: Option<&'static str>, mac: Option<&'static str>, uses_mac| Form { name, args, wrap, var, mac, uses_mac };
    vec![
        f("set", vec![], Some(l(format!("(set \"x\" {val} :HOLE)"))), Some(val), None, false),
        f("--set-variable", vec![l(format!("--set=x={val}"))], None, Some(val), None, false),
        f("set-in-set", vec![], Some(l(format!("(set \"y\" 0 (set \"x\" {val} :HOLE))"))), Some(val), None, false),
        f("set-around-set", vec![], Some(l(format!("(set \"x\" {val} (set \"y\" 0 :HOLE))"))), Some(val), None, false),
        f("shadow-inner-wins", vec![], Some(l(format!("(set \"x\" \"outer\" (set \"x\" {val} :HOLE))"))), Some(val), None, false),
        f("shadow---set", vec!["--set=x=\"outer\""], Some(l(format!("(set \"x\" {val} :HOLE)"))), Some(val), None, false),
        f("unused-set", vec![l(format!("--set=x={val}"))], Some("(set \"unused\" 1 :HOLE)"), Some(val), None, false),
        f("unused-define", vec![l(format!("--set=x={val}"))], Some("(define \"unused\" (len .) :HOLE)"), Some(val), None, false),
        f("set-via-get_variable", vec![], Some(l(format!("(set \"x\" {val} :HOLE)"))), Some(val), None, false),
        f("define", vec![], Some("(define \"m\" (push [] . 1) :HOLE)"), None, Some("(push [] . 1)"), true),
        f("--set-macro", vec!["--set=@m=(push [] . 1)"], None, None, Some("(push [] . 1)"), true),
        f("define-reads-parent", vec![], Some("(define \"m\" (push [] ^. .) :HOLE)"), None, Some("(push [] ^. .)"), true),
        f("--set-macro-reads-parent", vec!["--set=@m=(push [] ^. .)"], None, None, Some("(push [] ^. .)"), true),
        f("define-in-set", vec![], Some(l(format!("(set \"x\" {val} (define \"m\" (push [] . :x) :HOLE))"))), None, Some(l(format!("(push [] . {val})"))), true),
        f("set-in-define", vec![], Some(l(format!("(define \"m\" (push [] . :x) (set \"x\" {val} :HOLE))"))), None, Some(l(format!("(push [] . {val})"))), true),
        f("shadow-define", vec!["--set=@m=0"], Some("(define \"m\" (push [] . 2) :HOLE)"), None, Some("(push [] . 2)"), true),
        f("define-with-alias-#", vec![], Some("(# \"m\" (push [] . 3) :HOLE)"), None, Some("(push [] . 3)"), true),
        f("macro-alias-def", vec![], Some("(def \"m\" (len .) :HOLE)"), None, Some("(len .)"), true),
        // a macro whose body binds and uses its own name again (not a recursion: the inner binding shadows the outer one)
        f("macro-body-rebinds-its-own-name", vec![], Some("(define \"m\" (define \"m\" (push [] . 1) @m) :HOLE)"), None, Some("(push [] . 1)"), true),
        f("cli-macro-body-rebinds-its-own-name", vec!["--set=@m=(define \"m\" (push [] . 2) @m)"], None, None, Some("(push [] . 2)"), true),
        // a macro whose body is itself a pipe, used as a stage of another pipe: substitution nests the pipes
        f("macro-body-is-a-pipe", vec![], Some("(define \"m\" (| .o .p) :HOLE)"), None, Some("(| .o .p)"), true),
        f("cli-macro-body-is-a-pipe", vec!["--set=@m=(| .l (first .))"], None, None, Some("(| .l (first .))"), true),
        // a macro body that names another macro: after substitution that name is bound by whatever is in scope at the place of use
        f("macro-names-macro-bound-later", vec![], Some("(define \"m\" (push [] . @k) (define \"k\" 7 :HOLE))"), None, Some("(push [] . 7)"), true),
        f("macro-names-macro-rebound-at-use", vec!["--set=@k=1"], Some("(define \"m\" (push [] . @k) (define \"k\" 100 :HOLE))"), None, Some("(push [] . 100)"), true),
        f("cli-macro-names-macro-bound-at-use", vec!["--set=@m=(push [] . @k)"], Some("(define \"k\" (len .) :HOLE)"), None, Some("(push [] . (len .))"), true),
        f("macro-names-variable-bound-later", vec![], Some(l(format!("(define \"m\" (push [] . :x) (set \"x\" 0 (set \"x\" {val} :HOLE)))"))), None, Some(l(format!("(push [] . {val})"))), true),
        f("macro-names-macro-bound-earlier", vec![], Some("(define \"k\" 7 (define \"m\" (push [] . @k) :HOLE))"), None, Some("(push [] . 7)"), true),
    ]
}

const H_VAR: [&str; 8] = [":x", "(push [] . :x)", "(push [] ^. :x)", "(push [] ^^. :x)", "(push [] ^^^. :x)", "(push [] :other :x)", "(push [] @om :x)", "(push [] /s1/ :x)"];
const H_MAC: [&str; 9] = ["@m", "(push [] . @m)", "(push [] ^.n @m)", "(push [] ^^. @m)", "(push [] :other @m)", "(push [] @om @m)", "(push [] /s1/ @m)", "(| @m (push [] . ^ ^^))", "(| . @m (push [] . ^.n))"];
const XS: [&str; 12] = [
    ":HOLE",
    "(map .l :HOLE)",
    "(filter .l (= :HOLE :HOLE))",
    "(fold .l 0 :HOLE)",
    "(sort_by .l (stringify :HOLE))",
    "(map_values .o :HOLE)",
    "(| .n :HOLE)",
    "(| .l (map . :HOLE))",
    "(flat_map .ll (map . :HOLE))",
    "(| .n . :HOLE)",
    "(| .l (default . 0) (map . :HOLE))",
    "(map .l (| . (push [] . :HOLE)))",
];

const INPUTS: [&str; 2] = [
    "{\"k\":\"a\",\"n\":2,\"l\":[1,2],\"o\":{\"p\":[3,4],\"q\":1},\"ll\":[[1],[2,3]]}",
    "{\"k\":\"b\",\"n\":0,\"l\":[2,{\"n\":5},\"s\"],\"o\":{},\"ll\":[[],[0]]}",
];

fn run(ctx: &mut Ctx) {
    let vals: Vec<&'static str> = match ctx.tier {
        Tier::Quick => vec!["1", "[1, \"s\"]"],
        Tier::Thorough => vec!["1", "\"s\"", "[1, \"s\"]", "{\"a\": 1}"],
    };
    // thorough: every context also with a second context nested inside it (the binding then crosses two functional
    // arguments / pipe stages before it is read)
    let mut xs: Vec<String> = XS.iter().map(|s| s.to_string()).collect();
    if ctx.tier == Tier::Thorough {
        const INNER: [&str; 5] = ["(map (push [] . .) :HOLE)", "(| (push [] . \"w\") (map . :HOLE))", "(fold (push [] .) 0 :HOLE)", "(first (map (push [] .) :HOLE))", "(| . . :HOLE)"];
        for x in XS.iter().skip(1) {
            for inner in INNER {
                xs.push(x.replace(":HOLE", inner));
            }
        }
        ctx.guard("two-nested-contexts");
    }
    let dummies = ["--select=.k=s1", "--select=.n=s2", "--select=(len .l)=s3"];
    for val in &vals {
        for form in forms(val) {
            let hs: &[&str] = if form.uses_mac { &H_MAC } else { &H_VAR };
            for (hi, h) in hs.iter().enumerate() {
                for (xi, x) in xs.iter().enumerate() {
                    let x = x.as_str();
                    if !ctx.mine() {
                        continue;
                    }
                    let he = p(h);
                    let xe = p(x);
                    let var_e = form.var.map(p);
                    let mac_e = form.mac.map(p);
                    let substituted_h = subst(&he, var_e.as_ref().map(|v| ("x", v)), mac_e.as_ref().map(|m| ("m", m)));
                    let plain = hole(&xe, &he);
                    let substituted = hole(&xe, &substituted_h);
                    // placements of the binding
                    let mut bound_forms: Vec<(&str, E)> = Vec::new();
                    match form.wrap {
                        None => bound_forms.push(("cli", plain.clone())),
                        Some(w) => {
                            let we = p(w);
                            bound_forms.push(("outside", hole(&we, &plain)));
                            if xi > 0 {
                                bound_forms.push(("inside", hole(&xe, &hole(&we, &he))));
                            }
                        }
                    }
                    for (placement, bound) in bound_forms {
                        for split in [false, true] {
                            for pos in 0..=3usize {
                                if h.contains("/s1/") && pos == 0 {
                                    continue;
                                }
                                for (ii, inp) in INPUTS.iter().enumerate() {
                                    let mut args: Vec<String> = vec!["--set=other=7".into(), "--set=@om=(len .l)".into()];
                                    args.extend(form.args.iter().map(|s| s.to_string()));
                                    let input_text = if split {
                                        args.push("--split-by=.recs".into());
                                        format!("{{\"recs\":[{},{}],\"n\":9,\"k\":\"outer\"}}", inp, INPUTS[1 - ii])
                                    } else {
                                        inp.to_string()
                                    };
                                    for d in dummies.iter().take(pos) {
                                        args.push(d.to_string());
                                    }
                                    // every third case spells the bound form with commas between the arguments (a name is then
                                    // directly followed by a comma)
                                    let comma = expr::Style { sep: ",", pad: "", dot_sugar: false };
                                    if (hi + xi + pos) % 3 == 0 {
                                        ctx.guard("bound-name-followed-by-a-comma");
                                        args.push(format!("--select={}=bound", expr::show_with(&bound, &comma)));
                                    } else {
                                        args.push(format!("--select={}=bound", expr::show(&bound)));
                                    }
                                    args.push(format!("--select={}=subst", expr::show(&substituted)));
                                    let case = Case::owned(args, input_text.clone().into_bytes());
                                    let obs = ctx.run(&case);
                                    ctx.case_done();
                                    ctx.trace_validated();
                                    ctx.state(&(form.name, xi, split, pos));
                                    ctx.transition(&(form.name, hi, xi, placement, split, pos));
                                    let nontrivial = h.contains('^') || h.contains(":other") || h.contains("@om") || h.contains("/s1/") || split || pos > 0 || form.name.contains("parent");
                                    if nontrivial {
                                        ctx.nontrivial();
                                    }
                                    let sig = format!("{} {placement} in {} body#{hi}{}{}", form.name, x.replace(":HOLE", "_"), if split { " after-split" } else { "" }, if pos > 0 { " later-select" } else { "" });
                                    let rows = match json::parse_rows(&obs.stdout, b"\n") {
                                        Ok(r) if obs.res.is_ok() => r,
                                        _ => {
                                            ctx.violation("run-failed", &sig, &[case.clone()], "Ok".into(), obs.brief());
                                            continue;
                                        }
                                    };
                                    let expect_rows = if split { 2 } else { 1 };
                                    if rows.len() != expect_rows {
                                        ctx.violation("row-count", &sig, &[case.clone()], format!("{expect_rows} rows"), obs.brief());
                                        continue;
                                    }
                                    for (ri, row) in rows.iter().enumerate() {
                                        let a = row.get("bound").cloned();
                                        let b2 = row.get("subst").cloned();
                                        if a.is_some() {
                                            if h.contains('^') {
                                                ctx.guard("parent-read-under-a-binding");
                                            }
                                            if h.contains(":other") {
                                                ctx.guard("other-variable-survives");
                                            }
                                            if h.contains("@om") {
                                                ctx.guard("other-macro-survives");
                                            }
                                            if h.contains("/s1/") {
                                                ctx.guard("selected-name-survives");
                                            }
                                            if split {
                                                ctx.guard("after-split");
                                            }
                                            if form.name.starts_with("shadow") {
                                                ctx.guard("shadowing");
                                            }
                                            if form.name == "define-in-set" || form.name == "set-in-define" {
                                                ctx.guard("macro-body-reads-outer-variable");
                                            }
                                            if xi == 6 || xi == 7 || xi >= 9 {
                                                ctx.guard("pipe-stage-parent");
                                            }
                                        }
                                        if a != b2 {
                                            ctx.outcome("violation");
                                            ctx.violation(
                                                "bound-form-differs-from-hand-substituted-form",
                                                &sig,
                                                &[case.clone()],
                                                format!("subst = {}", eval::show_opt(&b2)),
                                                format!("bound = {}", eval::show_opt(&a)),
                                            );
                                            continue;
                                        }
                                        // reference evaluator on the substituted form
                                        let rec = json::parse_str(if split { if ri == 0 { inp } else { INPUTS[1 - ii] } } else { inp });
                                        let mut env = Env::of(rec.clone());
                                        if split {
                                            env = Env::of(json::parse_str(&input_text)).descend(rec.clone());
                                        }
                                        env.vars.push(("other".into(), V::int(7)));
                                        env.macros.push(("om".into(), p("(len .l)")));
                                        for a in &form.args {
                                            if let Some(rest) = a.strip_prefix("--set=@") {
                                                let (n, b) = rest.split_once('=').unwrap();
                                                env.macros.push((n.to_string(), p(b)));
                                            } else if let Some(rest) = a.strip_prefix("--set=") {
                                                let (n, b) = rest.split_once('=').unwrap();
                                                env.vars.push((n.to_string(), json::parse_str(b)));
                                            }
                                        }
                                        let ds = [("s1", ".k"), ("s2", ".n"), ("s3", "(len .l)")];
                                        for (n, e) in ds.iter().take(pos) {
                                            let v = eval::eval(&p(e), &env).unwrap_or(None);
                                            env.sel.push((n.to_string(), v));
                                        }
                                        match eval::eval(&bound, &env) {
                                            Ok(m) => {
                                                if !eval::agrees_opt(&m, &a, false) {
                                                    ctx.outcome("violation");
                                                    ctx.violation("value-differs-from-reference-evaluator", &sig, &[case.clone()], eval::show_opt(&m), eval::show_opt(&a));
                                                } else {
                                                    ctx.outcome(if a.is_some() { "ok-value" } else { "ok-nothing" });
                                                }
                                            }
                                            Err(_) => ctx.outcome("pair-equal-reference-silent"),
                                        }
                                    }
                                    ctx.sample(|| serde_json::json!({"args": case.args, "input": input_text, "stdout": obs.out_str()}));
                                }
                            }
                        }
                    }
                    if ctx.time_up() {
                        ctx.cap("forms");
                        return;
                    }
                }
            }
        }
    }
    ctx.level_done("bodies-x-contexts-x-forms-x-placements-x-positions-x-split");
    // every --select sees the same input and parents as the first one
    let es = ["^.k", "^^.", "(map .l ^.n)", "(| .n (+ . ^.n))", "(map .l (push [] ^^.k ^.k .))", ":other", "@om", "(set \"x\" ^.k (map .l :x))"];
    for e in es {
        for split in [false, true] {
            if !ctx.mine() {
                continue;
            }
            for inp in INPUTS {
                let mut args: Vec<String> = vec!["--set=other=7".into(), "--set=@om=(len .l)".into()];
                let input_text = if split {
                    args.push("--split-by=.recs".into());
                    format!("{{\"recs\":[{inp}],\"n\":9,\"k\":\"outer\"}}")
                } else {
                    inp.to_string()
                };
                for i in 1..=4 {
                    args.push(format!("--select={e}=p{i}"));
                }
                let case = Case::owned(args, input_text.into_bytes());
                let obs = ctx.run(&case);
                ctx.case_done();
                ctx.trace_validated();
                ctx.nontrivial();
                let rows = json::parse_rows(&obs.stdout, b"\n").unwrap_or_default();
                if rows.len() != 1 || !obs.res.is_ok() {
                    ctx.violation("run-failed", e, &[case.clone()], "one row".into(), obs.brief());
                    continue;
                }
                let first = rows[0].get("p1").cloned();
                if first.is_some() && split {
                    ctx.guard("later-select-sees-same-parents");
                }
                for i in 2..=4 {
                    if rows[0].get(&format!("p{i}")).cloned() != first {
                        ctx.violation(
                            "later-select-sees-a-different-context",
                            &format!("{e}{}", if split { " after-split" } else { "" }),
                            &[case.clone()],
                            format!("p{i} = p1 = {}", eval::show_opt(&first)),
                            obs.brief(),
                        );
                        break;
                    }
                }
            }
        }
    }
    ctx.level_done("same-expression-in-four-select-positions");
    // size thresholds: many bindings in scope at once (nested set / define, and --set given many times)
    for k in [3usize, 8, 9, 16, 17, 33, 64, 65, 130] {
        if !ctx.mine() {
            continue;
        }
        ctx.guard("many-bindings-in-scope");
        let reads: String = (0..k).map(|i| format!(" :v{i} @m{i}")).collect();
        let body = format!("(push []{reads} . (len .l))");
        let expected_reads: String = (0..k).map(|i| format!(" {i} (push [] . {i})")).collect();
        let substituted = format!("(push []{expected_reads} . (len .l))");
        // (a) nested in the expression
        let mut nested = body.clone();
        for i in (0..k).rev() {
            nested = format!("(set \"v{i}\" {i} (define \"m{i}\" (push [] . {i}) {nested}))");
        }
        // (b) on the command line
        let mut cli: Vec<String> = Vec::new();
        for i in 0..k {
            cli.push(format!("--set=v{i}={i}"));
            cli.push(format!("--set=@m{i}=(push [] . {i})"));
        }
        for (name, mut args, bound) in [("nested", Vec::new(), nested.clone()), ("command-line", cli.clone(), body.clone())] {
            args.push(format!("--select={bound}=bound"));
            args.push(format!("--select={substituted}=subst"));
            args.push(format!("--select=(map .l {bound})=inmap"));
            args.push(format!("--select=(map .l {substituted})=inmapsubst"));
            let case = Case::owned(args, INPUTS[0].as_bytes().to_vec());
            let obs = ctx.run(&case);
            ctx.case_done();
            ctx.trace_validated();
            ctx.nontrivial();
            let rows = json::parse_rows(&obs.stdout, b"\n").unwrap_or_default();
            let ok = obs.res.is_ok() && rows.len() == 1 && rows[0].get("bound").is_some() && rows[0].get("bound") == rows[0].get("subst") && rows[0].get("inmap").is_some() && rows[0].get("inmap") == rows[0].get("inmapsubst");
            if !ok {
                ctx.violation("bound-form-differs-from-hand-substituted-form", &format!("{k} bindings in scope ({name})"), &[case.clone()], "bound = subst (a value) at top level and inside map".into(), crate::drive::trunc(&obs.brief(), 300));
            }
        }
    }
    ctx.level_done("many-bindings-in-scope(3..130)");
    // many expansions of one macro inside ONE record, most of them yielding nothing (bookkeeping that is only
    // restored on the success path shows after a number of empty results)
    for n in [10usize, 63, 64, 65, 130, 300, 1100] {
        if !ctx.mine() {
            continue;
        }
        ctx.guard("many-macro-expansions-in-one-record");
        let items: Vec<String> = (0..n).map(|i| if i % 8 == 7 { format!("{{\"k\": {i}}}") } else { format!("{{\"z\": {i}}}") }).collect();
        let input = format!("{{\"big\": [{}], \"n\": 2}}", items.join(", "));
        for (name, args, bound, subst) in [
            ("--set-macro", vec!["--set=@m=(+ .k ^.n)".to_string()], "(map .big @m)", "(map .big (+ .k ^.n))"),
            ("define", vec![], "(define \"m\" (+ .k ^.n) (map .big @m))", "(map .big (+ .k ^.n))"),
            ("--set-macro-via-@-function", vec!["--set=@m=(+ .k ^.n)".to_string()], "(map .big (@ \"m\"))", "(map .big (+ .k ^.n))"),
            ("variable-in-lambda", vec![], "(map .big (set \"x\" .k (+ :x ^.n)))", "(map .big (+ .k ^.n))"),
        ] {
            let mut a = args.clone();
            a.push(format!("--select={bound}=bound"));
            a.push(format!("--select={subst}=subst"));
            a.push(format!("--select=(len {bound})=again"));
            let case = Case::owned(a, input.clone().into_bytes());
            let obs = ctx.run(&case);
            ctx.case_done();
            ctx.trace_validated();
            ctx.nontrivial();
            let rows = json::parse_rows(&obs.stdout, b"\n").unwrap_or_default();
            let ok = obs.res.is_ok() && rows.len() == 1 && rows[0].get("bound").is_some() && rows[0].get("bound") == rows[0].get("subst") && rows[0].get("again") == Some(&V::int((n / 8) as i128));
            if !ok {
                ctx.violation("bound-form-differs-from-hand-substituted-form", &format!("{name}: {n} expansions in one record, 7 of 8 yielding nothing"), &[case.clone()], format!("bound = subst = {} values", n / 8), crate::drive::trunc(&obs.brief(), 300));
            }
        }
    }
    ctx.level_done("many-macro-expansions-in-one-record(10..1100)");
    // shadowing with values that are close as numbers: the inner binding wins however alike the two values are
    let close: [(&str, &str); 7] = [
        ("18446744073709551615", "18446744073709551616"),
        ("18446744073709551615", "1.8446744073709552e19"),
        ("-9223372036854775808", "-9223372036854775809"),
        ("9007199254740993", "9007199254740992"),
        ("9007199254740993", "9007199254740992.0"),
        ("0", "-0.0"),
        ("[18446744073709551615]", "[1.8446744073709552e19]"),
    ];
    for (outer, inner) in close {
        if !ctx.mine() {
            continue;
        }
        ctx.guard("shadowing-with-numerically-close-values");
        for (o, i) in [(outer, inner), (inner, outer)] {
            for (name, args, e) in [
                ("set-in-set", vec![], format!("(set \"x\" {o} (set \"x\" {i} (push [] :x)))")),
                ("set-over---set", vec![format!("--set=x={o}")], format!("(set \"x\" {i} (push [] :x))")),
                ("set-in-map", vec![], format!("(set \"x\" {o} (map [1] (set \"x\" {i} :x)))")),
                ("define-in-define", vec![], format!("(define \"m\" {o} (define \"m\" {i} (push [] @m)))")),
            ] {
                let mut a = args.clone();
                a.push(format!("--select={e}=bound"));
                a.push(format!("--select=(push [] {i})=subst"));
                let case = Case::owned(a, b"null".to_vec());
                let obs = ctx.run(&case);
                ctx.case_done();
                ctx.trace_validated();
                ctx.nontrivial();
                let rows = json::parse_rows(&obs.stdout, b"\n").unwrap_or_default();
                let ok = obs.res.is_ok() && rows.len() == 1 && rows[0].get("bound").is_some() && rows[0].get("bound") == rows[0].get("subst");
                if !ok {
                    ctx.violation("bound-form-differs-from-hand-substituted-form", &format!("{name}: inner binding numerically close to the outer one"), &[case.clone()], format!("[{i}]"), crate::drive::trunc(&obs.brief(), 300));
                }
            }
        }
    }
    ctx.level_done("shadowing-with-numerically-close-values");
    // names: a bound name is free text (up to white space, `)`, `,` or `=` in the sigil spelling); the sigil spelling
    // and the function spelling reach the same binding, in every binding form, under shadowing, inside a functional argument
    let names = ["x", "caf\u{e9}", "gr\u{f6}\u{df}e", "\u{f1}", "\u{52a0}", "\u{1f603}", "a.b", "k#1", "x-y", "\u{e9}{", "\u{3a9}/2", "v1:", "m(1", "q[0]"];
    for (ni, name) in names.iter().enumerate() {
        if !ctx.mine() {
            continue;
        }
        for val in ["7", "[1, \"s\"]"] {
            let cases: Vec<(&str, Vec<String>, String)> = vec![
                ("set", vec![], format!("(set \"{name}\" {val} (push [] :{name} (: \"{name}\") (map (range 1) :{name})))")),
                ("define", vec![], format!("(define \"{name}\" {val} (push [] @{name} (@ \"{name}\") (map (range 1) @{name})))")),
                ("--set-variable", vec![format!("--set={name}={val}")], format!("(push [] :{name} (: \"{name}\") (map (range 1) :{name}))")),
                ("--set-macro", vec![format!("--set=@{name}={val}")], format!("(push [] @{name} (@ \"{name}\") (map (range 1) @{name}))")),
                ("shadow---set", vec![format!("--set={name}=0")], format!("(set \"{name}\" {val} (push [] :{name} (: \"{name}\") (map (range 1) :{name})))")),
                ("set-next-to-a-longer-name", vec![format!("--set={name}{name}=0")], format!("(set \"{name}\" {val} (push [] :{name} (: \"{name}\") (map (range 1) :{name})))")),
            ];
            let v = json::parse_str(val);
            let want = V::Arr(vec![v.clone(), v.clone(), V::Arr(vec![v.clone()])]);
            // the name given by an expression that reads the record (and has a constant fall-back): the binding is
            // made under the name the expression has for THIS record
            let mut cases = cases;
            cases.push(("set-name-from-the-record", vec![], format!("(set (default .nm \"fallback\") {val} (push [] :{name} (: \"{name}\") (map (range 1) :{name})))")));
            cases.push(("define-name-from-the-record", vec![], format!("(define (default .nm \"fallback\") {val} (push [] @{name} (@ \"{name}\") (map (range 1) @{name})))")));
            let record = format!("{}\n", json::to_text(&V::Obj(vec![("nm".into(), V::s(name))])));
            for (form, extra, e) in cases {
                let mut args = extra.clone();
                args.push(format!("--select={e}=r"));
                let case = Case::owned(args, record.clone().into_bytes());
                let obs = ctx.run(&case);
                ctx.case_done();
                ctx.trace_validated();
                ctx.nontrivial();
                ctx.guard("binding-names-beyond-ascii-letters");
                ctx.transition(&("name", ni, form));
                let got = json::parse_rows(&obs.stdout, b"\n").ok().and_then(|r| r.first().and_then(|x| x.get("r").cloned()));
                if !obs.res.is_ok() || got.as_ref() != Some(&want) {
                    ctx.violation("binding-not-reached-through-its-name", &format!("{form} name#{ni}"), &[case.clone()], json::to_text(&want), obs.brief());
                }
            }
        }
    }
    ctx.level_done("binding-names(14-names-x-8-forms)");
    // a --set variable is a VALUE: its expression is evaluated once, before any record, on the empty input - also
    // when the expression mentions `.` and has a fall-back; a --set macro is the expression itself, evaluated per record
    if ctx.mine() {
        let exprs = ["(default .k \"dflt\")", "(null? .)", "(stringify .)", "(default (.len) 0)", "(? (object? .) 1 2)"];
        let at_start = ["\"dflt\"", "true", "\"null\"", "0", "2"];
        for (e, v0) in exprs.iter().zip(at_start) {
            let input = format!("{}\n{}\n[1, 2]\n", INPUTS[0], INPUTS[1]);
            let args = vec![format!("--set=x={e}"), format!("--set=@m={e}"), "--select=:x=var".to_string(), "--select=(map (range 1) :x)=inside".to_string(), "--select=@m=mac".to_string(), format!("--select={e}=inline")];
            let case = Case::owned(args, input.into_bytes());
            let obs = ctx.run(&case);
            ctx.case_done();
            ctx.trace_validated();
            ctx.nontrivial();
            ctx.guard("preset-variable-is-evaluated-before-any-record");
            let rows = json::parse_rows(&obs.stdout, b"\n").unwrap_or_default();
            let want = json::parse_str(v0);
            let ok = obs.res.is_ok()
                && rows.len() == 3
                && rows.iter().all(|r| r.get("var") == Some(&want) && r.get("inside") == Some(&V::Arr(vec![want.clone()])) && r.get("mac") == r.get("inline"));
            if !ok {
                ctx.violation("preset-variable-depends-on-a-record", &format!("--set x={e}"), &[case.clone()], format!("var = {v0} in every row; the macro equals the inline expression"), obs.brief());
            }
        }
    }
    ctx.level_done("preset-variables-with-expressions-that-mention-the-input");
    rebinding_around_every_function(ctx);
    recursive_macros(ctx);
}

/// Bindings that are made again and again in one run - for every record and for every element of a list - around a call
/// of every function: `(f .. :x ..)` under `(set "x" .a ..)`, and `(f @m ..)` under `(define "m" .a ..)`, must give for
/// every record what `(f .. .a ..)` gives, whatever the records before it held (A B A and B A B, the two values being
/// the documented example argument and a different value of the same type). A position takes part when, on a single
/// record, reading the argument from the record gives what the literal gives (it is evaluated in the caller's context).
pub fn rebinding_around_every_function(ctx: &mut Ctx) {
    let other = |v: &V| -> &'static str {
        match v {
            V::Str(_) => "\"zz9\"",
            V::Num(_) => "7.25",
            V::Arr(_) => "[9, \"b\"]",
            V::Obj(_) => "{\"q\": 1}",
            V::Bool(true) => "false",
            V::Bool(false) => "true",
            V::Null => "0",
        }
    };
    let run1 = |ctx: &mut Ctx, args: Vec<String>, input: String| -> (Case, crate::drive::Obs) {
        let case = Case::owned(args, input.into_bytes());
        let obs = ctx.run(&case);
        ctx.case_done();
        (case, obs)
    };
    let mut positions = 0usize;
    for (fname, _, fargs) in super::c04::canonical_calls() {
        if !ctx.mine() {
            continue;
        }
        let fargs: Vec<&str> = fargs.split('\u{0}').collect();
        for pos in 0..fargs.len() {
            let Ok(a_val) = json::parse_one(fargs[pos].as_bytes()) else { continue };
            let (a, b) = (fargs[pos].to_string(), other(&a_val).to_string());
            let call = |x: &str| -> String {
                let mut v: Vec<String> = fargs.iter().map(|s| s.to_string()).collect();
                v[pos] = x.to_string();
                format!("({fname} {})", v.join(" "))
            };
            // calibration on single records: the literal and the member read give the same
            let mut calibrated = true;
            let mut single: Vec<Option<V>> = Vec::new();
            for lit in [&a, &b] {
                let (_, o) = run1(ctx, vec![format!("--select={}=lit", call(lit)), format!("--select={}=rec", call(".a"))], format!("{{\"a\": {lit}}}\n"));
                let rows = json::parse_rows(&o.stdout, b"\n").unwrap_or_default();
                if !o.res.is_ok() || rows.len() != 1 || rows[0].get("lit") != rows[0].get("rec") {
                    calibrated = false;
                    break;
                }
                single.push(rows[0].get("lit").cloned());
            }
            if !calibrated || single[0].is_none() {
                continue;
            }
            positions += 1;
            ctx.guard("function-argument-bound-anew-for-every-record");
            let mut sels = vec![format!("--select={}=direct", call(".a")), format!("--select=(set \"jvx\" .a {})=var", call(":jvx")), format!("--select=(set \"jvx\" .a {})=varfn", call("(: \"jvx\")"))];
            if pos == 0 {
                sels.push(format!("--select=(define \"jvm\" .a {})=mac", call("@jvm")));
            }
            for order in [[0usize, 1, 0, 0], [1, 0, 1, 1]] {
                let lits = [&a, &b];
                // (1) one record per binding
                let input: String = order.iter().map(|k| format!("{{\"a\": {}}}\n", lits[*k])).collect();
                let (case, o) = run1(ctx, sels.clone(), input);
                ctx.trace_validated();
                ctx.nontrivial();
                ctx.transition(&("rebinding", fname.clone(), pos, order[0]));
                let rows = json::parse_rows(&o.stdout, b"\n").unwrap_or_default();
                let mut bad: Option<String> = None;
                if !o.res.is_ok() || rows.len() != order.len() {
                    bad = Some(format!("{} rows", rows.len()));
                } else {
                    for (ri, k) in order.iter().enumerate() {
                        for name in ["direct", "var", "varfn", "mac"] {
                            if name == "mac" && pos != 0 {
                                continue;
                            }
                            if rows[ri].get(name) != single[*k].as_ref() {
                                bad = Some(format!("record {ri}: {name} = {} but the same record alone gives {}", rows[ri].get(name).map(json::to_text).unwrap_or("nothing".into()), single[*k].as_ref().map(json::to_text).unwrap_or("nothing".into())));
                            }
                        }
                    }
                }
                if let Some(e) = bad {
                    ctx.violation("rebound-argument-differs-from-the-argument-itself", &format!("{fname} argument #{pos} bound anew for every record"), &[case.clone()], "direct = var = mac = what the record gives alone, in every row".into(), format!("{e}; {}", crate::drive::trunc(&o.out_str(), 300)));
                }
                // (2) one element per binding, inside map (the two forms drop the same elements)
                let rows_lit = format!("[{}]", order.iter().map(|k| format!("{{\"a\": {}}}", lits[*k])).collect::<Vec<_>>().join(", "));
                let mut msels = vec![format!("--select=(map .rows {})=direct", call(".a")), format!("--select=(map .rows (set \"jvx\" .a {}))=var", call(":jvx"))];
                if pos == 0 {
                    msels.push(format!("--select=(map .rows (define \"jvm\" .a {}))=mac", call("@jvm")));
                }
                let (case, o) = run1(ctx, msels, format!("{{\"rows\": {rows_lit}}}\n"));
                ctx.trace_validated();
                let rows = json::parse_rows(&o.stdout, b"\n").unwrap_or_default();
                let ok = o.res.is_ok() && rows.len() == 1 && rows[0].get("direct").is_some() && rows[0].get("direct") == rows[0].get("var") && (pos != 0 || rows[0].get("direct") == rows[0].get("mac"));
                if !ok {
                    ctx.violation("rebound-argument-differs-from-the-argument-itself", &format!("{fname} argument #{pos} bound anew for every element"), &[case.clone()], "direct = var = mac".into(), crate::drive::trunc(&o.out_str(), 300));
                }
            }
        }
    }
    ctx.note("rebinding-positions", format!("{positions} (function, argument) positions calibrated on this worker"));
    // two bindings nested in each other, one constant and one changing from element to element (and from record to record)
    if ctx.mine() {
        let data = "{\"rows\": [{\"k\": 10, \"v\": [1, 2]}, {\"k\": 10, \"v\": [2]}, {\"k\": 20, \"v\": [2]}, {\"k\": 10, \"v\": [2, 2]}, {\"k\": 30, \"v\": []}, {\"k\": 20, \"v\": [1]}]}";
        let subst = "(map .rows (map .v (+ (+ . ^.k) 1)))";
        let bound: [(&str, Vec<&str>); 9] = [
            ("(map .rows (set \"k\" .k (map .v (set \"one\" 1 (+ (+ . :k) :one)))))", vec![]),
            ("(map .rows (set \"one\" 1 (map .v (set \"k\" ^.k (+ (+ . :k) :one)))))", vec![]),
            ("(map .rows (define \"k\" ^.k (map .v (define \"one\" 1 (+ (+ . @k) @one)))))", vec![]),
            ("(map .rows (set \"k\" .k (map .v (define \"f\" (+ . :k) (set \"one\" 1 (+ @f :one))))))", vec![]),
            ("(set \"one\" 1 (map .rows (set \"k\" .k (map .v (+ (+ . :k) :one)))))", vec![]),
            ("(map .rows (set \"k\" .k (map .v (set \"k\" (+ :k .) (+ :k 1)))))", vec![]),
            ("(map .rows (set \"k\" .k (map .v @m)))", vec!["--set=@m=(set \"one\" 1 (+ (+ . :k) :one))"]),
            ("(map .rows (set \"k\" .k (map .v (set \"one\" :c (+ (+ . :k) :one)))))", vec!["--set=c=1"]),
            ("(map .rows (| . (set \"k\" .k (map .v (set \"one\" 1 (+ (+ . :k) :one))))))", vec![]),
        ];
        for (b, extra) in bound {
            let mut args: Vec<String> = extra.iter().map(|s| s.to_string()).collect();
            args.push(format!("--select={b}=bound"));
            args.push(format!("--select={subst}=subst"));
            // the same per record: the rows as records of one run
            let (case, o) = run1(ctx, args.clone(), format!("{data}\n"));
            ctx.trace_validated();
            ctx.nontrivial();
            ctx.guard("constant-binding-inside-a-changing-one");
            let rows = json::parse_rows(&o.stdout, b"\n").unwrap_or_default();
            let want = json::parse_str("[[12, 13], [13], [23], [13, 13], [], [22]]");
            if !(o.res.is_ok() && rows.len() == 1 && rows[0].get("bound") == Some(&want) && rows[0].get("subst") == Some(&want)) {
                ctx.violation("bound-form-differs-from-hand-substituted-form", "a constant binding nested in one that changes from element to element", &[case.clone()], json::to_text(&want), crate::drive::trunc(&o.out_str(), 300));
            }
            let rec_bound = b.replacen("(map .rows ", "", 1);
            let rec_bound = &rec_bound[..rec_bound.len() - 1];
            let mut rargs: Vec<String> = extra.iter().map(|s| s.to_string()).collect();
            rargs.push(format!("--select={}=bound", rec_bound.replace("^.k", ".k").replace("(map .v ", "(map .v ").replace("(set \"k\" .k", "(set \"k\" .k")));
            rargs.push("--select=(map .v (+ (+ . ^.k) 1))=subst".into());
            let (case, o) = run1(ctx, rargs, format!("{data}\n").replace("{\"rows\": [", "").replace("]}\n", "\n").replace("}, {", "}\n{"));
            let rows = json::parse_rows(&o.stdout, b"\n").unwrap_or_default();
            let ok = o.res.is_ok() && rows.len() == 6 && rows.iter().all(|r| r.get("subst").is_some() && r.get("bound") == r.get("subst"));
            if !ok && !b.starts_with("(set \"one\" 1 (map .rows") && !b.contains("(| . ") && !b.contains("^.k") {
                ctx.violation("bound-form-differs-from-hand-substituted-form", "a constant binding nested in one that changes from record to record", &[case.clone()], "bound = subst in each of the 6 rows".into(), crate::drive::trunc(&o.out_str(), 400));
            }
        }
    }
    // one macro body that names another macro (or a variable), expanded several times in ONE expression under different
    // bindings of that name: each expansion sees the binding at its own place of use
    if ctx.mine() {
        let cases: [(&str, Vec<&str>, &str); 8] = [
            ("(define \"m\" (+ @f 1) (+ (define \"f\" 10 @m) (define \"f\" 20 @m)))", vec![], "32"),
            ("(define \"m\" (+ @f 1) (push [] (define \"f\" 10 @m) (define \"f\" 20 @m) (define \"f\" 10 @m)))", vec![], "[11, 21, 11]"),
            ("(+ @g (define \"f\" 2 @g))", vec!["--set=@g=@f", "--set=@f=1"], "3"),
            ("(push [] @g (define \"f\" 2 @g) @g)", vec!["--set=@g=(+ @f 0)", "--set=@f=1"], "[1, 2, 1]"),
            ("(define \"m\" (+ :v 1) (push [] (set \"v\" 10 @m) (set \"v\" 20 @m)))", vec![], "[11, 21]"),
            ("(map (push [] 10 20 10) (define \"f\" . @g))", vec!["--set=@g=(+ @f 1)"], "[11, 21, 11]"),
            ("(define \"m\" (@ \"f\") (push [] (define \"f\" 1 @m) (define \"f\" 2 @m)))", vec![], "[1, 2]"),
            ("(define \"m\" (push [] @f @f) (push [] (define \"f\" 1 @m) (define \"f\" 2 @m)))", vec![], "[[1, 1], [2, 2]]"),
        ];
        for (e, extra, want) in cases {
            let mut args: Vec<String> = extra.iter().map(|s| s.to_string()).collect();
            args.push(format!("--select={e}=r"));
            let (case, o) = run1(ctx, args, "null\n".to_string());
            ctx.trace_validated();
            ctx.nontrivial();
            ctx.guard("one-macro-body-expanded-under-several-bindings-in-one-expression");
            let got = json::parse_rows(&o.stdout, b"\n").ok().and_then(|r| r.first().and_then(|x| x.get("r").cloned()));
            if !o.res.is_ok() || got != Some(json::parse_str(want)) {
                ctx.violation("bound-form-differs-from-hand-substituted-form", "one macro body expanded under several bindings of a name it mentions, in one expression", &[case.clone()], want.to_string(), crate::drive::trunc(&o.out_str(), 300));
            }
        }
    }
    ctx.level_done("bindings-made-anew-for-every-record-and-element(around-every-function;constant-inside-changing)");
}

/// Macros that refer to themselves and end (structural recursion over a linked record): `@rec` folds a function over
/// `.value` of the record and `@rec` of `.next`. Every expansion is a use of the same call sites one inside the other;
/// the value must be what the hand-unrolled expression gives, and what the function gives on the values directly.
pub fn recursive_macros(ctx: &mut Ctx) {
    let fns: [(&str, [&str; 4]); 11] = [
        ("+", ["1", "20", "300", "4000"]),
        ("*", ["2", "3", "5", "7"]),
        ("-", ["100", "20", "3", "1"]),
        ("/", ["64", "8", "4", "2"]),
        ("\"+\"", ["\"1\"", "\"20\"", "\"300\"", "\"4000\""]),
        ("\"*\"", ["\"2\"", "\"3\"", "\"5\"", "\"7\""]),
        ("\"-\"", ["\"100\"", "\"20\"", "\"3\"", "\"1\""]),
        ("concat", ["\"a\"", "\"b\"", "\"c\"", "\"d\""]),
        ("and", ["true", "true", "false", "true"]),
        ("or", ["false", "false", "true", "false"]),
        ("default", ["null", "7", "8", "9"]),
    ];
    for (fi, (f, vals)) in fns.iter().enumerate() {
        if !ctx.mine() {
            continue;
        }
        for depth in 1..=4usize {
            // the linked record: {"value": v0, "next": {"value": v1, "next": ...}}
            let mut rec = String::new();
            for v in vals.iter().take(depth).rev() {
                rec = if rec.is_empty() { format!("{{\"value\": {v}}}") } else { format!("{{\"value\": {v}, \"next\": {rec}}}") };
            }
            // hand-unrolled: (default (f .value (| .next <inner>)) .value)
            let mut unrolled = ".value".to_string();
            for _ in 1..depth {
                unrolled = format!("(default ({f} .value (| .next {unrolled})) .value)");
            }
            // the function on the values directly, innermost first
            let mut direct = vals[depth - 1].to_string();
            for v in vals.iter().take(depth - 1).rev() {
                direct = format!("({f} {v} {direct})");
            }
            let body = format!("(default ({f} .value (| .next @rec)) .value)");
            let body_fn = format!("(default ({f} .value (| .next (@ \"rec\"))) .value)");
            let args = vec![
                format!("--set=@rec={body}"),
                "--select=@rec=preset".to_string(),
                format!("--select=(define \"rec\" {body_fn} (@ \"rec\"))=defined"),
                format!("--select={unrolled}=unrolled"),
                format!("--select={direct}=direct"),
                format!("--select=(map (push [] . .) @rec)=twice"),
            ];
            let case = Case::owned(args, format!("{rec}\n").into_bytes());
            let o = ctx.run(&case);
            ctx.case_done();
            ctx.trace_validated();
            ctx.nontrivial();
            ctx.guard("macro-that-refers-to-itself-and-ends");
            ctx.transition(&("recursive-macro", fi, depth));
            let rows = json::parse_rows(&o.stdout, b"\n").unwrap_or_default();
            let ok = o.res.is_ok()
                && rows.len() == 1
                && rows[0].get("direct").is_some()
                && ["preset", "defined", "unrolled"].iter().all(|n| rows[0].get(n) == rows[0].get("direct"))
                && rows[0].get("twice") == rows[0].get("direct").map(|d| V::Arr(vec![d.clone(), d.clone()])).as_ref();
            if !ok {
                ctx.violation("bound-form-differs-from-hand-substituted-form", &format!("a macro that refers to itself, folding {f} over a linked record of {depth}"), &[case.clone()], "preset = defined = unrolled = direct (a value); twice = [direct, direct]".into(), crate::drive::trunc(&o.brief(), 400));
            }
        }
    }
    ctx.level_done("macros-that-refer-to-themselves-and-end(11-functions-x-depth-1..4)");
}
