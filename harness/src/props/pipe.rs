//! Shared helpers for the pipeline properties (C03, C07, C08, C09, C10, C11):
//! run a reference `Config` on the implementation and compare with the reference pipeline.

use crate::ctx::Ctx;
use crate::drive::{Case, Obs};
use crate::refmodel::eval;
use crate::refmodel::json::{self, V};
use crate::refmodel::pipeline::{self, Config, Group};

/// rows `{"k": key, "v": id % 2, "id": id}`; `None` = the key member is absent
pub fn row(key: Option<&V>, id: usize) -> V {
    let mut m: Vec<(String, V)> = Vec::new();
    if let Some(k) = key {
        m.push(("k".into(), k.clone()));
    }
    m.push(("v".into(), V::int((id % 2) as i128)));
    m.push(("id".into(), V::int(id as i128)));
    V::Obj(m)
}

pub fn rows_from(keys: &[Option<V>], idx: &[usize]) -> Vec<V> {
    idx.iter().enumerate().map(|(i, k)| row(keys[*k].as_ref(), i)).collect()
}

/// short description of which options a configuration uses (violation signatures)
pub fn shape(cfg: &Config) -> String {
    let mut s = Vec::new();
    if cfg.ooa {
        s.push("ooa".to_string());
    }
    if !cfg.sets.is_empty() {
        s.push("set".into());
    }
    if cfg.split.is_some() {
        s.push("split".into());
    }
    if cfg.filter.is_some() {
        s.push("filter".into());
    }
    if !cfg.selects.is_empty() {
        s.push(format!("select{}", cfg.selects.len()));
    }
    if cfg.unique {
        s.push("unique".into());
    }
    for (_, d, _) in &cfg.sorts {
        s.push(if *d { "sortD".into() } else { "sortA".into() });
    }
    if cfg.skip > 0 {
        s.push("skip".into());
    }
    if cfg.take.is_some() {
        s.push("take".into());
    }
    match &cfg.group {
        Some(Group::By(_)) => s.push("group".into()),
        Some(Group::Merge) => s.push("merge".into()),
        None => {}
    }
    if s.is_empty() {
        "none".into()
    } else {
        s.join("+")
    }
}

pub fn texts(rows: &[V]) -> String {
    let v: Vec<String> = rows.iter().map(json::to_text).collect();
    format!("[{}]", v.join(" "))
}

/// The same command line in another documented spelling (variant 1: the other long name of every option that has
/// one; 2: short options with the value as a separate word; 3: long options with the value as a separate word;
/// 4: short options with the value attached; 5, 6 and 7: the spellings MIXED within one command line - every other
/// occurrence of an option in its second long name / as a short option with a separate word). Arguments are expected in the `--name=value` / `--flag` form.
/// A value-less `--group-by`/`--merge` never ends up in front of another word.
pub fn respell(args: &[String], variant: usize) -> Vec<String> {
    const NAMES: [(&str, &str, &str); 12] = [
        ("--select", "--choose", "-c"),
        ("--filter", "--where", "-f"),
        ("--split-by", "--break-by", "-b"),
        ("--group-by", "--combine", "-g"),
        ("--merge", "--group-by", "-g"),
        ("--sort-by", "--order-by", "-s"),
        ("--take", "--limit", "-t"),
        ("--skip", "--skip", "-k"),
        ("--unique", "--unique", "-u"),
        ("--set", "--set", "-e"),
        ("--output-style", "--output-style", "-o"),
        ("--row-seperator", "--row-seperator", "-r"),
    ];
    let mut out: Vec<String> = Vec::new();
    let mut bare_group: Option<String> = None;
    let mixed = variant >= 5;
    let mut occurrence = 0usize;
    for a in args {
        let variant = if mixed {
            occurrence += 1;
            match (variant, occurrence % 2) {
                (5, 1) | (7, 0) => 1,
                (5, _) | (7, _) => 0,
                (_, 1) => 0,
                _ => 2,
            }
        } else {
            variant
        };
        let (name, value) = match a.split_once('=') {
            Some((n, v)) if n.starts_with("--") => (n, Some(v)),
            _ => (a.as_str(), None),
        };
        let Some((_, other, short)) = NAMES.iter().find(|(n, _, _)| *n == name) else {
            out.push(a.clone());
            continue;
        };
        let spelled = match variant {
            1 => *other,
            2 | 4 => *short,
            _ => name,
        };
        match value {
            // a value that starts with '-' cannot stand as a separate word
            Some(v) if (variant == 2 || variant == 3) && !v.starts_with('-') => {
                out.push(spelled.to_string());
                out.push(v.to_string());
            }
            Some(v) if variant == 4 => out.push(format!("{spelled}{v}")),
            Some(v) if variant == 2 => out.push(format!("{spelled}{v}")),
            Some(v) => out.push(format!("{spelled}={v}")),
            None if name == "--merge" || name == "--group-by" => bare_group = Some(spelled.to_string()),
            None => out.push(spelled.to_string()),
        }
    }
    if let Some(g) = bare_group {
        // an option with an optional value: keep it where no word can follow it ... except file names, so put it first
        // only when something that starts with '-' follows
        match out.first() {
            Some(f) if f.starts_with('-') => out.insert(0, g),
            _ => {
                out.insert(0, g);
                out.rotate_left(1);
            }
        }
    }
    out
}

pub fn case_for(cfg: &Config, inputs: &[V]) -> Case {
    Case::owned(cfg.args(), pipeline::input_text(inputs))
}

pub enum Outcome {
    /// rows printed (JSON style), read back
    Rows(Vec<V>),
    /// the run failed, panicked or printed something that is not a row stream (already reported)
    Broken,
}

/// Run and read the rows back; anything but `Ok` + clean rows + empty stderr is reported.
pub fn run_rows(ctx: &mut Ctx, case: &Case, sig: &str) -> (Obs, Outcome) {
    let obs = ctx.run(case);
    if !obs.res.is_ok() {
        ctx.violation("run-failed", sig, &[case.clone()], "Ok".into(), obs.brief());
        return (obs, Outcome::Broken);
    }
    if !obs.stderr.is_empty() {
        ctx.violation("stderr-not-empty", sig, &[case.clone()], "empty stderr".into(), obs.brief());
        return (obs, Outcome::Broken);
    }
    match pipeline::read_rows(&obs.stdout) {
        Ok(r) => (obs, Outcome::Rows(r)),
        Err(e) => {
            ctx.violation("stdout-not-rows", sig, &[case.clone()], "one JSON value per line".into(), format!("{e}: {}", obs.brief()));
            (obs, Outcome::Broken)
        }
    }
}

/// The same case with its command line in another documented spelling (one of the 7 variants of `respell`, chosen
/// by the case itself so that the variants rotate over the cases of a check): the whole observation must be identical.
pub fn check_respelled(ctx: &mut Ctx, case: &Case, obs: &Obs, sig: &str) {
    if !matches!(case.input, crate::drive::Input::Stdin(_)) {
        return;
    }
    let first = 1 + (crate::ctx::h64(&(&case.args, ctx.rep.evaluations)) as usize) % 7;
    for k in 0..7 {
        let variant = 1 + (first - 1 + k) % 7;
        let a = respell(&case.args, variant);
        if a == case.args {
            continue;
        }
        let mut c2 = case.clone();
        c2.args = a;
        let o2 = ctx.run(&c2);
        ctx.guard("command-line-respelled");
        if o2.res != obs.res || o2.stdout != obs.stdout || o2.stderr != obs.stderr {
            ctx.violation("output-depends-on-the-spelling-of-the-options", &format!("{sig} spelling#{variant}"), &[c2, case.clone()], obs.brief(), o2.brief());
        }
        return;
    }
}

/// `run_rows`, then the same case in another spelling of its command line
pub fn run_rows_respelled(ctx: &mut Ctx, case: &Case, sig: &str) -> (Obs, Outcome) {
    let (obs, out) = run_rows(ctx, case, sig);
    if matches!(out, Outcome::Rows(_)) {
        check_respelled(ctx, case, &obs, sig);
    }
    (obs, out)
}

/// how two row lists differ (for signatures)
pub fn diff_kind(expected: &[V], got: &[V]) -> &'static str {
    if got.is_empty() && !expected.is_empty() {
        return "nothing-printed";
    }
    if expected.len() != got.len() {
        return if got.len() < expected.len() { "rows-missing" } else { "rows-extra" };
    }
    let mut e: Vec<String> = expected.iter().map(json::to_text).collect();
    let mut g: Vec<String> = got.iter().map(json::to_text).collect();
    e.sort();
    g.sort();
    if e == g {
        "row-order"
    } else {
        "row-content"
    }
}

/// Compare the implementation's rows with the reference pipeline. Returns false if a violation was recorded.
pub fn compare_with_model(ctx: &mut Ctx, cfg: &Config, inputs: &[V], case: &Case, got: &[V], clause: &str) -> Option<bool> {
    match cfg.output(inputs) {
        Err(_) => None,
        Ok(exp) => {
            let same = exp.len() == got.len() && exp.iter().zip(got).all(|(m, g)| eval::agrees(m, g, false));
            if !same {
                ctx.violation(
                    clause,
                    &format!("{} {}", shape(cfg), diff_kind(&exp, got)),
                    &[case.clone()],
                    texts(&exp),
                    texts(got),
                );
            }
            Some(same)
        }
    }
}
