//! C02 — every JSON output row is valid JSON for its value in all styles; a fixpoint.

use super::{Prop, COMMON_ASSUMPTIONS};
use crate::ctx::{Ctx, Tier};
use crate::drive::Case;
use crate::refmodel::json::{self, to_text, V};
use crate::refmodel::spell;

pub fn prop() -> Prop {
    Prop {
        id: "C02",
        level: "model_checking",
        rule: "values: every string of length <=2 (thorough <=3, 4 over a 16-character core and 5 over an 8-character core) over a 49-character alphabet (all C0 controls, DEL, quote, backslash, slash, U+0080, U+00FF, U+2028/9, U+D7FF, U+E000, U+FFFD, U+FFFF, U+10000, U+1F603, U+10FFFF, 'a') as a value, as a member name and inside an array; 26 boundary numbers; 1000 (thorough 15000) doubles needing 16-17 significant digits given in exponent form (printed plain, re-read by the fixpoint run); 33 computed numbers (results of arithmetic incl. overflow, negative zero, integral floats, exponent spellings); ~90 containers of depth <=3 with 0/1/2 members and 18 array/object chains of depth 8..64; strings of 15..4097 characters with a special character first or last (as value, member name, element) and arrays/objects of 15..1025 members; strings, arrays and objects of 65535..65537 characters / members; a position grid (13 atoms of all types incl. exponent forms and a 20-digit integer at every position - only/first/last/middle element or member - of every nesting shape of depth <=3 (thorough 4), members named by each of 10 names: empty, literal-like, number-like, with blank, quote, line feed, non-ASCII) as the stream `value atom value`; x 3 styles x utf8 on/off x 4 row separators; each case = 2 runs (output fed back); non-trivial = a character outside ' '..'~', a number that is not a small integer, or a non-empty container; distinct by construction; 4 inputs x 10 selection sets (rows built by jawk from selections, incl. selections that share a name, where every printed object must still have distinct member names)",
        explanation: "stdout is framed by the row separator and each row is read by the independent strict RFC 8259 reader and compared with the reference value; style relations (consise has no insignificant whitespace, one-line no line break, pretty = one element/member per line with indentation c*depth, all three equal after deleting insignificant whitespace) and the byte-for-byte fixpoint of a second run are checked on every case",
        assumptions: COMMON_ASSUMPTIONS.to_vec(),
        guards: vec!["sixty-five-thousand", "seventeen-digit-double-in-exponent-form", "position-grid", "separator-of-minus-signs-touching-the-next-row", "selections-sharing-a-name", "size-thresholds", "control-character", "astral-character", "pretty-nested", "computed-non-finite", "separator-without-newline", "utf8-on"],
        budget_s: (100, 2400),
        single_worker: false,
        run,
        recheck: None,
    }
}

pub fn alphabet() -> Vec<char> {
    let mut v: Vec<char> = (0u32..0x20).map(|c| char::from_u32(c).unwrap()).collect();
    v.extend(['\u{7f}', '"', '\\', '/', '\u{80}', '\u{ff}', '\u{2028}', '\u{2029}', '\u{d7ff}', '\u{e000}', '\u{fffd}', '\u{ffff}', '\u{10000}', '\u{1f603}', '\u{10ffff}', 'a', ' ']);
    v
}

const STYLES: [&str; 3] = ["one-line", "consise", "pretty"];
const SEPS: [&str; 9] = ["\n", "---\n", "\r\n", " ", "---", "\\", "\\n|\t", "\u{b7}", ",\u{2028}"];

/// delete whitespace outside strings
fn strip_ws(s: &[u8]) -> Vec<u8> {
    let mut out = Vec::with_capacity(s.len());
    let mut in_str = false;
    let mut esc = false;
    for &b in s {
        if in_str {
            out.push(b);
            if esc {
                esc = false;
            } else if b == b'\\' {
                esc = true;
            } else if b == b'"' {
                in_str = false;
            }
        } else if b == b'"' {
            in_str = true;
            out.push(b);
        } else if !matches!(b, b' ' | b'\n' | b'\t' | b'\r') {
            out.push(b);
        }
    }
    out
}

/// delete spaces/tabs that are not at the start of a line (outside strings); keep newlines and leading spaces
fn strip_inline_ws(s: &[u8]) -> Vec<u8> {
    let mut out = Vec::with_capacity(s.len());
    let mut in_str = false;
    let mut esc = false;
    let mut line_start = true;
    for &b in s {
        if in_str {
            out.push(b);
            if esc {
                esc = false;
            } else if b == b'\\' {
                esc = true;
            } else if b == b'"' {
                in_str = false;
            }
            continue;
        }
        match b {
            b'\n' => {
                out.push(b);
                line_start = true;
            }
            b' ' | b'\t' if !line_start => {}
            b' ' | b'\t' => out.push(b),
            b'"' => {
                in_str = true;
                line_start = false;
                out.push(b);
            }
            _ => {
                line_start = false;
                out.push(b);
            }
        }
    }
    out
}

/// expected pretty layout built from the consise text: one element/member per line, indent c*depth
fn pretty_layout(consise: &[u8], c: usize) -> Vec<u8> {
    let mut out = Vec::new();
    let mut depth = 0usize;
    let mut in_str = false;
    let mut esc = false;
    let nl = |out: &mut Vec<u8>, d: usize| {
        out.push(b'\n');
        out.extend(std::iter::repeat(b' ').take(c * d));
    };
    let mut i = 0;
    while i < consise.len() {
        let b = consise[i];
        if in_str {
            out.push(b);
            if esc {
                esc = false;
            } else if b == b'\\' {
                esc = true;
            } else if b == b'"' {
                in_str = false;
            }
            i += 1;
            continue;
        }
        match b {
            b'"' => {
                in_str = true;
                out.push(b);
            }
            b'[' | b'{' => {
                out.push(b);
                let close = if b == b'[' { b']' } else { b'}' };
                if i + 1 < consise.len() && consise[i + 1] == close {
                    out.push(close);
                    i += 1;
                } else {
                    depth += 1;
                    nl(&mut out, depth);
                }
            }
            b']' | b'}' => {
                depth -= 1;
                nl(&mut out, depth);
                out.push(b);
            }
            b',' => {
                out.push(b);
                nl(&mut out, depth);
            }
            _ => out.push(b),
        }
        i += 1;
    }
    out
}

fn split_rows<'a>(out: &'a [u8], sep: &[u8]) -> Result<Vec<(&'a [u8], V)>, String> {
    let mut rows = Vec::new();
    let mut i = 0;
    while i < out.len() {
        let mut p = json::P::new(&out[i..]);
        match p.value(0, 0) {
            Ok(v) => {
                let end = i + p.i;
                if out.len() < end + sep.len() || &out[end..end + sep.len()] != sep {
                    return Err(format!("row {} is not followed by the row separator (byte {end})", rows.len()));
                }
                rows.push((&out[i..end], v));
                i = end + sep.len();
            }
            Err(e) => return Err(format!("row {} is not valid JSON: {} at byte {}", rows.len(), e.what, i + e.at)),
        }
    }
    Ok(rows)
}

struct Item {
    /// input text fed to jawk (one or more values)
    input: String,
    /// extra args (selection for computed numbers)
    args: Vec<String>,
    /// expected row values, None = only validity / relations / fixpoint are checked
    expected: Option<Vec<V>>,
    kind: &'static str,
    nontrivial: bool,
}

fn check_item(ctx: &mut Ctx, it: &Item) {
    // consise row per (utf8) is the reference for the style relations
    for utf8 in [false, true] {
        let mut consise_rows: Option<Vec<Vec<u8>>> = None;
        for sep in SEPS {
            for style in ["consise", "one-line", "pretty"] {
                let mut args = it.args.clone();
                args.push(format!("--style={style}"));
                if utf8 {
                    args.push("--utf8-strings".into());
                    ctx.guard("utf8-on");
                }
                args.push(format!("--row-seperator={sep}"));
                if !sep.ends_with('\n') {
                    ctx.guard("separator-without-newline");
                }
                let case = Case::owned(args.clone(), it.input.clone().into_bytes());
                let o = ctx.run(&case);
                ctx.case_done();
                ctx.trace_validated();
                if it.nontrivial {
                    ctx.nontrivial();
                }
                ctx.state(&(it.kind, style, utf8, sep.len()));
                let sig = |what: &str| format!("{what}: {} style {style} utf8 {utf8} sep {sep:?}", it.kind);
                let mut fail = |ctx: &mut Ctx, clause: &str, what: &str, e: String, a: String| {
                    ctx.outcome(clause);
                    ctx.violation(clause, &sig(what), &[case.clone()], e, a);
                };
                if !o.res.is_ok() {
                    fail(ctx, "result", "", "Ok".into(), o.brief());
                    continue;
                }
                let rows = match split_rows(&o.stdout, sep.as_bytes()) {
                    Ok(r) => r,
                    Err(e) => {
                        let detail = if o.stdout.windows(3).any(|w| w == b"inf" || w == b"NaN") { "non-finite number printed" } else { "row text" };
                        fail(ctx, "invalid-json-row", detail, "every row is a well-formed RFC 8259 text framed by the separator".into(), format!("{e}; stdout={:?}", crate::drive::trunc(&o.out_str(), 200)));
                        continue;
                    }
                };
                if let Some(exp) = &it.expected {
                    if rows.len() != exp.len() {
                        fail(ctx, "row-count", "", format!("{} rows", exp.len()), format!("{} rows: {:?}", rows.len(), crate::drive::trunc(&o.out_str(), 200)));
                        continue;
                    }
                    let mut bad = false;
                    for ((_, got), want) in rows.iter().zip(exp) {
                        if got != want {
                            bad = true;
                            if !utf8 && super::c01::astral_explained(want, got) {
                                fail(ctx, "row-value-astral-escape", "a character outside the BMP is written as \\u followed by 5 or 6 hex digits (and nothing else differs)", to_text(want), to_text(got));
                            } else {
                                fail(ctx, "row-value", &format!("value {}", crate::drive::trunc(&to_text(want), 60)), to_text(want), format!("{} (stdout {:?})", to_text(got), crate::drive::trunc(&o.out_str(), 200)));
                            }
                            break;
                        }
                    }
                    if bad {
                        continue;
                    }
                }
                // an object whose text repeats a member name is not read back as one value by independent readers
                if let Some((_, r)) = rows.iter().find(|(_, r)| repeats_a_name(r)) {
                    fail(ctx, "row-repeats-a-member-name", "", "every object in a row has distinct member names".into(), format!("{} (stdout {:?})", to_text(r), crate::drive::trunc(&o.out_str(), 200)));
                    continue;
                }
                // style clauses
                let texts: Vec<Vec<u8>> = rows.iter().map(|(t, _)| t.to_vec()).collect();
                let mut style_ok = true;
                match style {
                    "consise" => {
                        for t in &texts {
                            if strip_ws(t) != *t {
                                fail(ctx, "consise-has-whitespace", "", "no insignificant whitespace".into(), format!("{:?}", String::from_utf8_lossy(t)));
                                style_ok = false;
                                break;
                            }
                        }
                        if sep == "\n" || consise_rows.is_none() {
                            consise_rows = Some(texts.clone());
                        }
                    }
                    "one-line" => {
                        for t in &texts {
                            if t.iter().any(|b| *b == b'\n' || *b == b'\r') {
                                fail(ctx, "one-line-has-line-break", "", "no CR/LF inside a row".into(), format!("{:?}", String::from_utf8_lossy(t)));
                                style_ok = false;
                                break;
                            }
                        }
                    }
                    _ => {
                        // pretty: layout = one element/member per line, indentation c*depth
                        let cons = consise_rows.as_ref();
                        let mut unit: Option<usize> = None;
                        for (k, t) in texts.iter().enumerate() {
                            let canon = strip_inline_ws(t);
                            // infer c from the first indented line of the whole output
                            if unit.is_none() {
                                if let Some(p) = canon.iter().position(|b| *b == b'\n') {
                                    let n = canon[p + 1..].iter().take_while(|b| **b == b' ').count();
                                    if n > 0 {
                                        unit = Some(n);
                                    }
                                }
                            }
                            let cons_t = match cons {
                                Some(c) if c.len() == texts.len() => c[k].clone(),
                                _ => strip_ws(t),
                            };
                            let c = unit.unwrap_or(2);
                            let want = pretty_layout(&cons_t, c);
                            if canon != want {
                                fail(ctx, "pretty-layout", "", format!("one element/member per line, indentation {c} x depth: {:?}", String::from_utf8_lossy(&want)), format!("{:?}", String::from_utf8_lossy(t)));
                                style_ok = false;
                                break;
                            }
                            if canon.contains(&b'\n') {
                                ctx.guard("pretty-nested");
                            }
                        }
                    }
                }
                if !style_ok {
                    continue;
                }
                // the three styles differ only in insignificant whitespace
                if let Some(c) = &consise_rows {
                    if c.len() != texts.len() || c.iter().zip(&texts).any(|(a, b)| *a != strip_ws(b)) {
                        fail(ctx, "styles-differ-beyond-whitespace", "", format!("consise rows {:?}", c.iter().map(|x| String::from_utf8_lossy(x).into_owned()).collect::<Vec<_>>()), format!("{:?}", o.out_str()));
                        continue;
                    }
                }
                // a separator made of minus signs cannot be told from the start of a number: no re-reading claim then
                if sep == "---" && rows.iter().any(|(t, _)| t.first().map(|b| *b == b'-' || b.is_ascii_digit()).unwrap_or(false)) {
                    ctx.outcome("ok");
                    continue;
                }
                if sep == "---" {
                    ctx.guard("separator-of-minus-signs-touching-the-next-row");
                }
                // fixpoint: feed the output back with the same options (without the selection that computed it)
                let mut args2: Vec<String> = args.iter().filter(|a| !a.starts_with("--select=")).cloned().collect();
                if it.args.iter().any(|a| a.starts_with("--select=")) {
                    // a computed row is {"x": n}: re-reading it must reproduce it as is
                    args2.retain(|a| !a.starts_with("--select="));
                }
                let case2 = Case::owned(args2, o.stdout.clone());
                let o2 = ctx.run(&case2);
                if o2.stdout != o.stdout || !o2.res.is_ok() {
                    fail(ctx, "not-a-fixpoint", "", format!("{:?}", crate::drive::trunc(&o.out_str(), 200)), format!("{}", o2.brief()));
                    continue;
                }
                ctx.outcome("ok");
                ctx.sample(|| serde_json::json!({"args": args, "input": it.input, "stdout": o.out_str()}));
            }
        }
    }
}

fn repeats_a_name(v: &V) -> bool {
    match v {
        V::Obj(m) => {
            let mut seen = std::collections::HashSet::new();
            m.iter().any(|(k, x)| !seen.insert(k.as_str()) || repeats_a_name(x))
        }
        V::Arr(a) => a.iter().any(repeats_a_name),
        _ => false,
    }
}

fn string_items(ctx: &mut Ctx, s: &str, out: &mut Vec<Item>) {
    let nontrivial = s.chars().any(|c| !(' '..='~').contains(&c));
    if s.chars().any(|c| (c as u32) < 0x20) {
        ctx.guard("control-character");
    }
    if s.chars().any(|c| (c as u32) > 0xffff) {
        ctx.guard("astral-character");
    }
    let lit = to_text(&V::s(s));
    // as a value, as a member name, inside an array — in one input (three rows)
    let input = format!("{lit}\n{{{lit}:1}}\n[{lit},{lit}]\n");
    let exp = vec![V::s(s), V::Obj(vec![(s.to_string(), V::int(1))]), V::Arr(vec![V::s(s), V::s(s)])];
    out.push(Item { input, args: vec![], expected: Some(exp), kind: "string", nontrivial });
}

fn containers() -> Vec<V> {
    let a0: Vec<V> = vec![V::int(1), V::s("s")];
    let mk = |members: &[V]| -> Vec<V> {
        let mut v = Vec::new();
        for x in members {
            v.push(V::Arr(vec![x.clone()]));
            v.push(V::Obj(vec![("a".into(), x.clone())]));
            for y in members {
                v.push(V::Arr(vec![x.clone(), y.clone()]));
                v.push(V::Obj(vec![("a".into(), x.clone()), ("b".into(), y.clone())]));
            }
        }
        v
    };
    let mut u1 = vec![V::Arr(vec![]), V::Obj(vec![])];
    u1.extend(mk(&a0));
    let s1 = vec![V::int(1), V::Arr(vec![]), V::Arr(vec![V::int(1), V::s("s")]), V::Obj(vec![("a".into(), V::int(1))])];
    let u2 = mk(&s1);
    let s2 = vec![V::Null, V::Obj(vec![]), u2[5].clone(), u2[10].clone()];
    let u3 = mk(&s2);
    let mut all = u1;
    all.extend(u2);
    all.extend(u3);
    // deep chains: layout code that treats depth specially (caps, lookup tables) shows only beyond a threshold
    for d in [8usize, 16, 31, 32, 33, 34, 48, 63, 64] {
        all.push(crate::refmodel::spell::nested_chain(d, true));
        all.push(crate::refmodel::spell::nested_chain(d, false));
    }
    all.dedup();
    all
}

fn run(ctx: &mut Ctx) {
    let sigma = alphabet();
    // ---- strings
    let mut strs: Vec<String> = vec![String::new()];
    for a in &sigma {
        strs.push(a.to_string());
    }
    for a in &sigma {
        for b in &sigma {
            strs.push(format!("{a}{b}"));
        }
    }
    if ctx.tier == Tier::Thorough {
        // every string of length 3 over the whole alphabet, and of length 4 over an 8-character core
        for a in &sigma {
            for b in &sigma {
                for c in &sigma {
                    strs.push(format!("{a}{b}{c}"));
                }
            }
        }
        let core: Vec<char> = vec!['\u{1}', '\n', '"', '\\', '\u{7f}', '\u{2028}', '\u{1f603}', 'a'];
        let core16: Vec<char> = core.iter().copied().chain(['\u{0}', '\t', '/', '\u{80}', '\u{ffff}', '\u{10000}', '\u{e9}', 'b']).collect();
        for a in &core16 {
            for b in &core16 {
                for c in &core16 {
                    for d in &core16 {
                        strs.push(format!("{a}{b}{c}{d}"));
                    }
                }
            }
        }
        // length 5 over the 8-character core
        for a in &core {
            for b in &core {
                for c in &core {
                    for d in &core {
                        for e in &core {
                            strs.push(format!("{a}{b}{c}{d}{e}"));
                        }
                    }
                }
            }
        }
    }
    for s in &strs {
        if !ctx.mine() {
            continue;
        }
        let mut items = Vec::new();
        string_items(ctx, s, &mut items);
        for it in &items {
            check_item(ctx, it);
        }
        if ctx.time_up() {
            ctx.cap("strings");
            return;
        }
    }
    ctx.level_done("strings-over-the-alphabet");
    // ---- numbers (literals)
    for n in spell::boundary_numbers() {
        if !ctx.mine() {
            continue;
        }
        let v = json::parse_str(n);
        let it = Item {
            input: format!("{n} [{n}] {{\"n\":{n}}}"),
            args: vec![],
            expected: Some(vec![v.clone(), V::Arr(vec![v.clone()]), V::Obj(vec![("n".into(), v.clone())])]),
            kind: "number-literal",
            nontrivial: true,
        };
        check_item(ctx, &it);
    }
    // ---- doubles that need 16 or 17 significant digits, given in exponent form: the first run prints them as plain
    // decimals, which the second run (the fixpoint clause) has to read back to the same double
    let n17 = ctx.tier.pick(200u64, 3000);
    for i in 0..n17 {
        if !ctx.mine() {
            continue;
        }
        let x = f64::from_bits(0x3FF0_0000_0000_0000 + i * ((1u64 << 52) / n17 + 0x1_2345) % (1u64 << 52));
        for scale in [1.0, 1e3, 1e-3, 1e10, 7.0] {
            let y = x * scale * if i % 2 == 0 { 1.0 } else { -1.0 };
            let lit = format!("{y:e}");
            let v = json::parse_str(&lit);
            ctx.guard("seventeen-digit-double-in-exponent-form");
            let it = Item { input: format!("{lit} [{lit}]"), args: vec![], expected: Some(vec![v.clone(), V::Arr(vec![v.clone()])]), kind: "number-17-digits", nontrivial: true };
            check_item(ctx, &it);
        }
    }
    // ---- computed numbers (results of arithmetic, incl. overflow to non-finite)
    let computed: [(&str, &str); 33] = [
        ("1e200", "(* . .)"),
        ("-1e200", "(* . . .)"),
        ("1e308", "(+ . .)"),
        ("1e-200", "(* . .)"),
        ("1e308", "(- (* . 10) (* . 10))"),
        ("0", "(/ 1 .)"),
        ("0", "(% 1 .)"),
        ("3", "(/ 1 .)"),
        ("9007199254740993", "(+ . 1)"),
        ("18446744073709551615", "(+ . 1)"),
        ("-9223372036854775808", "(- . 1)"),
        ("0.1", "(+ . 0.2)"),
        ("2.5", "(round .)"),
        ("1e19", "(* . 1)"),
        ("5e-324", "(/ . 2)"),
        ("-0.0", "(* . 1)"),
        ("1.7976931348623157e308", "(* . 1.0000001)"),
        // results that are a negative zero, an integral float, or print with an exponent
        ("0", "(* -1 .)"),
        ("0", "(/ . -5)"),
        ("5e-324", "(* . -0.1)"),
        ("0", "(- (* -1 .) 0)"),
        ("-0.5", "(round .)"),
        ("-0.2", "(ceil .)"),
        ("1e21", "(+ . 1)"),
        ("1e-7", "(/ . 10)"),
        // an overflowing intermediate result followed by an operand that makes it not-a-number
        ("1e200", "(* . . 0)"),
        ("1e200", "(- (* . .) (* . .))"),
        ("1e200", "(* 0 . .)"),
        ("1e308", "(% (* . 10) 3)"),
        // overflow in the negative direction first (and then times zero)
        ("1e200", "(* . -1 .)"),
        ("1e200", "(* . -1 . 0)"),
        ("-1e200", "(* . (- 0 .))"),
        ("1e308", "(- (- 0 .) .)"),
    ];
    for (inp, e) in computed {
        if !ctx.mine() {
            continue;
        }
        if inp.contains("e200") || inp.contains("e308") {
            ctx.guard("computed-non-finite");
        }
        let it = Item { input: inp.to_string(), args: vec![format!("--select={e}=x")], expected: None, kind: "number-computed", nontrivial: true };
        let _ = e;
        check_item(ctx, &it);
    }
    ctx.level_done("numbers-literal-and-computed");
    // ---- containers
    for v in containers() {
        if !ctx.mine() {
            continue;
        }
        let t = to_text(&v);
        let it = Item { input: format!("{t} {t}"), args: vec![], expected: Some(vec![v.clone(), v.clone()]), kind: "container", nontrivial: v.depth() > 0 };
        check_item(ctx, &it);
    }
    ctx.level_done("containers-depth<=3-and-chains-to-depth-64");
    // ---- the position grid: an atom of every kind at every position of every nesting shape (see refmodel::spell), as the
    // stream `value atom value`, so that a value also follows a row of a very different type and comes back after it
    let gdepth = ctx.tier.pick(3, 4);
    let atoms = spell::grid_atoms();
    let names = spell::grid_names();
    let mut shapes: Vec<Vec<usize>> = Vec::new();
    for d in 1..=gdepth {
        crate::explore::seqs_exact(spell::GRID_WRAPPERS, d, |s| shapes.push(s.to_vec()));
    }
    for (si, shape) in shapes.iter().enumerate() {
        if !ctx.mine() {
            continue;
        }
        ctx.guard("position-grid");
        for (ai, atom) in atoms.iter().enumerate() {
            let all_names = shape.len() <= gdepth - 1;
            for (ni, name) in names.iter().enumerate() {
                if !all_names && ni != (si + ai) % names.len() {
                    continue;
                }
                let v = spell::grid_value(shape, name, atom);
                let (t, a) = (to_text(&v), to_text(atom));
                let it = Item { input: format!("{t} {a} {t}"), args: vec![], expected: Some(vec![v.clone(), atom.clone(), v.clone()]), kind: "position-grid", nontrivial: true };
                check_item(ctx, &it);
            }
        }
        if ctx.time_up() {
            ctx.cap("position grid");
            return;
        }
    }
    ctx.level_done(&format!("position-grid(depth<={gdepth},8-wrappers,{}-atoms,{}-names)", atoms.len(), names.len()));
    // ---- size thresholds: long strings (special character last / first), wide arrays and objects
    for n in [15usize, 16, 17, 31, 32, 33, 63, 64, 65, 127, 128, 129, 255, 256, 257, 1023, 1024, 1025, 4095, 4096, 4097] {
        if !ctx.mine() {
            continue;
        }
        ctx.guard("size-thresholds");
        let body = "a".repeat(n - 1);
        for sp in ["\u{1}", "\"", "\u{e9}", "\u{2028}", "\u{ffff}", "\n"] {
            for first in [false, true] {
                let s = if first { format!("{sp}{body}") } else { format!("{body}{sp}") };
                let v = V::Str(s.clone());
                let o = V::Obj(vec![(s.clone(), V::Arr(vec![v.clone()]))]);
                let it = Item { input: format!("{} {}", to_text(&v), to_text(&o)), args: vec![], expected: Some(vec![v.clone(), o.clone()]), kind: "long-string", nontrivial: true };
                check_item(ctx, &it);
            }
        }
        if n <= 1025 {
            let arr = V::Arr((0..n).map(|i| if i % 7 == 3 { V::Arr(vec![V::int(i as i128)]) } else { V::int(i as i128) }).collect());
            let obj = V::Obj((0..n).map(|i| (format!("k{i}"), if i % 5 == 1 { V::Obj(vec![]) } else { V::int(i as i128) })).collect());
            let it = Item { input: format!("{} {}", to_text(&arr), to_text(&obj)), args: vec![], expected: Some(vec![arr.clone(), obj.clone()]), kind: "wide-container", nontrivial: true };
            check_item(ctx, &it);
        }
    }
    // 2^16 characters / elements / nesting-free members (counters narrower than the data can reach)
    for n in [65535usize, 65536, 65537] {
        for kind in 0..3 {
            if !ctx.mine() {
                continue;
            }
            ctx.guard("sixty-five-thousand");
            let v = match kind {
                0 => V::Str(format!("{}\u{e9}", "a".repeat(n - 1))),
                1 => V::Arr((0..n).map(|i| V::int((i % 10) as i128)).collect()),
                _ => V::Obj((0..n).map(|i| (format!("k{i}"), if i % 1000 == 7 { V::Arr(vec![V::Null]) } else { V::Bool(i % 2 == 0) })).collect()),
            };
            let it = Item { input: format!("{} 1", to_text(&v)), args: vec![], expected: Some(vec![v.clone(), V::int(1)]), kind: "sixty-five-thousand", nontrivial: true };
            check_item(ctx, &it);
        }
    }
    ctx.level_done("size-thresholds(strings-to-4097,containers-to-1025-members,and-around-65536)");
    // ---- rows built by selections (the printed row is an object made by jawk, not one it read), incl. selections sharing a name
    let sel_inputs = ["{\"a\": 1, \"b\": \"x\", \"c\": [1, {\"a\": 2}]}", "{\"a\": 1} {\"b\": 2} {\"c\": 3}", "{\"b\": null, \"a\": {\"b\": \"\\u00e9\"}}", "[1, 2] 5 {\"a\": []}"];
    let sel_sets: [&[&str]; 17] = [
        // a container printed by the row printer next to the same container turned into text by a function (which has a
        // printer of its own, with a layout of its own)
        &[".=v", "(stringify .)=s"],
        &["(stringify .c)=s", ".c=c", ".a=a"],
        &[".=v", "(len (stringify .))=n", "(parse (stringify .))=w"],
        &["(map (push [] . .) (stringify .))=ss", ".=v"],
        &[".a=n"],
        &[".a=n", ".b=m"],
        &[".a=n", ".b=n"],
        &[".b=n", ".a=n"],
        &[".a", ".a"],
        &[".a=n", ".b=m", ".c=n"],
        &[".a=n", ".c=n", ".b=n"],
        &[".=n", ".=n"],
        &["(? (object? .) . (push [] .))=n", ".a=a", ".b=a"],
        &["(.len)=n", "(stringify .)=n"],
        // names that are not ASCII: they are printed by the same rules as any other string of the row
        &[".a=prix \u{20ac}", ".b=caf\u{e9}"],
        &[".a=\u{1f603} n", ".b=k"],
        &[".=\u{7f}\u{2028}q\"r\\"],
    ];
    for (ii, input) in sel_inputs.iter().enumerate() {
        for (si, set) in sel_sets.iter().enumerate() {
            if !ctx.mine() {
                continue;
            }
            if set.len() >= 2 {
                ctx.guard("selections-sharing-a-name");
            }
            let it = Item { input: input.to_string(), args: set.iter().map(|s| format!("--select={s}")).collect(), expected: None, kind: "selected-row", nontrivial: true };
            ctx.transition(&(ii, si, "selected"));
            check_item(ctx, &it);
        }
    }
    ctx.level_done("rows-built-by-selections");
}
