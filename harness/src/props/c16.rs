//! C16 — read and write failures stop the run with an error, never a panic or silent loss.

use super::{Prop, COMMON_ASSUMPTIONS};
use crate::ctx::{Ctx, Tier};
use crate::drive::{Case, FaultKind, Input, Obs, ReadPlan, WritePlan};

pub fn prop() -> Prop {
    Prop {
        id: "C16",
        level: "fault_enumeration",
        rule: "inputs: clean and noisy streams over a 7-value core (1..3 values, 4 separator kinds; thorough adds all pairs) plus three long ones (2500 rows, a 9000-character string, 700 noisy lines) faulted at the first and last 40 offsets and around 255, 256, 1 KiB, 4 KiB, 8 KiB, 16 KiB, 32 KiB, 64 KiB of the input and of the output; faults: the reader fails when asked for the byte at EVERY offset 0..=len (after 0,1,2 Interrupted results; for inputs of <=60 (thorough <=400) bytes also with 8 other io::ErrorKinds: BrokenPipe, ConnectionReset, ConnectionAborted, UnexpectedEof, TimedOut, WouldBlock, InvalidData, PermissionDenied), Interrupted at every offset without failure, stdout fails after accepting EVERY number of bytes 0..len(out) (plain, with 1- and 3-byte short writes, with Interrupted on every 2nd call; for outputs of <=200 bytes also with 7 other io::ErrorKinds, WouldBlock and TimedOut being transient), stderr likewise under --on-error=stderr, unopenable files in every position of a file list; x 4 policies x 11 pipelines (streaming, select, sort, group, --utf8-strings, text, csv, and four with --skip/--take: alone, pretty style, behind a sort, behind split and filter); inputs with \\uXXXX escapes in strings and member names; non-trivial = the fault offset falls strictly inside the input/output; distinct by construction; a file that opens but whose first read fails (/proc/self/mem) in every position of a list of <=3 files; and (with the real binary under an LD_PRELOAD read(2) shim, when a C compiler is present) a file argument whose read fails after EVERY number of bytes, before and after a readable file, x 4 policies x 5 pipelines",
        explanation: "every fault point of every history is enumerated on the real code with fault-injecting Read/Write implementations; oracle: Err (not Ok, not a panic), the reader is never asked again after its failure, stdout is a prefix of the fault-free stdout; a fault the fault-free run never reaches must change nothing",
        assumptions: COMMON_ASSUMPTIONS.to_vec(),
        guards: vec!["other-write-error-kinds", "file-whose-first-read-fails", "other-error-kinds", "raw-utf8-row-longer-than-60-bytes", "fault-beyond-8192", "read-fault-inside-value", "read-fault-at-eof", "write-fault-inside-row", "interrupted-then-error", "short-writes", "stderr-write-fault", "missing-file"],
        budget_s: (100, 1800),
        single_worker: false,
        run,
        recheck: None,
    }
}

const POLICIES: [&str; 4] = ["ignore", "stdout", "stderr", "panic"];
const PIPES: [(&str, &[&str], bool); 11] = [
    ("stream", &[], true),
    ("select", &["--select=.=v", "--select=(size .)=n"], true),
    ("sort", &["--sort-by=(stringify .)"], false),
    ("group", &["--group-by=(stringify .)"], false),
    ("utf8", &["--utf8-strings"], true),
    ("text", &["--output-style=text"], true),
    ("csv", &["--output-style=csv", "--select=.=v"], true),
    // limits: the row that reaches the limit is also the row on which the run stops reading
    ("take", &["--take=2"], true),
    ("skip-take-pretty", &["--skip=1", "--take=1", "--style=pretty"], true),
    ("sort-take", &["--sort-by=(stringify .)", "--take=2"], false),
    ("split-filter-take", &["--split-by=(? (array? .) . (push [] .))", "--filter=(not (null? .))", "--take=3"], true),
];
const CORE: [&str; 7] = ["1", "\"aé\"", "[1,{\"b\":null}]", "{\"k\":\"v\",\"n\":[2]}", "true", "-2.5e3", "null"];

fn inputs(tier: Tier) -> Vec<Vec<u8>> {
    let mut v: Vec<String> = Vec::new();
    for a in CORE {
        v.push(a.to_string());
        v.push(format!("{a}\n"));
    }
    let seps = [" ", "\n", "\r\n", "\t"];
    let pairs: Vec<(usize, usize)> = match tier {
        Tier::Quick => vec![(0, 1), (1, 2), (2, 3), (3, 0), (4, 5), (5, 6), (6, 2), (3, 3)],
        Tier::Thorough => (0..7).flat_map(|a| (0..7).map(move |b| (a, b))).collect(),
    };
    for (i, (a, b)) in pairs.iter().enumerate() {
        let s = seps[i % 4];
        v.push(format!("{}{s}{}", CORE[*a], CORE[*b]));
        v.push(format!("{}{s}{}{s}{}\n", CORE[*a], CORE[*b], CORE[(*a + 2) % 7]));
    }
    // touching values
    v.push("[1][2]{\"a\":1}\"x\"".into());
    // escapes inside strings and member names (a fault can fall between the bytes of one escape)
    v.push("\"\\u00e9x\" {\"k\\u0041\": \"\\ud83d\\ude03\"} [\"a\\u0062c\\n\\\\\", 1]".into());
    v.push("[[{\"\\u006b\": \"\\t\\u2028\"}]] 7\n".into());
    // noisy streams
    for n in ["} 1 ] 2", "1 x \"a\" , [1] :", "nul 1 tru {\"a\":} 2", "\"abc", "[1,2", "1 \u{e9} 2"] {
        v.push(n.to_string());
    }
    // rows longer than 60 bytes that are mostly multi-byte characters (2-, 3- and 4-byte), at every alignment
    for pad in 0..4usize {
        v.push(format!("\"{}{}\" [\"{}{}\"]", "a".repeat(pad), "\u{e9}".repeat(45), "b".repeat(pad), "\u{20ac}\u{10348}".repeat(12)));
    }
    // long inputs / outputs (faults at the size thresholds only, see `offsets`)
    v.push((0..2500).map(|i| format!("{{\"i\":{i}}}\n")).collect::<String>());
    v.push(format!("\"{}\" [1] 2\n", "w".repeat(9000)));
    v.push((0..700).map(|i| format!("{i} }} :\n")).collect::<String>());
    let mut out: Vec<Vec<u8>> = v.into_iter().map(|s| s.into_bytes()).collect();
    out.push(b"1 \xff 2 \x80\n3".to_vec());
    out
}

/// every offset of a short text; for a long one the offsets around the sizes at which buffers fill and counters wrap
fn offsets(n: usize) -> Vec<usize> {
    if n <= 400 {
        return (0..n).collect();
    }
    let mut v: Vec<usize> = (0..40).collect();
    for t in [255usize, 256, 1023, 1024, 4095, 4096, 8191, 8192, 16383, 16384, 32768, 65535, 65536] {
        for d in [t.saturating_sub(1), t, t + 1] {
            v.push(d);
        }
    }
    v.extend((n.saturating_sub(40))..n);
    v.retain(|k| *k < n);
    v.sort();
    v.dedup();
    v
}

fn rows_without_diagnostics(out: &[u8]) -> Vec<u8> {
    out.split_inclusive(|b| *b == b'\n').filter(|l| !l.starts_with(b"error:")).flatten().copied().collect()
}

fn args(policy: &str, pipe: &[&str]) -> Vec<String> {
    let mut a = vec![format!("--on-error={policy}")];
    a.extend(pipe.iter().map(|s| s.to_string()));
    a
}

fn sig_args(policy: &str, pipe: &str) -> String {
    format!("policy {policy} pipeline {pipe}")
}

fn run(ctx: &mut Ctx) {
    let ins = inputs(ctx.tier);
    for input in &ins {
        for (pname, pargs, streaming) in PIPES {
            for policy in POLICIES {
                if !ctx.mine() {
                    continue;
                }
                let a = args(policy, pargs);
                let base = Case::owned(a.clone(), input.clone());
                let ff = ctx.run(&base);
                ctx.case_done();
                if ff.res.is_panic() {
                    ctx.violation("panic", &format!("fault-free {}", sig_args(policy, pname)), &[base.clone()], "no panic".into(), ff.brief());
                    continue;
                }
                if ["utf8", "text", "csv"].contains(&pname) && ff.stdout.len() > 60 && !ff.stdout.is_ascii() {
                    ctx.guard("raw-utf8-row-longer-than-60-bytes");
                }
                let reached_eof = ff.read_calls > ff.bytes_pulled;
                // ---- read faults at every offset
                for k in offsets(input.len() + 1) {
                    // j = 0: plain failure; 1, 2: after that many Interrupted results; 3..: other io::ErrorKinds
                    const KINDS: [&str; 8] = ["BrokenPipe", "ConnectionReset", "ConnectionAborted", "UnexpectedEof", "TimedOut", "WouldBlock", "InvalidData", "PermissionDenied"];
                    let jmax = if input.len() <= ctx.tier.pick(60usize, 400) { 3 + KINDS.len() as u32 } else { 3 };
                    for j in 0..jmax {
                        let mut c = base.clone();
                        c.rplan = ReadPlan {
                            fail_at: Some(k),
                            kind: if j == 0 || j >= 3 { FaultKind::Error } else { FaultKind::InterruptedThenError(j) },
                            error_kind: if j >= 3 { KINDS[(j - 3) as usize].to_string() } else { String::new() },
                            ..ReadPlan::default()
                        };
                        if j >= 3 {
                            ctx.guard("other-error-kinds");
                        }
                        let o = ctx.run(&c);
                        ctx.case_done();
                        ctx.trace_validated();
                        ctx.state(&("read", pname, policy, k.min(40), j));
                        let hit = k < ff.bytes_pulled || (k == input.len() && reached_eof);
                        if j > 0 && j < 3 {
                            ctx.guard("interrupted-then-error");
                        }
                        if k == input.len() && hit {
                            ctx.guard("read-fault-at-eof");
                        }
                        if k >= 8192 {
                            ctx.guard("fault-beyond-8192");
                        }
                        if k > 0 && k < input.len() {
                            ctx.nontrivial();
                            ctx.guard("read-fault-inside-value");
                        }
                        let sig = format!("read fault, {}", sig_args(policy, pname));
                        if !hit {
                            if o.res != ff.res || o.stdout != ff.stdout || o.stderr != ff.stderr {
                                ctx.violation("unreached-read-fault-changes-run", &sig, &[c.clone()], ff.brief(), o.brief());
                            }
                            ctx.outcome("fault-not-reached");
                            continue;
                        }
                        let mut bad: Option<(&str, String)> = None;
                        if o.res.is_panic() {
                            bad = Some(("read-fault-panic", "Err".into()));
                        } else if o.res.is_ok() {
                            bad = Some(("read-fault-mistaken-for-eof-or-skipped", "Err (the run must stop and report)".into()));
                        } else if o.reads_after_error > 0 {
                            bad = Some(("read-after-failure", "the reader is not asked again after it failed".into()));
                        } else if streaming && !ff.stdout.starts_with(&o.stdout) {
                            bad = Some(("output-not-a-prefix", format!("a prefix of {:?}", ff.out_str())));
                        } else if policy != "stdout" && o.stdout.windows(6).any(|w| w == b"error:") {
                            bad = Some(("diagnostic-on-stdout", "no error: line on stdout".into()));
                        }
                        match bad {
                            Some((clause, exp)) => {
                                ctx.outcome(clause);
                                ctx.violation(clause, &sig, &[c.clone()], exp, o.brief());
                            }
                            None => ctx.outcome("read-fault-err"),
                        }
                        ctx.sample(|| serde_json::json!({"args": a, "input": String::from_utf8_lossy(input), "read_fails_at": k, "interrupted_first": j, "result": o.res.short(), "stdout": o.out_str()}));
                    }
                }
                // ---- Interrupted (no failure) at every offset at once, and singly
                let mut plans: Vec<Vec<usize>> = vec![(0..=input.len()).collect()];
                for k in offsets(input.len() + 1) {
                    plans.push(vec![k]);
                }
                for p in plans {
                    let mut c = base.clone();
                    c.rplan = ReadPlan { interrupts: p, ..ReadPlan::default() };
                    let o = ctx.run(&c);
                    ctx.case_done();
                    if o.res != ff.res || o.stdout != ff.stdout || o.stderr != ff.stderr {
                        ctx.violation("interrupted-read-changes-run", &sig_args(policy, pname), &[c.clone()], ff.brief(), o.brief());
                    }
                }
                // ---- write faults on stdout at every offset of the fault-free output
                for k in offsets(ff.stdout.len()) {
                    // the kind of the failure: the generic one, and (for outputs of <= 200 bytes, behind 3-byte short writes
                    // so that a row is partly accepted) seven others, two of them transient
                    let mut variants: Vec<(&str, usize, usize, &str)> = vec![("plain", 0usize, 0usize, ""), ("short1", 1, 0, ""), ("short3", 3, 0, ""), ("eintr", 0, 2, "")];
                    if ff.stdout.len() <= 200 {
                        for wk in ["WouldBlock", "TimedOut", "BrokenPipe", "WriteZero", "ConnectionReset", "PermissionDenied", "OutOfMemory"] {
                            variants.push((wk, 3, 0, wk));
                            variants.push((wk, 0, 0, wk));
                        }
                        ctx.guard("other-write-error-kinds");
                    }
                    for (variant, chunk, intr, wkind) in variants {
                        let mut c = base.clone();
                        c.wplan = WritePlan { stdout_fail_at: Some(k), stderr_fail_at: None, max_chunk: chunk, interrupt_every: intr, error_kind: wkind.to_string() };
                        let o = ctx.run(&c);
                        ctx.case_done();
                        ctx.trace_validated();
                        ctx.state(&("write", pname, policy, k.min(40), variant));
                        if chunk > 0 {
                            ctx.guard("short-writes");
                        }
                        if k > 0 && ff.stdout[k - 1] != b'\n' {
                            ctx.nontrivial();
                            ctx.guard("write-fault-inside-row");
                        }
                        let sig = format!("stdout write fault ({variant}), {}", sig_args(policy, pname));
                        let mut bad: Option<(&str, String)> = None;
                        if o.res.is_panic() {
                            bad = Some(("write-fault-panic", "Err".into()));
                        } else if o.res.is_ok() {
                            bad = Some(("write-fault-silent-loss", "Err (output was lost)".into()));
                        } else if o.stdout != ff.stdout[..k] {
                            bad = Some(("output-not-the-accepted-prefix", format!("{:?}", String::from_utf8_lossy(&ff.stdout[..k]))));
                        }
                        match bad {
                            Some((clause, exp)) => {
                                ctx.outcome(clause);
                                ctx.violation(clause, &sig, &[c.clone()], exp, o.brief());
                            }
                            None => ctx.outcome("write-fault-err"),
                        }
                    }
                }
                // short writes / EINTR without a failure change nothing
                for (chunk, intr) in [(1usize, 0usize), (3, 0), (0, 2), (2, 3)] {
                    let mut c = base.clone();
                    c.wplan = WritePlan { stdout_fail_at: None, stderr_fail_at: None, max_chunk: chunk, interrupt_every: intr, error_kind: String::new() };
                    let o = ctx.run(&c);
                    ctx.case_done();
                    if o.res != ff.res || o.stdout != ff.stdout || o.stderr != ff.stderr {
                        ctx.violation("short-write-changes-run", &sig_args(policy, pname), &[c.clone()], ff.brief(), o.brief());
                    }
                }
                // ---- stderr faults (only meaningful when diagnostics go there)
                for k in offsets(ff.stderr.len()) {
                    let mut c = base.clone();
                    c.wplan = WritePlan { stdout_fail_at: None, stderr_fail_at: Some(k), max_chunk: 0, interrupt_every: 0, error_kind: String::new() };
                    let o = ctx.run(&c);
                    ctx.case_done();
                    ctx.trace_validated();
                    ctx.guard("stderr-write-fault");
                    ctx.nontrivial();
                    let sig = format!("stderr write fault, {}", sig_args(policy, pname));
                    if o.res.is_panic() {
                        ctx.violation("write-fault-panic", &sig, &[c.clone()], "Err".into(), o.brief());
                    } else if o.res.is_ok() {
                        ctx.violation("write-fault-silent-loss", &sig, &[c.clone()], "Err (a diagnostic was lost)".into(), o.brief());
                    } else if streaming && !ff.stdout.starts_with(&o.stdout) {
                        ctx.violation("output-not-a-prefix", &sig, &[c.clone()], format!("a prefix of {:?}", ff.out_str()), o.brief());
                    }
                }
                if ctx.time_up() {
                    ctx.cap("fault sweep");
                    return;
                }
            }
        }
    }
    ctx.level_done("every-offset-read/write-faults");

    // ---- files that cannot be opened, in every position of a list of <= 3 files
    if ctx.mine() {
        for policy in POLICIES {
            for n in 1..=3usize {
                for missing in 0..n {
                    let mut files: Vec<(String, Vec<u8>)> = Vec::new();
                    for i in 0..n {
                        if i != missing {
                            files.push((format!("f{i}.json"), format!("{}\n", i + 1).into_bytes()));
                        }
                    }
                    // the missing one is named in args at its position
                    let mut a = args(policy, &[]);
                    let d = crate::drive::work_dir();
                    let mut pos_args: Vec<String> = Vec::new();
                    for i in 0..n {
                        pos_args.push(d.join(format!("f{i}.json")).to_string_lossy().into_owned());
                    }
                    // write present files ourselves, pass all names positionally
                    for (name, bytes) in &files {
                        std::fs::write(d.join(name), bytes).unwrap();
                    }
                    let _ = std::fs::remove_file(d.join(format!("f{missing}.json")));
                    a.extend(pos_args);
                    let c = Case { args: a, input: Input::Stdin(b"9".to_vec()), rplan: ReadPlan::default(), wplan: WritePlan::default() };
                    let o: Obs = ctx.run(&c);
                    ctx.case_done();
                    ctx.guard("missing-file");
                    ctx.nontrivial();
                    let expect_rows: String = (0..missing).map(|i| format!("{}\n", i + 1)).collect();
                    let sig = format!("missing file at position {missing} of {n}, policy {policy}");
                    if o.res.is_panic() {
                        ctx.violation("missing-file-panic", &sig, &[c.clone()], "Err".into(), o.brief());
                    } else if !o.res.is_err() {
                        ctx.violation("missing-file-not-reported", &sig, &[c.clone()], "Err".into(), o.brief());
                    } else if o.out_str() != expect_rows {
                        ctx.violation("missing-file-output", &sig, &[c.clone()], format!("{expect_rows:?}"), o.brief());
                    } else if o.factory_calls != 0 {
                        ctx.violation("stdin-used-with-files", &sig, &[c.clone()], "stdin untouched".into(), o.brief());
                    }
                    for (name, _) in &files {
                        let _ = std::fs::remove_file(d.join(name));
                    }
                }
            }
        }
    }
    ctx.level_done("unopenable-files");

    // ---- a file that can be opened but whose very first read fails (/proc/self/mem: EIO at offset 0), in every
    // position of a list of <= 3 files, under every policy and four pipelines
    if ctx.mine() {
        for policy in POLICIES {
            for (pname, pargs) in [("stream", vec![]), ("select", vec!["--select=.=v"]), ("sort", vec!["--sort-by=."]), ("merge", vec!["--merge"])] {
                for n in 1..=3usize {
                    for bad in 0..n {
                        let d = crate::drive::work_dir();
                        let mut a = args(policy, &pargs);
                        let mut expect_rows = String::new();
                        for i in 0..n {
                            if i == bad {
                                a.push("/proc/self/mem".to_string());
                            } else {
                                let p = d.join(format!("r{i}.json"));
                                std::fs::write(&p, format!("{}\n", i + 1)).unwrap();
                                a.push(p.to_string_lossy().into_owned());
                                if i < bad && pname == "stream" {
                                    expect_rows.push_str(&format!("{}\n", i + 1));
                                }
                            }
                        }
                        let c = Case { args: a, input: Input::Stdin(b"9".to_vec()), rplan: ReadPlan::default(), wplan: WritePlan::default() };
                        let o: Obs = ctx.run(&c);
                        ctx.case_done();
                        ctx.trace_validated();
                        ctx.guard("file-whose-first-read-fails");
                        ctx.nontrivial();
                        let sig = format!("file whose first read fails at position {bad} of {n}, policy {policy} pipeline {pname}");
                        if o.res.is_panic() {
                            ctx.violation("read-fault-panic", &sig, &[c.clone()], "Err".into(), o.brief());
                        } else if !o.res.is_err() {
                            ctx.violation("read-fault-mistaken-for-eof-or-skipped", &sig, &[c.clone()], "Err (the run must stop and report)".into(), o.brief());
                        } else if pname == "stream" && o.out_str() != expect_rows {
                            ctx.violation("output-not-a-prefix", &sig, &[c.clone()], format!("{expect_rows:?}"), o.brief());
                        }
                        for i in 0..n {
                            let _ = std::fs::remove_file(d.join(format!("r{i}.json")));
                        }
                    }
                }
            }
        }
    }
    ctx.level_done("file-whose-first-read-fails");

    // ---- a FILE argument whose read fails after k bytes, for EVERY k: the real binary under an LD_PRELOAD shim that
    // fails read(2) on that one file (built by ./check when a C compiler is present)
    match (std::env::var("JAWK_BIN"), std::env::var("JV_READFAIL_SHIM")) {
        (Ok(bin), Ok(shim)) if std::path::Path::new(&bin).exists() && std::path::Path::new(&shim).exists() => {
            let contents: [&str; 3] = ["1 [2]\n{\"a\": \"x\"} 4\n", "{\"k\": [1, 2, {\"z\": null}]}\n\"s\" 7", "[1]\n[2]\n[3]\n[4]\n"];
            for (ci, content) in contents.iter().enumerate() {
                for policy in POLICIES {
                    for (pname, pargs) in [("stream", vec![]), ("select", vec!["--select=.=v"]), ("sort", vec!["--sort-by=(stringify .)"]), ("merge", vec!["--merge"]), ("take", vec!["--take=3"])] {
                        if !ctx.mine() {
                            continue;
                        }
                        let d = crate::drive::work_dir();
                        let bad = d.join(format!("half{ci}.json"));
                        let good = d.join("whole.json");
                        std::fs::write(&bad, content).unwrap();
                        std::fs::write(&good, "[9]\n").unwrap();
                        let bad_s = std::fs::canonicalize(&bad).unwrap().to_string_lossy().into_owned();
                        for order in 0..2usize {
                            let mut a = args(policy, &pargs);
                            if order == 0 {
                                a.push(bad_s.clone());
                                a.push(good.to_string_lossy().into_owned());
                            } else {
                                a.push(good.to_string_lossy().into_owned());
                                a.push(bad_s.clone());
                            }
                            let ff = match crate::drive::run_child_env(&bin, &a, b"", crate::drive::OutMode::Pipe, &[]) {
                                Ok(c) => c,
                                Err(e) => {
                                    ctx.machinery_error(format!("cannot run child: {e}"));
                                    return;
                                }
                            };
                            for k in 0..content.len() {
                                let env = [("LD_PRELOAD", shim.clone()), ("JV_FAIL_PATH", bad_s.clone()), ("JV_FAIL_AT", k.to_string())];
                                let c = match crate::drive::run_child_env(&bin, &a, b"", crate::drive::OutMode::Pipe, &env) {
                                    Ok(c) => c,
                                    Err(e) => {
                                        ctx.machinery_error(format!("cannot run child: {e}"));
                                        return;
                                    }
                                };
                                ctx.rep.evaluations += 1;
                                ctx.case_done();
                                ctx.trace_validated();
                                ctx.nontrivial();
                                ctx.guard("file-read-fails-half-way");
                                ctx.state(&("file-read", pname, policy, k.min(40), order));
                                // with --take the run may stop before the failing offset is reached
                                let reached = pname != "take" || c.stdout != ff.stdout || c.code != Some(0);
                                let rcase = Case { args: a.clone(), input: Input::Stdin(format!("<{bad_s} fails after {k} bytes>").into_bytes()), rplan: ReadPlan::default(), wplan: WritePlan::default() };
                                let brief = format!("exit={:?} stdout={:?} stderr={:?}", c.code, crate::drive::trunc(&String::from_utf8_lossy(&c.stdout), 160), crate::drive::trunc(&String::from_utf8_lossy(&c.stderr), 160));
                                let sig = format!("file read fails half way, policy {policy} pipeline {pname} file #{order}");
                                if c.timed_out || c.code == Some(101) || c.signal.is_some() {
                                    ctx.violation("read-fault-panic", &sig, &[rcase], "an error exit".into(), brief);
                                } else if reached && c.code == Some(0) {
                                    ctx.violation("read-fault-mistaken-for-eof-or-skipped", &sig, &[rcase], "a non-zero exit status (the run must stop and report)".into(), brief);
                                } else if reached && c.stderr.is_empty() {
                                    ctx.violation("read-fault-mistaken-for-eof-or-skipped", &sig, &[rcase], "a message on standard error".into(), brief);
                                } else if (pname == "stream" || pname == "select" || pname == "take") && !ff.stdout.starts_with(&rows_without_diagnostics(&c.stdout)) && policy != "stdout" {
                                    ctx.violation("output-not-a-prefix", &sig, &[rcase], format!("a prefix of {:?}", String::from_utf8_lossy(&ff.stdout)), brief);
                                } else {
                                    ctx.outcome("read-fault-err");
                                }
                            }
                        }
                        let _ = std::fs::remove_file(&bad);
                        let _ = std::fs::remove_file(&good);
                    }
                }
            }
            ctx.level_done("file-read-fails-after-every-number-of-bytes(real-binary-under-a-read-shim)");
        }
        _ => ctx.note("file-read-faults-half-way", "skipped: no C compiler to build the read(2) shim, or no jawk binary".into()),
    }
}
