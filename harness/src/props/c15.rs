//! C15 — csv/text rows have one field per selection and csv is machine-readable.

use super::{Prop, COMMON_ASSUMPTIONS};
use crate::ctx::{Ctx, Tier};
use crate::drive::Case;
use crate::refmodel::csv;
use crate::refmodel::decimal::Dec;
use crate::refmodel::json::{self, Num, V};

pub fn prop() -> Prop {
    Prop {
        id: "C15",
        level: "model_checking",
        rule: "values = 30 (all types, absent, empty string, strings with quote, comma, CR, LF, tab, blanks at both ends, non-ASCII, strings spelled like keywords and numbers, 64-bit and fractional numbers, nested values holding such strings); csv: every row of 1..2 selections (3 selections: quick a slice of 2 700 rows, thorough all 27 000) over the values x 4 sets of selection names (plain; with blank, comma, quote; non-ASCII; two selections sharing a name) and multi-record inputs; rows of 5 selections with a field of 15..8192 characters (quote, comma, line break or non-ASCII at the far end; long nested cells) in each column in turn; 100 and 1000 records in one run; text: every row of 1..2 selections over 24 values with an unambiguous spelling x every option set within 3 deviations of the defaults (thorough: the full product of 7 776 option sets) over items separator(4), string prefix/postfix(3), null/true/false keywords(3,2,2), missing-value keyword(3), --headers(2), escape sequences(5, two of them with a replacement that contains a character another sequence escapes), row separator(3); ~60 numbers in less common forms (17 significant digits, exponent forms, the ends of the 64-bit and double ranges) read from the input, taken out of a list by a function, re-made by parse and passed through a pipe, as csv and text fields that must read back as exactly that number; text with one off-nominal option value at a time (~80: empty strings, values beginning with - or holding = or a quote, several characters, non-ASCII, a blank, for the items and row separators, the string prefix/postfix and the four keywords); nested cells over the position grid (an atom of every kind at every position of every nesting shape of depth <=3, thorough 4) in csv and in text with the quote escaped; csv rows of 2 selections under four other row separators (CR LF, a bar, two line feeds, semicolon + line feed) with the output options in their short spellings (-o, -r); non-trivial = the row holds a string with a special character, a nested value, an absent value or a keyword look-alike; distinct by construction",
        explanation: "csv output is read back by an independent RFC 4180 reader (skip-initial-space): header = the names in order, N fields per record, each field recovered by type (string content, decimal spelling by exact value, True/False/null, concise JSON re-read by the strict reader and free of insignificant whitespace); text output is compared byte for byte with the rendering the option help pins (prefix + escaped characters + postfix, keywords, separators)",
        assumptions: COMMON_ASSUMPTIONS.to_vec(),
        guards: vec!["nested-cell-from-the-position-grid", "off-nominal-option-value", "number-in-a-less-common-form", "equals-signs-inside-the-selection", "non-ascii-text-before-the-selection-name", "long-fields", "quote-in-string", "comma-in-string", "newline-in-string", "absent-field", "nested-with-special-string", "header-with-special-name", "escape-sequence-applied", "missing-keyword-printed", "text-headers", "three-fields"],
        budget_s: (100, 1800),
        single_worker: false,
        run,
        recheck: None,
    }
}

/// (JSON text or None for absent)
const VALS: [Option<&str>; 38] = [
    None,
    Some("null"),
    Some("true"),
    Some("false"),
    Some("0"),
    Some("-1"),
    Some("12"),
    Some("1.5"),
    Some("-0.25"),
    Some("18446744073709551615"),
    Some("\"\""),
    Some("\"a\""),
    Some("\"a b\""),
    Some("\" a \""),
    Some("\"a,b\""),
    Some("\"say \\\"hi\\\"\""),
    Some("\"line1\\nline2\""),
    Some("\"cr\\rlf\""),
    Some("\"tab\\there\""),
    Some("\"é\""),
    Some("\"😃\""),
    Some("\"null\""),
    Some("\"True\""),
    Some("\"1.5\""),
    Some("[]"),
    Some("[1,\"a,b\"]"),
    Some("{\"k\":\"v\\\"q\"}"),
    Some("{\"a\":[1,{\"b\":null}]}"),
    Some("[\"x\\ny\"]"),
    Some("1e300"),
    Some("[\"\u{e9}\",\"\u{1f603}\"]"),
    Some("{\"k\u{1f603}\":\"\u{20ac}\"}"),
    Some("\"p;q;\""),
    Some("[\";\",{\"k;\":1}]"),
    Some("\"=SUM(A1:A9)\""),
    Some("\"@alice\""),
    Some("\"+1-2\""),
    Some("[\"\\u001b[0m\",{\"k\\u0001\":\"\\u007f\\u001f\"}]"),
];

const NAMES: [[&str; 3]; 5] = [["a", "b", "c"], ["first name", "x,y", "q\"r"], ["é", "ñame", "日本"], ["v", "v", "w"], ["@id", "-x", "+y"]];

fn record(idx: &[usize]) -> String {
    let mut s = String::from("{");
    let mut first = true;
    for (j, i) in idx.iter().enumerate() {
        if let Some(t) = VALS[*i] {
            if !first {
                s.push(',');
            }
            first = false;
            s.push_str(&format!("\"c{j}\":{t}"));
        }
    }
    s.push('}');
    s
}

fn has_ws_outside_strings(t: &str) -> bool {
    let mut in_str = false;
    let mut esc = false;
    for c in t.chars() {
        if in_str {
            if esc {
                esc = false;
            } else if c == '\\' {
                esc = true;
            } else if c == '"' {
                in_str = false;
            }
        } else if c == '"' {
            in_str = true;
        } else if c.is_whitespace() {
            return true;
        }
    }
    false
}

/// does the csv field carry the value?
fn field_ok(f: &csv::Field, v: &Option<V>) -> Result<(), String> {
    match v {
        None => {
            if f.quoted || !f.text.is_empty() {
                return Err("an absent value must be an empty field".into());
            }
        }
        Some(V::Null) => {
            if f.quoted || f.text != "null" {
                return Err("null must be the bare word null".into());
            }
        }
        Some(V::Bool(x)) => {
            if f.quoted || f.text != if *x { "True" } else { "False" } {
                return Err("booleans must be the bare words True / False".into());
            }
        }
        Some(V::Num(n)) => {
            if f.quoted {
                return Err("numbers must not be quoted".into());
            }
            let ok = match n {
                Num::Int(i) => Dec::parse(&f.text).map(|d| d.eq(&Dec::parse(&i.to_string()).unwrap())).unwrap_or(false),
                Num::F(x) => Dec::parse(&f.text).is_some() && f.text.parse::<f64>().map(|y| y == *x).unwrap_or(false),
            };
            if !ok {
                return Err("the field is not a decimal spelling of the number".into());
            }
        }
        Some(V::Str(s)) => {
            if !f.quoted || f.text != *s {
                return Err("the field must be the quoted string content".into());
            }
        }
        Some(other) => {
            if !f.quoted {
                return Err("nested values must be quoted".into());
            }
            match json::parse_one(f.text.as_bytes()) {
                Ok(x) if x == *other => {
                    if has_ws_outside_strings(&f.text) {
                        return Err("nested JSON text is not concise".into());
                    }
                }
                _ => return Err("the field is not the JSON text of the value".into()),
            }
        }
    }
    Ok(())
}

fn nontrivial_val(i: usize) -> bool {
    matches!(i, 0 | 10 | 13..=18 | 21..=23 | 25..=28 | 30..=37)
}

fn csv_part(ctx: &mut Ctx) {
    let nmax = 3usize;
    let quick = ctx.tier == Tier::Quick;
    for n in 1..=nmax {
        let mut todo: Vec<Vec<usize>> = Vec::new();
        crate::explore::seqs_exact(VALS.len(), n, |i| todo.push(i.to_vec()));
        for idx in todo {
            if !ctx.mine() {
                continue;
            }
            for (ni, names) in NAMES.iter().enumerate() {
                if n == 3 && quick && !((ni == 1 || ni == 3) && matches!(idx[0], 0 | 15 | 25)) {
                    continue;
                }
                if n == 3 && quick && ni > 0 && ni != 3 && idx[0] % 5 != 0 {
                    continue;
                }
                let mut args: Vec<String> = vec!["--output-style=csv".into()];
                for j in 0..n {
                    if ni == 0 && j == n - 1 {
                        // the expression itself holds `=` signs (and the name follows the last one)
                        args.push(format!("--select=(? (!= \"a=b\" \"=\") .c{j} .nokey)={}", names[j]));
                        ctx.guard("equals-signs-inside-the-selection");
                    } else if ni == 2 || (ni == 1 && j == 1) {
                        // the same value through an expression that holds non-ASCII text in front of the name
                        args.push(format!("--select=(| (push [] . \"\u{e9}\u{20ac}\u{1f603}\") #0 .c{j})={}", names[j]));
                        ctx.guard("non-ascii-text-before-the-selection-name");
                    } else {
                        args.push(format!("--select=.c{j}={}", names[j]));
                    }
                }
                // two records per run: the row under test and a fixed one (record framing)
                let input = format!("{}\n{{\"c0\":\"end\"}}\n", record(&idx));
                let case = Case::owned(args, input.into_bytes());
                let obs = ctx.run(&case);
                ctx.case_done();
                ctx.trace_validated();
                if idx.iter().any(|i| nontrivial_val(*i)) {
                    ctx.nontrivial();
                }
                for i in &idx {
                    match *i {
                        0 => ctx.guard("absent-field"),
                        15 => ctx.guard("quote-in-string"),
                        14 => ctx.guard("comma-in-string"),
                        16 => ctx.guard("newline-in-string"),
                        25 | 26 | 28 => ctx.guard("nested-with-special-string"),
                        _ => {}
                    }
                }
                if ni == 1 {
                    ctx.guard("header-with-special-name");
                }
                if n == 3 {
                    ctx.guard("three-fields");
                }
                let sig_vals: Vec<String> = idx.iter().map(|i| match VALS[*i] { None => "absent".to_string(), Some(t) => json::parse_str(t).type_name().to_string() }).collect();
                let sig = format!("csv names#{ni} [{}]", sig_vals.join(","));
                ctx.transition(&(n, ni, sig_vals.clone()));
                if !obs.res.is_ok() || !obs.stderr.is_empty() {
                    ctx.violation("csv-run-failed", &sig, &[case.clone()], "Ok".into(), obs.brief());
                    continue;
                }
                let text = match String::from_utf8(obs.stdout.clone()) {
                    Ok(t) => t,
                    Err(_) => {
                        ctx.violation("csv-not-utf8", &sig, &[case.clone()], "UTF-8".into(), obs.brief());
                        continue;
                    }
                };
                let recs = match csv::read(&text, "\n") {
                    Ok(r) => r,
                    Err(e) => {
                        ctx.outcome("violation");
                        ctx.violation("csv-not-readable-by-an-rfc4180-reader", &sig, &[case.clone()], "header + 2 records".into(), format!("{e}: {:?}", text));
                        continue;
                    }
                };
                let mut fail: Option<String> = None;
                if recs.len() != 3 {
                    fail = Some(format!("{} records instead of header + 2", recs.len()));
                } else {
                    for (ri, r) in recs.iter().enumerate() {
                        if r.len() != n {
                            fail = Some(format!("record {ri} has {} fields instead of {n}", r.len()));
                        }
                    }
                }
                if fail.is_none() {
                    for j in 0..n {
                        if !recs[0][j].quoted || recs[0][j].text != names[j] {
                            fail = Some(format!("header field {j} is {:?}, not the selection name {:?}", recs[0][j].text, names[j]));
                        }
                        let v = VALS[idx[j]].map(json::parse_str);
                        if let Err(e) = field_ok(&recs[1][j], &v) {
                            fail = Some(format!("field {j} ({:?}, quoted={}): {e}", recs[1][j].text, recs[1][j].quoted));
                        }
                    }
                    if field_ok(&recs[2][0], &Some(V::s("end"))).is_err() || recs[2].iter().skip(1).any(|f| f.quoted || !f.text.is_empty()) {
                        fail = Some("the following record is damaged".into());
                    }
                }
                match fail {
                    Some(e) => {
                        ctx.outcome("violation");
                        ctx.violation("csv-field-not-recovered", &sig, &[case.clone()], "one field per selection, recovered by type".into(), format!("{e}; stdout {:?}", text));
                    }
                    None => ctx.outcome("csv-ok"),
                }
                ctx.sample(|| serde_json::json!({"args": case.args, "stdout": text}));
            }
        }
        ctx.level_done(&format!("csv:all-rows-of-{n}-selections"));
    }
}

// ------------------------------------------------------------------ text

#[derive(Clone)]
struct TextOpts {
    items: &'static str,
    prefix: &'static str,
    postfix: &'static str,
    null: &'static str,
    tru: &'static str,
    fals: &'static str,
    missing: Option<&'static str>,
    headers: bool,
    escapes: Vec<(char, &'static str)>,
    row: &'static str,
}

const DIMS: [usize; 9] = [4, 3, 3, 2, 2, 3, 2, 5, 3];

fn opts_of(ix: &[usize]) -> TextOpts {
    let (prefix, postfix) = [("", ""), ("'", "'"), ("<", ">>")][ix[1]];
    TextOpts {
        items: ["\t", ",", " | ", ";"][ix[0]],
        prefix,
        postfix,
        null: ["null", "NULL", ""][ix[2]],
        tru: ["true", "yes"][ix[3]],
        fals: ["false", "no"][ix[4]],
        missing: [None, Some("-"), Some("N/A")][ix[5]],
        headers: ix[6] == 1,
        escapes: [
            vec![],
            vec![('\t', "\\t"), ('\n', "\\n")],
            vec![('\'', "\\'"), (',', "\\,"), (';', "")],
            // the replacement of one sequence contains the character another one escapes (each character is escaped once)
            vec![(',', "\\,"), ('\\', "\\\\")],
            vec![('\\', "\\\\"), (',', "\\,"), ('a', ",a")],
        ][ix[7]]
        .clone(),
        row: ["\n", "\r\n", "\n---\n"][ix[8]],
    }
}

impl TextOpts {
    fn args(&self) -> Vec<String> {
        let mut a = vec!["--output-style=text".to_string()];
        let d = opts_of(&[0; 9]);
        if self.items != d.items {
            a.push(format!("--items-seperator={}", self.items));
        }
        if self.prefix != d.prefix {
            a.push(format!("--string-prefix={}", self.prefix));
        }
        if self.postfix != d.postfix {
            a.push(format!("--string-postfix={}", self.postfix));
        }
        if self.null != d.null {
            a.push(format!("--null-keyword={}", self.null));
        }
        if self.tru != d.tru {
            a.push(format!("--true-keyword={}", self.tru));
        }
        if self.fals != d.fals {
            a.push(format!("--false-keyword={}", self.fals));
        }
        if let Some(m) = self.missing {
            a.push(format!("--missing-value-keyword={m}"));
        }
        if self.headers {
            a.push("--headers".into());
        }
        for (c, s) in &self.escapes {
            a.push(format!("--escape-sequance={c}{s}"));
        }
        if self.row != d.row {
            a.push(format!("--row-seperator={}", self.row));
        }
        a
    }
    fn string(&self, s: &str) -> String {
        let mut out = String::from(self.prefix);
        for c in s.chars() {
            match self.escapes.iter().find(|(e, _)| *e == c) {
                Some((_, rep)) => out.push_str(rep),
                None => out.push(c),
            }
        }
        out.push_str(self.postfix);
        out
    }
    fn field(&self, v: &Option<V>) -> String {
        match v {
            None => self.missing.unwrap_or("").to_string(),
            Some(V::Null) => self.null.to_string(),
            Some(V::Bool(true)) => self.tru.to_string(),
            Some(V::Bool(false)) => self.fals.to_string(),
            Some(V::Num(Num::Int(i))) => i.to_string(),
            Some(V::Num(Num::F(f))) => format!("{f}"),
            Some(V::Str(s)) => self.string(s),
            // nested values: concise JSON text, handled like a string (the csv preset relies on exactly that)
            Some(other) => self.string(&json::to_text(other)),
        }
    }
}

/// values whose text spelling is beyond doubt (no 1e300, no control characters inside nested strings)
const TEXT_VALS: [usize; 30] = [0, 1, 2, 3, 4, 5, 6, 7, 8, 9, 10, 11, 12, 13, 14, 15, 16, 18, 19, 21, 24, 25, 26, 27, 30, 31, 32, 33, 34, 35];

fn text_part(ctx: &mut Ctx) {
    let kmax = ctx.tier.pick(3usize, 9);
    let mut sets: Vec<Vec<usize>> = Vec::new();
    crate::explore::product(&DIMS, |ix| {
        if ix.iter().filter(|x| **x != 0).count() <= kmax {
            sets.push(ix.to_vec());
        }
    });
    for ix in &sets {
        if !ctx.mine() {
            continue;
        }
        let o = opts_of(ix);
        let dev = ix.iter().filter(|x| **x != 0).count();
        let widths = if ctx.tier == Tier::Thorough { 3usize } else { 2 };
        for n in 1..=widths {
            if n >= 2 && dev > kmax.min(5) - 1 && ctx.tier == Tier::Quick {
                continue;
            }
            let mut todo: Vec<Vec<usize>> = Vec::new();
            crate::explore::seqs_exact(TEXT_VALS.len(), n, |i| todo.push(i.iter().map(|j| TEXT_VALS[*j]).collect()));
            // all rows of this width in one run would hide which row failed; one run per first value, all second values as records
            for first in TEXT_VALS {
                let rows: Vec<&Vec<usize>> = todo.iter().filter(|r| r[0] == first).collect();
                let mut args = o.args();
                let names = ["col a", "b", "c;d"];
                for j in 0..n {
                    if j == 1 {
                        args.push(format!("--select=(| (push [] . \"\u{e9}\u{20ac}\u{1f603}\") #0 .c{j})={}", names[j]));
                    } else {
                        args.push(format!("--select=.c{j}={}", names[j]));
                    }
                }
                let mut input = String::new();
                let mut expected = String::new();
                if o.headers {
                    let hs: Vec<String> = (0..n).map(|j| o.string(names[j])).collect();
                    expected.push_str(&hs.join(o.items));
                    expected.push_str(o.row);
                    ctx.guard("text-headers");
                }
                for r in &rows {
                    input.push_str(&record(r));
                    input.push('\n');
                    let fs: Vec<String> = r.iter().map(|i| o.field(&VALS[*i].map(json::parse_str))).collect();
                    expected.push_str(&fs.join(o.items));
                    expected.push_str(o.row);
                    if r.contains(&0) && o.missing.is_some() {
                        ctx.guard("missing-keyword-printed");
                    }
                    if r.iter().any(|i| nontrivial_val(*i)) {
                        ctx.nontrivial();
                    }
                }
                if !o.escapes.is_empty() && expected.contains('\\') {
                    ctx.guard("escape-sequence-applied");
                }
                let case = Case::owned(args, input.into_bytes());
                let obs = ctx.run(&case);
                ctx.case_done();
                ctx.trace_validated();
                ctx.state(&ix.clone());
                ctx.transition(&(ix.clone(), n, first));
                let sig = format!("text options-deviating:{:?} fields:{n}", ix.iter().enumerate().filter(|(_, x)| **x != 0).map(|(d, _)| ["items", "prefix/postfix", "null", "true", "false", "missing", "headers", "escape", "row"][d]).collect::<Vec<_>>());
                if !obs.res.is_ok() || obs.stdout != expected.as_bytes() {
                    ctx.outcome("violation");
                    ctx.violation("text-output-differs-from-the-documented-rendering", &sig, &[case.clone()], format!("{expected:?}"), obs.brief());
                } else {
                    ctx.outcome("text-ok");
                }
                ctx.sample(|| serde_json::json!({"args": case.args, "stdout": obs.out_str()}));
            }
        }
        if ctx.time_up() {
            ctx.cap("text option sets");
            return;
        }
    }
    ctx.level_done(&format!("text:{}-option-sets-within-{kmax}-deviations", sets.len()));
}

/// csv with another row separator, and the short spellings of the two output options: the records are still one per
/// separator, the fields unchanged.
fn csv_row_separators(ctx: &mut Ctx) {
    let mut todo: Vec<Vec<usize>> = Vec::new();
    crate::explore::seqs_exact(VALS.len(), 2, |i| todo.push(i.to_vec()));
    for idx in todo {
        if !ctx.mine() {
            continue;
        }
        for (si, (sep, style_arg, sep_arg)) in [("\r\n", "--output-style=csv", "--row-seperator=\r\n"), ("|", "-ocsv", "-r|"), ("\n\n", "--output-style=csv", "-r=\n\n"), (";\n", "-o=csv", "--row-seperator=;\n")].iter().enumerate() {
            if (idx[0] + idx[1] + si) % 2 == 1 {
                continue;
            }
            let args: Vec<String> = vec![style_arg.to_string(), "--select=.c0=a".into(), sep_arg.to_string(), "--select=.c1=b".into()];
            let input = format!("{}\n{{\"c0\":\"end\"}}\n", record(&idx));
            let case = Case::owned(args, input.into_bytes());
            let obs = ctx.run(&case);
            ctx.case_done();
            ctx.trace_validated();
            ctx.guard("csv-with-another-row-separator");
            ctx.transition(&("csv-rowsep", si, idx[0] % 7));
            let text = obs.out_str();
            let mut fail: Option<String> = None;
            match csv::read(&text, sep) {
                Ok(recs) if obs.res.is_ok() && recs.len() == 3 && recs.iter().all(|r| r.len() == 2) => {
                    for j in 0..2 {
                        let v = VALS[idx[j]].map(json::parse_str);
                        if let Err(e) = field_ok(&recs[1][j], &v) {
                            fail = Some(format!("field {j}: {e}"));
                        }
                    }
                    if recs[0][0].text != "a" || recs[0][1].text != "b" || recs[2][0].text != "end" {
                        fail = Some("header or following record damaged".into());
                    }
                }
                Ok(recs) => fail = Some(format!("{} records ({})", recs.len(), obs.res.short())),
                Err(e) => fail = Some(e),
            }
            match fail {
                Some(e) => {
                    ctx.outcome("violation");
                    ctx.violation("csv-field-not-recovered", &format!("csv with the row separator {sep:?} given as {sep_arg:?} and the style as {style_arg:?}"), &[case.clone()], "header + 2 records of 2 fields, framed by the separator".into(), format!("{e}; stdout {text:?}"));
                }
                None => ctx.outcome("csv-ok"),
            }
        }
    }
    ctx.level_done("csv:other-row-separators-and-short-option-spellings");
}

/// Nested cells over the position grid: a cell that is an array or object with an atom of every kind (strings and
/// containers among them) at every position of every nesting shape, in csv (one quoted field that reads back as the
/// value) and in text with the quote escaped (byte for byte the documented rendering).
fn nested_cells_grid(ctx: &mut Ctx) {
    use crate::refmodel::spell;
    let gdepth = ctx.tier.pick(3, 4);
    let atoms = spell::grid_atoms();
    let names = spell::grid_names();
    let mut shapes: Vec<Vec<usize>> = Vec::new();
    for dd in 1..=gdepth {
        crate::explore::seqs_exact(spell::GRID_WRAPPERS, dd, |s| shapes.push(s.to_vec()));
    }
    let mut topts = opts_of(&[0; 9]);
    topts.escapes = vec![('"', "\\\"")];
    for (si, shape) in shapes.iter().enumerate() {
        if !ctx.mine() {
            continue;
        }
        for (ai, atom) in atoms.iter().enumerate() {
            let name = names[(si + ai) % names.len()];
            let v = spell::grid_value(shape, name, atom);
            let input = format!("{{\"c0\": 1, \"c1\": {}, \"c2\": \"end\"}}\n", json::to_text(&v));
            ctx.guard("nested-cell-from-the-position-grid");
            ctx.transition(&("nested-grid", shape.len(), ai));
            // csv
            let args: Vec<String> = vec!["--output-style=csv".into(), "--select=.c0=a".into(), "--select=.c1=b".into(), "--select=.c2=c".into()];
            let case = Case::owned(args, input.clone().into_bytes());
            let obs = ctx.run(&case);
            ctx.case_done();
            ctx.trace_validated();
            ctx.nontrivial();
            let text = obs.out_str();
            let ok = obs.res.is_ok()
                && match csv::read(&text, "\n") {
                    Ok(r) => r.len() == 2 && r[1].len() == 3 && field_ok(&r[1][0], &Some(V::int(1))).is_ok() && field_ok(&r[1][1], &Some(v.clone())).is_ok() && field_ok(&r[1][2], &Some(V::s("end"))).is_ok(),
                    Err(_) => false,
                };
            if !ok {
                ctx.outcome("violation");
                ctx.violation("csv-field-not-recovered", &format!("csv nested cell of depth {} holding a {}", shape.len(), atom.type_name()), &[case.clone()], format!("three fields, the second the JSON text of {}", json::to_text(&v)), format!("stdout {text:?}"));
            } else {
                ctx.outcome("csv-ok");
            }
            // text, the quote escaped - for cells whose JSON text has one spelling only (a line feed in a member name may
            // be written \n or \u000a, 1e300 with or without an exponent: the csv half reads those back by value)
            if name.contains('\n') || name.contains('"') || matches!(atom, V::Num(Num::F(_))) {
                continue;
            }
            let mut targs = topts.args();
            targs.extend(["--select=.c0=a".to_string(), "--select=.c1=b".into(), "--select=.c2=c".into()]);
            let expected = format!("{}{}{}{}{}{}", topts.field(&Some(V::int(1))), topts.items, topts.field(&Some(v.clone())), topts.items, topts.field(&Some(V::s("end"))), topts.row);
            let tcase = Case::owned(targs, input.into_bytes());
            let tobs = ctx.run(&tcase);
            ctx.case_done();
            if !tobs.res.is_ok() || tobs.stdout != expected.as_bytes() {
                ctx.outcome("violation");
                ctx.violation("text-output-differs-from-the-documented-rendering", &format!("text nested cell of depth {} holding a {}", shape.len(), atom.type_name()), &[tcase.clone()], format!("{expected:?}"), tobs.brief());
            } else {
                ctx.outcome("text-ok");
            }
        }
    }
    ctx.level_done(&format!("nested-cells-over-the-position-grid(depth<={gdepth},csv-and-text-with-the-quote-escaped)"));
}

/// Numbers in less common forms (17 significant digits, exponent forms, the ends of the 64-bit and double ranges), read
/// from the input, taken out of a collection by a function, and re-made by parse: the csv / text field must be a decimal
/// spelling that reads back as exactly that number.
fn number_fields(ctx: &mut Ctx) {
    let mut lits: Vec<String> = crate::refmodel::spell::boundary_numbers().iter().filter(|n| !n.starts_with("-0")).map(|s| s.to_string()).collect();
    for l in ["0.30000000000000004", "123456789.12345679", "-122.41941550000001", "0.9999999999999999", "12345678.123456789", "9.247108346276967", "2.2250738585072014e-308", "4.9406564584124654e-324", "1.7976931348623157e308", "14.285714285714286", "0.1", "1e21", "1e-7", "123456789012345680000", "1.5e-10", "100000000000000000000", "0.000001", "33.333333333333336", "2.675", "1e15", "1e16", "123456789012345678", "4503599627370496.5"] {
        lits.push(l.to_string());
    }
    for (li, l) in lits.iter().enumerate() {
        if !ctx.mine() {
            continue;
        }
        let v = json::parse_str(l);
        let input = format!("{{\"n\":{l},\"l\":[0,{l}]}}\n");
        let selects = ["--select=.n=a", "--select=(get .l 1)=b", "--select=(parse (stringify .n))=c", "--select=(| .l (last .))=d"];
        for style in ["csv", "text"] {
            let mut args: Vec<String> = vec![format!("--output-style={style}")];
            args.extend(selects.iter().map(|s| s.to_string()));
            if style == "text" {
                args.push("--items-seperator=|".into());
            }
            let case = Case::owned(args, input.clone().into_bytes());
            let obs = ctx.run(&case);
            ctx.case_done();
            ctx.trace_validated();
            ctx.nontrivial();
            ctx.guard("number-in-a-less-common-form");
            ctx.transition(&("number-field", li, style));
            let sig = format!("{style} number field {l}");
            let text = obs.out_str();
            let fields: Vec<String> = if style == "csv" {
                match csv::read(&text, "\n") {
                    Ok(r) if r.len() == 2 && r[1].iter().all(|f| !f.quoted) => r[1].iter().map(|f| f.text.clone()).collect(),
                    _ => vec![],
                }
            } else {
                text.trim_end_matches('\n').split('|').map(|x| x.to_string()).collect()
            };
            let mut fail: Option<String> = None;
            if !obs.res.is_ok() || fields.len() != 4 {
                fail = Some(format!("{} fields instead of 4", fields.len()));
            } else {
                for (j, f) in fields.iter().enumerate() {
                    let ok = match &v {
                        V::Num(Num::Int(i)) => Dec::parse(f).map(|d| d.eq(&Dec::parse(&i.to_string()).unwrap())).unwrap_or(false),
                        V::Num(Num::F(x)) => Dec::parse(f).is_some() && f.parse::<f64>().map(|y| y == *x).unwrap_or(false),
                        _ => false,
                    };
                    if !ok {
                        fail = Some(format!("field {j} is {f:?}, which does not read back as {l}"));
                        break;
                    }
                }
            }
            match fail {
                Some(e) => {
                    ctx.outcome("violation");
                    ctx.violation("number-field-not-recovered", &sig, &[case.clone()], format!("four fields that read back as {l}"), format!("{e}; stdout {text:?}"));
                }
                None => ctx.outcome("number-ok"),
            }
        }
    }
    ctx.level_done(&format!("numbers-in-less-common-forms({}-numbers-x-4-routes-x-csv,text)", lits.len()));
}

/// Option values that are legal but off-nominal, one at a time next to the defaults: empty strings, values that begin
/// with `-` or hold `=` or a quote, several characters, characters beyond ASCII, a blank.
fn text_off_nominal(ctx: &mut Ctx) {
    let d = || opts_of(&[0; 9]);
    let mut sets: Vec<(String, TextOpts)> = Vec::new();
    for v in ["", "-", "--", "=", "a=b", "\"", "\u{2192}", " ", "||", "\\t", ", "] {
        let mut o = d();
        o.items = v;
        sets.push((format!("items-separator {v:?}"), o));
    }
    for v in ["-", "=", "\"", "\u{ab}", "--x", " ", "''"] {
        let mut o = d();
        o.prefix = v;
        sets.push((format!("string-prefix {v:?}"), o));
        let mut o = d();
        o.postfix = v;
        sets.push((format!("string-postfix {v:?}"), o));
        let mut o = d();
        o.prefix = v;
        o.postfix = v;
        sets.push((format!("string-prefix and -postfix {v:?}"), o));
    }
    for v in ["-", "=x", "NULL NULL", "\u{2205}", "\"null\"", "--null"] {
        let mut o = d();
        o.null = v;
        sets.push((format!("null-keyword {v:?}"), o));
        let mut o = d();
        o.tru = v;
        sets.push((format!("true-keyword {v:?}"), o));
        let mut o = d();
        o.fals = v;
        sets.push((format!("false-keyword {v:?}"), o));
        let mut o = d();
        o.missing = Some(v);
        sets.push((format!("missing-value-keyword {v:?}"), o));
    }
    for v in ["", ";", "--", "=\n", "\u{2028}", "\n\n", " "] {
        let mut o = d();
        o.row = v;
        sets.push((format!("row-separator {v:?}"), o));
        let mut o = d();
        o.row = v;
        o.headers = true;
        sets.push((format!("row-separator {v:?} with headers"), o));
    }
    let names = ["col a", "b"];
    for (what, o) in &sets {
        if !ctx.mine() {
            continue;
        }
        for first in TEXT_VALS {
            let mut args = o.args();
            // the defaults are left out by args(); an empty value has to be said
            for (opt, val, dflt) in [("--items-seperator", o.items, d().items), ("--string-prefix", o.prefix, d().prefix), ("--string-postfix", o.postfix, d().postfix), ("--null-keyword", o.null, d().null), ("--row-seperator", o.row, d().row)] {
                if val != dflt && !args.iter().any(|a| a.starts_with(&format!("{opt}="))) {
                    args.push(format!("{opt}={val}"));
                }
            }
            for (j, n) in names.iter().enumerate() {
                args.push(format!("--select=.c{j}={n}"));
            }
            let mut input = String::new();
            let mut expected = String::new();
            if o.headers {
                expected.push_str(&names.iter().map(|n| o.string(n)).collect::<Vec<_>>().join(o.items));
                expected.push_str(o.row);
            }
            for second in TEXT_VALS {
                let r = vec![first, second];
                input.push_str(&record(&r));
                input.push('\n');
                let fs: Vec<String> = r.iter().map(|i| o.field(&VALS[*i].map(json::parse_str))).collect();
                expected.push_str(&fs.join(o.items));
                expected.push_str(o.row);
            }
            let case = Case::owned(args, input.into_bytes());
            let obs = ctx.run(&case);
            ctx.case_done();
            ctx.trace_validated();
            ctx.nontrivial();
            ctx.guard("off-nominal-option-value");
            ctx.transition(&("off-nominal", what.clone(), first));
            if !obs.res.is_ok() || obs.stdout != expected.as_bytes() {
                ctx.outcome("violation");
                ctx.violation("text-output-differs-from-the-documented-rendering", &format!("text with {what}"), &[case.clone()], format!("{expected:?}"), obs.brief());
            } else {
                ctx.outcome("text-ok");
            }
        }
    }
    ctx.level_done(&format!("text:off-nominal-option-values({}-single-deviations)", sets.len()));
}

/// size thresholds for csv: long fields (quotes / commas / line breaks at the far end), long nested cells,
/// 4 and 5 selections, many records in one run
fn csv_sizes(ctx: &mut Ctx) {
    for n in [15usize, 31, 32, 33, 63, 64, 65, 127, 128, 129, 1023, 1024, 1025, 4096, 8192] {
        if !ctx.mine() {
            continue;
        }
        ctx.guard("long-fields");
        let body = "x".repeat(n - 1);
        let vals: Vec<V> = vec![
            V::Str(format!("{body}\"")),
            V::Str(format!("\"{body}")),
            V::Str(format!("{body},")),
            V::Str(format!("{body}\n")),
            V::Str(format!("{body}\u{e9}")),
            V::Arr(vec![V::Str(body.clone()), V::int(1)]),
            V::Obj(vec![(body.clone(), V::s("q\"r"))]),
            V::Arr((0..n.min(300)).map(|i| V::int(i as i128)).collect()),
        ];
        // five columns: a long value in each position in turn, the others short
        for (vi, v) in vals.iter().enumerate() {
            for pos in 0..5usize {
                let mut rec: Vec<(String, V)> = Vec::new();
                let mut expect: Vec<Option<V>> = Vec::new();
                for j in 0..5usize {
                    if j == pos {
                        rec.push((format!("c{j}"), v.clone()));
                        expect.push(Some(v.clone()));
                    } else if (j + vi) % 3 == 0 {
                        expect.push(None);
                    } else {
                        let short = if j % 2 == 0 { V::int(j as i128) } else { V::s("s,\"") };
                        rec.push((format!("c{j}"), short.clone()));
                        expect.push(Some(short));
                    }
                }
                let mut args: Vec<String> = vec!["--output-style=csv".into()];
                for j in 0..5 {
                    args.push(format!("--select=.c{j}=col {j}"));
                }
                let input = format!("{}\n{}\n", json::to_text(&V::Obj(rec.clone())), json::to_text(&V::Obj(rec)));
                let case = Case::owned(args, input.into_bytes());
                let obs = ctx.run(&case);
                ctx.case_done();
                ctx.trace_validated();
                ctx.nontrivial();
                let sig = format!("csv 5 columns, long {} of {n} in column {pos}", v.type_name());
                let text = String::from_utf8_lossy(&obs.stdout).into_owned();
                let mut fail: Option<String> = None;
                if !obs.res.is_ok() {
                    fail = Some(obs.res.short());
                } else {
                    match csv::read(&text, "\n") {
                        Err(e) => fail = Some(e),
                        Ok(recs) => {
                            if recs.len() != 3 || recs.iter().any(|r| r.len() != 5) {
                                fail = Some(format!("{} records with {:?} fields", recs.len(), recs.iter().map(|r| r.len()).collect::<Vec<_>>()));
                            } else {
                                for ri in 1..3 {
                                    for j in 0..5 {
                                        if let Err(e) = field_ok(&recs[ri][j], &expect[j]) {
                                            fail = Some(format!("record {ri} field {j}: {e}"));
                                        }
                                    }
                                }
                                for j in 0..5 {
                                    if recs[0][j].text != format!("col {j}") {
                                        fail = Some("header".into());
                                    }
                                }
                            }
                        }
                    }
                }
                if let Some(e) = fail {
                    ctx.violation("csv-field-not-recovered", &sig, &[case.clone()], "header + 2 records of 5 fields, each recovered by type".into(), format!("{e}; stdout starts {:?}", crate::drive::trunc(&text, 120)));
                } else {
                    ctx.outcome("csv-ok");
                }
            }
        }
    }
    // many records in one run
    for total in [100usize, 1000] {
        if !ctx.mine() {
            continue;
        }
        let mut input = String::new();
        for i in 0..total {
            input.push_str(&format!("{{\"a\":{i},\"b\":\"r{i},\\\"q\"}}\n"));
        }
        let case = Case::owned(vec!["--output-style=csv".into(), "--select=.a=a".into(), "--select=.b=b".into(), "--select=.zz=c".into()], input.into_bytes());
        let obs = ctx.run(&case);
        ctx.case_done();
        ctx.trace_validated();
        let text = String::from_utf8_lossy(&obs.stdout).into_owned();
        let ok = match csv::read(&text, "\n") {
            Ok(recs) => recs.len() == total + 1 && recs.iter().enumerate().skip(1).all(|(i, r)| r.len() == 3 && r[0].text == (i - 1).to_string() && r[1].quoted && r[1].text == format!("r{},\"q", i - 1) && !r[2].quoted && r[2].text.is_empty()),
            Err(_) => false,
        };
        if !ok || !obs.res.is_ok() {
            ctx.violation("csv-field-not-recovered", &format!("csv {total} records"), &[case.clone()], format!("{total} records of 3 fields"), crate::drive::trunc(&text, 200));
        }
    }
    ctx.level_done("csv:size-thresholds(fields-to-8192,5-columns,1000-records)");
}

fn run(ctx: &mut Ctx) {
    csv_part(ctx);
    csv_sizes(ctx);
    number_fields(ctx);
    csv_row_separators(ctx);
    nested_cells_grid(ctx);
    text_part(ctx);
    text_off_nominal(ctx);
    let _ = Tier::Quick;
}
