//! C09 — --group-by / --merge emit exactly one complete collection at end of input.

use super::c08::{group_rows, wrap_for_split};
use super::pipe;
use super::{Prop, COMMON_ASSUMPTIONS};
use crate::ctx::{Ctx, Tier};
use crate::drive::Case;
use crate::refmodel::eval;
use crate::refmodel::expr::p;
use crate::refmodel::json::{self, V};
use crate::refmodel::pipeline::{self, Config, Group};

pub fn prop() -> Prop {
    Prop {
        id: "C09",
        level: "model_checking",
        rule: "all streams of <=3 rows {k,v,id} over the 15 group keys {a key with a blank in front, one with a blank behind and one that is a blank (blanks are part of a key), \"a\",\"b\",\"\",\"é\",1,null,absent,\"ab\",\"null\",[\"a\"], a key ending in a backslash, a key holding backslash-t} and of 4 (thorough <=6) rows over an 8-key core of them (including the empty stream and streams whose every row is dropped) x 16 upstream pipelines (--skip 1 --take 2^64-1; --unique on a selection without the key; two selections under one name; take 35 and skip 3 take 100 among them; none, select, select of the key only (so that rows repeat), filter, unique, sort by id desc, sort by the mixed-type key, skip+take, split, take 0, select+sort+skip+take) x {--group-by=.k, --group-by=(get . \"k\"), --group-by=.k#0 (a key selection with an index step), --merge} x {json, text output}; long cyclic streams of 17, 40, 300 and 1100 rows; streams with 15..257 distinct keys each coming back; half of the cases of up to 4 rows also with the rows given as files (one row per file; two files); non-trivial = two rows share a key or a row is dropped for its key; distinct by construction; all streams of <=3 rows of every type (arrays, the empty array, objects, scalars, null) through --merge and a --group-by on the type, as input values and as split items, also behind --unique and --sort-by",
        explanation: "exactly one value must be printed, after the input ended; it is compared (a) with the documented grouping applied to the rows the same pipeline prints without grouping (differential) and (b) with the reference pipeline",
        assumptions: COMMON_ASSUMPTIONS.to_vec(),
        guards: vec!["rows-given-as-files", "rows-that-are-arrays", "command-line-respelled", "many-distinct-keys", "empty-input", "no-row-survives", "non-string-key-dropped", "absent-key-dropped", "two-rows-share-a-key", "limiter-before-grouper", "empty-string-key", "non-ascii-key", "text-output"],
        budget_s: (100, 2400),
        single_worker: false,
        run,
        recheck: None,
    }
}

fn keys() -> Vec<Option<V>> {
    vec![Some(V::s("a")), Some(V::s("b")), Some(V::s("")), Some(V::s("é")), Some(V::int(1)), Some(V::Null), None, Some(V::s("ab")), Some(V::s("null")), Some(V::Arr(vec![V::s("a")])), Some(V::s("a\\")), Some(V::s("x\\ty")), Some(V::s(" a")), Some(V::s("a ")), Some(V::s(" "))]
}

struct Up {
    name: &'static str,
    cfg: Config,
    split: bool,
    /// the printed rows carry the group key as their member `k` (so the grouping can be recomputed from them);
    /// otherwise only --merge is compared differentially and --group-by with the reference pipeline alone
    key_in_row: bool,
}

fn upstreams() -> Vec<Up> {
    let mk = |name: &'static str, f: &dyn Fn(&mut Config), split: bool| {
        let mut c = Config::default();
        f(&mut c);
        if split {
            c.split = Some(p(".rows"));
        }
        let key_in_row = c.selects.is_empty() || c.selects.iter().any(|(_, n)| n == "k") && c.selects.iter().filter(|(_, n)| n == "k").count() == 1;
        Up { name, cfg: c, split, key_in_row }
    };
    vec![
        mk("none", &|_| {}, false),
        mk("select", &|c| c.selects = vec![(p(".k"), "k".into()), (p(".id"), "id".into())], false),
        mk("select-k-only", &|c| c.selects = vec![(p(".k"), "k".into())], false),
        mk("filter", &|c| c.filter = Some(p("(!= .id 1)")), false),
        mk("unique-on-k", &|c| {
            c.selects = vec![(p(".k"), "k".into())];
            c.unique = true
        }, false),
        mk("sort-id-desc", &|c| c.sorts = vec![(p(".id"), true, "DESC")], false),
        mk("sort-k", &|c| c.sorts = vec![(p(".k"), false, "")], false),
        mk("skip1-take2", &|c| {
            c.skip = 1;
            c.take = Some(2)
        }, false),
        mk("split", &|_| {}, true),
        mk("take0", &|c| c.take = Some(0), false),
        // --unique on a selection that leaves the group key out: which of two equal rows survives decides the groups
        mk("unique-on-v", &|c| {
            c.selects = vec![(p(".v"), "v".into())];
            c.unique = true
        }, false),
        // two selections under one name (the row printed is the same row that is grouped / merged)
        mk("same-name-twice+unique", &|c| {
            c.selects = vec![(p(".v"), "x".into()), (p(".k"), "x".into())];
            c.unique = true
        }, false),
        mk("take35", &|c| c.take = Some(35), false),
        mk("skip3-take100", &|c| {
            c.skip = 3;
            c.take = Some(100)
        }, false),
        // limits whose sum does not fit in 64 bits: the rows after the first, all of them
        mk("skip1-take-max", &|c| {
            c.skip = 1;
            c.take = Some(u64::MAX)
        }, false),
        mk("select+sort+skip+take", &|c| {
            c.selects = vec![(p(".k"), "k".into()), (p(".id"), "id".into())];
            c.sorts = vec![(p("/id/"), true, "desc")];
            c.skip = 1;
            c.take = Some(3)
        }, false),
    ]
}

fn explore(ctx: &mut Ctx, up: &Up, rows: &[V]) {
    let inputs = if up.split { wrap_for_split(rows) } else { rows.to_vec() };
    // the rows the ungrouped pipeline prints (from the implementation)
    let base_case = pipe::case_for(&up.cfg, &inputs);
    let (_, out) = pipe::run_rows(ctx, &base_case, &format!("{} ungrouped", up.name));
    ctx.case_done();
    let r = match out {
        pipe::Outcome::Rows(r) => r,
        pipe::Outcome::Broken => return,
    };
    let _ = pipe::compare_with_model(ctx, &up.cfg, &inputs, &base_case, &r, "ungrouped-vs-reference-pipeline");
    if rows.is_empty() {
        ctx.guard("empty-input");
    } else if r.is_empty() {
        ctx.guard("no-row-survives");
    }
    let groupers: [(&str, Group); 4] = [("group-by", Group::By(p(".k"))), ("group-by-get", Group::By(p("(get . \"k\")"))), ("merge", Group::Merge), ("group-by-index-step", Group::By(p(".k#0")))];
    for (gname, g) in &groupers {
        for text in [false, true] {
            let mut cfg = up.cfg.clone();
            cfg.group = Some(g.clone());
            let mut args = cfg.args();
            if text {
                args.push("--output-style=text".into());
                ctx.guard("text-output");
            }
            let case = Case::owned(args, pipeline::input_text(&inputs));
            let sig = format!("{} {gname} {}", up.name, if text { "text" } else { "json" });
            let obs = ctx.run(&case);
            super::pipe::check_respelled(ctx, &case, &obs, &sig);
            // the same rows given as files (one row per file, and two files): the collection is the same and is emitted
            // all the same - the end of the input reaches the grouping stage wherever the input came from
            if inputs.len() >= 2 && inputs.len() <= 4 && (inputs.len() + gname.len() + text as usize) % 2 == 0 {
                for per_file in [1usize, inputs.len().div_ceil(2)] {
                    let files: Vec<(String, Vec<u8>)> = inputs.chunks(per_file).enumerate().map(|(i, ch)| (format!("g{i}.json"), pipeline::input_text(ch))).collect();
                    let mut fargs = case.args.clone();
                    // `--merge` takes an optional value: it must not be the word before the file names
                    if let Some(i) = fargs.iter().position(|a| a == "--merge" || a == "--group-by") {
                        let m = fargs.remove(i);
                        fargs.insert(0, m);
                        if fargs.len() == 1 {
                            fargs.push("--on-error=ignore".into());
                        }
                    }
                    let fcase = Case { args: fargs, input: crate::drive::Input::Files(files), rplan: Default::default(), wplan: Default::default() };
                    let fo = ctx.run(&fcase);
                    ctx.guard("rows-given-as-files");
                    if fo.res != obs.res || fo.stdout != obs.stdout {
                        ctx.violation("collection-depends-on-whether-the-input-comes-from-files", &format!("{sig} {} rows per file", per_file), &[fcase.clone(), case.clone()], obs.brief(), fo.brief());
                    }
                }
            }
            ctx.case_done();
            ctx.trace_validated();
            ctx.state(&(up.name, *gname, json::to_text(&V::Arr(r.clone()))));
            ctx.transition(&(up.name, *gname, text, r.len()));
            let differential = up.key_in_row || matches!(g, Group::Merge);
            let expected = group_rows(&r, g);
            // bookkeeping for the non-triviality rule and the guards
            let mut nontrivial = false;
            if let Group::By(_) = g {
                let mut seen: Vec<&V> = Vec::new();
                for row in &r {
                    match row.get("k") {
                        Some(k @ V::Str(s)) => {
                            if seen.contains(&k) {
                                nontrivial = true;
                                ctx.guard("two-rows-share-a-key");
                            }
                            seen.push(k);
                            if s.is_empty() {
                                ctx.guard("empty-string-key");
                            }
                            if !s.is_ascii() {
                                ctx.guard("non-ascii-key");
                            }
                        }
                        Some(_) => {
                            nontrivial = true;
                            ctx.guard("non-string-key-dropped");
                        }
                        None => {
                            nontrivial = true;
                            ctx.guard("absent-key-dropped");
                        }
                    }
                }
            } else {
                nontrivial = r.len() >= 2;
            }
            if cfg.skip > 0 || cfg.take.is_some() {
                ctx.guard("limiter-before-grouper");
            }
            if nontrivial {
                ctx.nontrivial();
            }
            if !obs.res.is_ok() || !obs.stderr.is_empty() {
                ctx.violation("run-failed", &sig, &[case.clone()], "Ok, empty stderr".into(), obs.brief());
                continue;
            }
            // exactly one value, then the row separator
            let got = match json::parse_rows(&obs.stdout, b"\n") {
                Ok(v) if v.len() == 1 => v.into_iter().next().unwrap(),
                Ok(v) => {
                    ctx.outcome("not-exactly-one");
                    ctx.violation(
                        "not-exactly-one-collection",
                        &format!("{sig} printed {}", if v.is_empty() { "nothing".to_string() } else { format!("{} values", v.len().min(3)) }),
                        &[case.clone(), base_case.clone()],
                        format!("exactly one value: {}", json::to_text(&expected)),
                        obs.brief(),
                    );
                    continue;
                }
                Err(e) => {
                    ctx.violation("stdout-not-one-value", &sig, &[case.clone()], json::to_text(&expected), format!("{e}: {}", obs.brief()));
                    continue;
                }
            };
            let mut ok = true;
            if differential && got != expected {
                ok = false;
                ctx.violation(
                    "collection-differs-from-grouping-of-the-ungrouped-rows",
                    &sig,
                    &[case.clone(), base_case.clone()],
                    json::to_text(&expected),
                    json::to_text(&got),
                );
            }
            if let Ok(m) = cfg.output(&inputs) {
                if m.len() != 1 || !eval::agrees(&m[0], &got, false) {
                    ok = false;
                    ctx.violation("collection-differs-from-reference-pipeline", &sig, &[case.clone()], pipe::texts(&m), json::to_text(&got));
                }
            }
            ctx.outcome(if !ok {
                "violation"
            } else {
                match &got {
                    V::Obj(o) if o.is_empty() => "ok-empty-object",
                    V::Arr(a) if a.is_empty() => "ok-empty-array",
                    V::Obj(_) => "ok-object",
                    _ => "ok-array",
                }
            });
            ctx.sample(|| serde_json::json!({"args": case.args, "ungrouped": pipe::texts(&r), "got": json::to_text(&got)}));
        }
    }
}

fn run(ctx: &mut Ctx) {
    let ks = keys();
    let ups = upstreams();
    let maxlen = ctx.tier.pick(4usize, 6);
    for len in 0..=maxlen {
        // every key for streams of <= 3 rows; longer streams over a 7-key core (two strings, the empty string, a number,
        // null, an absent key, a key that ends in a backslash)
        const CORE_KEYS: [usize; 8] = [0, 1, 2, 4, 5, 6, 10, 12];
        let mut todo: Vec<Vec<usize>> = Vec::new();
        if len <= 3 {
            crate::explore::seqs_exact(ks.len(), len, |i| todo.push(i.to_vec()));
        } else {
            crate::explore::seqs_exact(CORE_KEYS.len(), len, |i| todo.push(i.iter().map(|j| CORE_KEYS[*j]).collect()));
        }
        for idx in todo {
            if !ctx.mine() {
                continue;
            }
            let rows = pipe::rows_from(&ks, &idx);
            for up in &ups {
                explore(ctx, up, &rows);
            }
            if ctx.time_up() {
                ctx.cap(&format!("streams of length {len}"));
                return;
            }
        }
        ctx.level_done(&format!("all-streams-of-{len}-rows"));
    }
    for total in [17usize, 40, 300, 1100] {
        for blen in 1..=(if total > 40 { 1 } else { ctx.tier.pick(2usize, 3) }) {
            let mut todo: Vec<Vec<usize>> = Vec::new();
            crate::explore::seqs_exact(ks.len(), blen, |i| todo.push(i.to_vec()));
            for base in todo {
                if !ctx.mine() {
                    continue;
                }
                let idx: Vec<usize> = if total > 40 { (0..total).map(|i| (i * 5 + i / 3 + base[0]) % ks.len()).collect() } else { (0..total).map(|i| base[i % base.len()]).collect() };
                let rows = pipe::rows_from(&ks, &idx);
                for up in &ups {
                    explore(ctx, up, &rows);
                }
                if ctx.time_up() {
                    ctx.cap("long families");
                    return;
                }
            }
        }
        ctx.level_done(&format!("cyclic-streams-of-{total}-rows"));
    }
    // many distinct keys (tables that change representation beyond a number of groups), each key coming back later
    for nkeys in [15usize, 16, 17, 24, 25, 26, 33, 64, 65, 100, 257] {
        if !ctx.mine() {
            continue;
        }
        let many: Vec<Option<V>> = (0..nkeys).map(|i| Some(V::Str(format!("g{i}")))).chain([None, Some(V::int(5))]).collect();
        for pattern in 0..3usize {
            let total = nkeys * 2 + 7;
            let idx: Vec<usize> = (0..total)
                .map(|i| match pattern {
                    0 => i % nkeys,                       // all keys once, then again in the same order
                    1 => (i * 7 + i / nkeys) % (nkeys + 2), // scattered, with absent and non-string keys in between
                    _ => if i < nkeys { i } else { nkeys - 1 - (i % nkeys) }, // first-seen order, then reversed
                })
                .collect();
            let rows = pipe::rows_from(&many, &idx);
            ctx.guard("many-distinct-keys");
            for up in &ups {
                explore(ctx, up, &rows);
            }
        }
    }
    ctx.level_done("many-distinct-keys(15..257)-each-coming-back");
    // rows of every type (arrays, an empty array, scalars, null, objects): a collected row is ONE member of the
    // collection whatever its type, also when it is a split item that is itself an array
    {
        let vals: Vec<V> = ["[1, 2]", "[]", "{\"k\": \"a\"}", "5", "[[3], \"x\"]", "null", "\"s\""].iter().map(|t| json::parse_str(t)).collect();
        let groupings: [Option<Group>; 2] = [Some(Group::Merge), Some(Group::By(p("(? (array? .) \"arr\" (? (object? .) .k \"other\"))")))];
        let mut seqs: Vec<Vec<usize>> = Vec::new();
        crate::explore::seqs_upto(vals.len(), 3, |s| seqs.push(s.to_vec()));
        for s in seqs {
            if !ctx.mine() {
                continue;
            }
            let rows: Vec<V> = s.iter().map(|i| vals[*i].clone()).collect();
            for g in &groupings {
                for split in [false, true] {
                    for extra in 0..3usize {
                        let mut cfg = Config::default();
                        cfg.group = g.clone();
                        let inputs: Vec<V> = if split {
                            cfg.split = Some(p(".rows"));
                            vec![V::Obj(vec![("rows".into(), V::Arr(rows.clone()))])]
                        } else {
                            rows.clone()
                        };
                        match extra {
                            1 => cfg.unique = true,
                            2 => cfg.sorts = vec![(p("(stringify .)"), true, "DESC")],
                            _ => {}
                        }
                        let case = pipe::case_for(&cfg, &inputs);
                        let sig = format!("rows of every type, {}", pipe::shape(&cfg));
                        let (_, out) = pipe::run_rows(ctx, &case, &sig);
                        ctx.case_done();
                        ctx.trace_validated();
                        ctx.guard("rows-that-are-arrays");
                        if s.iter().any(|i| matches!(vals[*i], V::Arr(_))) {
                            ctx.nontrivial();
                        }
                        if let pipe::Outcome::Rows(got) = out {
                            let _ = pipe::compare_with_model(ctx, &cfg, &inputs, &case, &got, "collection-differs-from-reference-pipeline");
                        }
                    }
                }
            }
        }
        ctx.level_done("rows-of-every-type(<=3-rows-x-merge/group-x-split-x-unique/sort)");
    }
    let _ = Tier::Quick;
}
