//! C08 — --skip S --take T pick exactly rows S..S+T-1 of the unlimited result, always.

use super::pipe::{self, Outcome};
use super::{Prop, COMMON_ASSUMPTIONS};
use crate::ctx::{Ctx, Tier};
use crate::refmodel::expr::p;
use crate::refmodel::json::{self, V};
use crate::refmodel::pipeline::{Config, Group};

pub fn prop() -> Prop {
    Prop {
        id: "C08",
        level: "model_checking",
        rule: "all streams of <=4 (thorough <=6) rows {k,v,id} over the keys {a,b,c,absent} (ids make tied rows distinguishable) plus every stream of <=3 rows repeated cyclically to 17 and 40 rows, and streams of 257 and 1030 rows (S,T around 255..257 and the end) x 17 pipelines (rows that show &index and &index-in-file; --unique on a selection with a sort key that is not selected; none; sort on selected names; a selection under which rows repeat; 1,2,3 sort keys with ties in both directions; unique; unique+sort on a selected name; filter; filter+sort; split; split+sort) x {no grouping, --group-by, --merge} x S in 0..3 (thorough 0..6; long: 0,1,5,16,17,39,40,41) x T in {absent,0..3} (thorough 0..6; long: 0,1,5,16,17,40,41); for half of the (S,T) the same input is also given as two and three files; non-trivial = the cut S+T falls inside the unlimited result and a tie straddles it, or a grouping stage follows the limiter; distinct by construction; streams of 2..3 (thorough 4) rows over 8 sort keys of other types (objects and arrays that differ only in member order, 1 and 1.0, null, a string) through every sorting pipeline; 10 (S,T) pairs at the edge of the 64-bit range (2^64-1 alone and together, sums that do not fit) through every pipeline",
        explanation: "differential: the rows R of the same pipeline without --skip/--take (and without grouping) are obtained from the implementation; with the limits the output must be exactly R[S..S+T), and with grouping the single collection built from exactly those rows; every case is also compared with the reference pipeline (stable multi-key sort, first key most significant)",
        assumptions: COMMON_ASSUMPTIONS.to_vec(),
        guards: vec!["skip-plus-take-beyond-64-bits", "sort-keys-that-are-objects", "file-without-values-between-files", "command-line-respelled", "input-spread-over-files", "hundreds-of-rows", "cut-inside-a-tie", "limiter-before-grouper", "secondary-key-with-take", "take-zero", "skip-beyond-end", "more-rows-than-skip-plus-take-under-sort"],
        budget_s: (100, 2400),
        single_worker: false,
        run,
        recheck: None,
    }
}

pub fn keys() -> Vec<Option<V>> {
    vec![Some(V::s("a")), Some(V::s("b")), Some(V::s("c")), None]
}

struct Pl {
    name: &'static str,
    cfg: Config,
    split: bool,
    sort_keys: usize,
}

fn pipelines() -> Vec<Pl> {
    let s = |e: &str, d: bool, t: &'static str| (p(e), d, t);
    let mk = |name: &'static str, f: &dyn Fn(&mut Config), split: bool| {
        let mut c = Config::default();
        f(&mut c);
        if split {
            c.split = Some(p(".rows"));
        }
        let n = c.sorts.len();
        Pl { name, cfg: c, split, sort_keys: n }
    };
    vec![
        mk("none", &|_| {}, false),
        mk("sort-k", &|c| c.sorts = vec![s(".k", false, "")], false),
        mk("sort-k-desc", &|c| c.sorts = vec![s(".k", true, "DESC")], false),
        mk("sort-k,v", &|c| c.sorts = vec![s(".k", false, "asc"), s(".v", false, "")], false),
        mk("sort-v-desc,k", &|c| c.sorts = vec![s(".v", true, "desc"), s(".k", false, "ASC")], false),
        mk("sort-k,v-desc,id-desc", &|c| c.sorts = vec![s(".k", false, ""), s(".v", true, "Desc"), s(".id", true, "DESC")], false),
        mk("select-k-only", &|c| c.selects = vec![(p(".k"), "k".into())], false),
        mk("unique-on-k", &|c| {
            c.selects = vec![(p(".k"), "k".into())];
            c.unique = true
        }, false),
        mk("select-k+sort-selected", &|c| {
            c.selects = vec![(p(".k"), "k".into()), (p(".id"), "id".into())];
            c.sorts = vec![s("/k/", false, ""), s("/id/", true, "DESC")]
        }, false),
        // rows that show their own position in the input
        mk("select-position", &|c| c.selects = vec![(p("&index"), "i".into()), (p("&index-in-file"), "j".into()), (p(".k"), "k".into())], false),
        // rows that --unique calls equal carry different sort keys (the key is not among the selected values)
        mk("unique-on-k+sort-id-desc", &|c| {
            c.selects = vec![(p(".k"), "k".into())];
            c.unique = true;
            c.sorts = vec![s(".id", true, "DESC")]
        }, false),
        mk("unique-on-k+sort-v,id", &|c| {
            c.selects = vec![(p(".k"), "k".into())];
            c.unique = true;
            c.sorts = vec![s(".v", false, ""), s(".id", true, "desc")]
        }, false),
        mk("unique-on-k+sort-selected-desc", &|c| {
            c.selects = vec![(p(".k"), "k".into())];
            c.unique = true;
            c.sorts = vec![s("/k/", true, "DESC")]
        }, false),
        mk("filter", &|c| c.filter = Some(p("(!= .k \"b\")")), false),
        mk("filter+sort-v", &|c| {
            c.filter = Some(p("(!= .k \"b\")"));
            c.sorts = vec![s(".v", false, "")]
        }, false),
        mk("split", &|_| {}, true),
        mk("split+sort-k-desc", &|c| c.sorts = vec![s(".k", true, "DESC")], true),
    ]
}

/// the documented grouping applied to printed rows (key = their `k` member)
pub fn group_rows(rows: &[V], g: &Group) -> V {
    match g {
        Group::Merge => V::Arr(rows.to_vec()),
        Group::By(key) => {
            let mut groups: Vec<(String, Vec<V>)> = Vec::new();
            for r in rows {
                // the key expression of the menu reads the row only (`.k`, `(get . "k")`, `.k#0`): the reference
                // evaluator says what it is for this row
                let k = crate::refmodel::eval::eval(key, &crate::refmodel::eval::Env::of(r.clone())).ok().flatten();
                if let Some(V::Str(k)) = &k {
                    match groups.iter_mut().find(|(kk, _)| kk == k) {
                        Some((_, l)) => l.push(r.clone()),
                        None => groups.push((k.clone(), vec![r.clone()])),
                    }
                }
            }
            V::Obj(groups.into_iter().map(|(k, l)| (k, V::Arr(l))).collect())
        }
    }
}

pub fn wrap_for_split(rows: &[V]) -> Vec<V> {
    rows.chunks(2).map(|c| V::Obj(vec![("rows".into(), V::Arr(c.to_vec()))])).collect()
}

fn explore(ctx: &mut Ctx, pl: &Pl, rows: &[V], ss: &[u64], ts: &[Option<u64>]) {
    let inputs = if pl.split { wrap_for_split(rows) } else { rows.to_vec() };
    // unlimited, ungrouped result from the implementation
    let base_case = pipe::case_for(&pl.cfg, &inputs);
    let (_, out) = pipe::run_rows(ctx, &base_case, &format!("{} unlimited", pl.name));
    ctx.case_done();
    let r = match out {
        Outcome::Rows(r) => r,
        Outcome::Broken => return,
    };
    let _ = pipe::compare_with_model(ctx, &pl.cfg, &inputs, &base_case, &r, "unlimited-vs-reference-pipeline");
    ctx.state(&(pl.name, json::to_text(&V::Arr(r.clone()))));
    let groups: [Option<Group>; 3] = [None, Some(Group::By(p(".k"))), Some(Group::Merge)];
    for s in ss {
        for t in ts {
            for g in &groups {
                let mut cfg = pl.cfg.clone();
                cfg.skip = *s;
                cfg.take = *t;
                cfg.group = g.clone();
                if *s == 0 && t.is_none() && g.is_none() {
                    continue;
                }
                let case = pipe::case_for(&cfg, &inputs);
                let gname = match g {
                    None => "rows",
                    Some(Group::By(_)) => "group-by",
                    Some(Group::Merge) => "merge",
                };
                let sig = format!("{} {}", pl.name, gname);
                let (_, out) = pipe::run_rows_respelled(ctx, &case, &sig);
                ctx.case_done();
                ctx.trace_validated();
                ctx.transition(&(pl.name, gname, *s, *t, r.len()));
                let lo = (*s as usize).min(r.len());
                let hi = match t {
                    Some(t) => lo.saturating_add(*t as usize).min(r.len()),
                    None => r.len(),
                };
                let cut_inside = t.is_some() && (*s as usize).saturating_add(t.unwrap() as usize) < r.len();
                let mut nontrivial = g.is_some();
                if *t == Some(0) {
                    ctx.guard("take-zero");
                }
                if *s as usize > r.len() {
                    ctx.guard("skip-beyond-end");
                }
                if g.is_some() && (*s > 0 || t.is_some()) {
                    ctx.guard("limiter-before-grouper");
                }
                if cut_inside && pl.sort_keys > 0 {
                    ctx.guard("more-rows-than-skip-plus-take-under-sort");
                    if pl.sort_keys > 1 {
                        ctx.guard("secondary-key-with-take");
                    }
                    // a tie straddles the cut: the rows on both sides agree on the first sort key
                    if hi > 0 && hi < r.len() {
                        let first_key = |v: &V| match pl.name {
                            "sort-v-desc,k" | "filter+sort-v" => v.get("v").cloned(),
                            _ => v.get("k").cloned(),
                        };
                        if first_key(&r[hi - 1]) == first_key(&r[hi]) {
                            ctx.guard("cut-inside-a-tie");
                            nontrivial = true;
                        }
                    }
                }
                if nontrivial {
                    ctx.nontrivial();
                }
                let got = match out {
                    Outcome::Rows(x) => x,
                    Outcome::Broken => {
                        ctx.outcome("broken");
                        continue;
                    }
                };
                let expected: Vec<V> = match g {
                    None => r[lo..hi].to_vec(),
                    Some(g) => vec![group_rows(&r[lo..hi], g)],
                };
                let mut ok = true;
                if got != expected {
                    ok = false;
                    let kind = pipe::diff_kind(&expected, &got);
                    ctx.violation(
                        if g.is_some() { "collection-not-built-from-rows-S..S+T" } else { "not-rows-S..S+T-of-the-unlimited-result" },
                        &format!("{sig} {}{} {kind}", if *s > 0 { "skip " } else { "" }, if t.is_some() { "take" } else { "" }),
                        &[case.clone(), base_case.clone()],
                        format!("rows {lo}..{hi} of the unlimited result {}: {}", pipe::texts(&r), pipe::texts(&expected)),
                        pipe::texts(&got),
                    );
                }
                if pipe::compare_with_model(ctx, &cfg, &inputs, &case, &got, "limited-vs-reference-pipeline") == Some(false) {
                    ok = false;
                }
                // the same input spread over two or three files gives the same result (the limits count rows of the run)
                if inputs.len() >= 2 && pl.name != "select-position" && (*s > 0 || t.is_some()) && s.wrapping_add(t.unwrap_or(0)) % 2 == 1 {
                    let cutpoints: Vec<Vec<usize>> = if inputs.len() >= 3 { vec![vec![1], vec![1, 2]] } else { vec![vec![1]] };
                    for cuts in cutpoints {
                        let mut files: Vec<(String, Vec<u8>)> = Vec::new();
                        let mut prev = 0usize;
                        for (fi, c) in cuts.iter().chain(std::iter::once(&inputs.len())).enumerate() {
                            files.push((format!("{}{fi}.json", ["q", "b", "m"][fi % 3]), crate::refmodel::pipeline::input_text(&inputs[prev..*c])));
                            prev = *c;
                        }
                        // a file that holds no value (empty, or white space only) between the others changes nothing
                        if cuts.len() == 1 {
                            files.insert(1, ("empty.json".to_string(), if s.wrapping_add(t.unwrap_or(0)) % 4 == 1 { Vec::new() } else { b" \n\n".to_vec() }));
                            ctx.guard("file-without-values-between-files");
                        }
                        // `--merge` takes an optional value: it must not be the word before the file names
                        let mut fargs = cfg.args();
                        if fargs.last().map(|a| a == "--merge").unwrap_or(false) {
                            fargs.rotate_right(1);
                        }
                        let fcase = crate::drive::Case { args: fargs, input: crate::drive::Input::Files(files), rplan: Default::default(), wplan: Default::default() };
                        let (_, fout) = pipe::run_rows(ctx, &fcase, &sig);
                        ctx.case_done();
                        ctx.guard("input-spread-over-files");
                        if let Outcome::Rows(frows) = fout {
                            if frows != got {
                                ok = false;
                                ctx.violation("limits-depend-on-how-the-input-is-spread-over-files", &format!("{sig} {} files", cuts.len() + 1), &[fcase.clone(), case.clone()], pipe::texts(&got), pipe::texts(&frows));
                            }
                        }
                    }
                }
                ctx.outcome(if ok { if got.is_empty() { "ok-empty" } else if g.is_some() { "ok-collection" } else { "ok-rows" } } else { "violation" });
                ctx.sample(|| serde_json::json!({"args": case.args, "rows_in": rows.len(), "unlimited": pipe::texts(&r), "got": pipe::texts(&got)}));
            }
        }
    }
}

fn run(ctx: &mut Ctx) {
    let ks = keys();
    let pls = pipelines();
    let (maxlen, smax) = match ctx.tier {
        Tier::Quick => (4usize, 3u64),
        Tier::Thorough => (6, 6),
    };
    let ss: Vec<u64> = (0..=smax).collect();
    let mut ts: Vec<Option<u64>> = vec![None];
    ts.extend((0..=smax).map(Some));
    for len in 0..=maxlen {
        let mut todo: Vec<Vec<usize>> = Vec::new();
        crate::explore::seqs_exact(ks.len(), len, |i| todo.push(i.to_vec()));
        for idx in todo {
            for pl in &pls {
                if !ctx.mine() {
                    continue;
                }
                let rows = pipe::rows_from(&ks, &idx);
                explore(ctx, pl, &rows, &ss, &ts);
                if ctx.time_up() {
                    ctx.cap(&format!("streams of length {len}"));
                    return;
                }
            }
        }
        ctx.level_done(&format!("all-streams-of-{len}-rows"));
        // the same under sort keys of other types: numbers, null, arrays, and objects (two of them with the same members
        // in another order, which `=` calls equal and the sort still has to place somewhere)
        if len >= 2 && len <= ctx.tier.pick(3usize, 4) {
            let k2: Vec<Option<V>> = ["{\"x\": 1, \"y\": 2}", "{\"y\": 2, \"x\": 1}", "[1, {\"p\": 1, \"q\": 2}]", "[1, {\"q\": 2, \"p\": 1}]", "1", "1.0", "null", "\"a\""].iter().map(|t| Some(json::parse_str(t))).collect();
            let mut todo: Vec<Vec<usize>> = Vec::new();
            crate::explore::seqs_exact(k2.len(), len, |i| todo.push(i.to_vec()));
            for idx in todo {
                for pl in pls.iter().filter(|p| p.sort_keys > 0 && !p.split && p.cfg.filter.is_none()) {
                    if !ctx.mine() {
                        continue;
                    }
                    ctx.guard("sort-keys-that-are-objects");
                    let rows = pipe::rows_from(&k2, &idx);
                    explore(ctx, pl, &rows, &ss[..3.min(ss.len())], &ts[..4.min(ts.len())]);
                }
            }
            ctx.level_done(&format!("streams-of-{len}-rows-with-keys-of-other-types"));
        }
    }
    // option values at the edge of their documented range: S and T up to 2^64-1, alone and together (their sum does not
    // fit in 64 bits)
    {
        const MAX: u64 = u64::MAX;
        let edge: [(u64, Option<u64>); 10] = [(1, Some(MAX)), (MAX, Some(1)), (MAX, Some(MAX)), (0, Some(MAX)), (MAX, None), (1 << 63, Some(1 << 63)), (MAX - 1, Some(2)), (2, Some(MAX - 1)), (1, Some(MAX - 1)), (3, Some(1 << 32))];
        for (ri, idx) in [vec![0usize, 1, 0, 2, 3], vec![2, 2, 1], vec![]].iter().enumerate() {
            let rows = pipe::rows_from(&ks, idx);
            for pl in &pls {
                if !ctx.mine() {
                    continue;
                }
                for (s, t) in edge {
                    ctx.guard("skip-plus-take-beyond-64-bits");
                    explore(ctx, pl, &rows, &[s], &[t]);
                }
                let _ = ri;
            }
        }
        ctx.level_done("skip-and-take-at-the-edge-of-the-64-bit-range");
    }
    // long families: B-tree node splits (> 11 keys do not occur with 4 keys, but > 8 rows per bucket do), VecDeque growth
    let lss: Vec<u64> = vec![0, 1, 5, 16, 17, 39, 40, 41];
    let lts: Vec<Option<u64>> = vec![None, Some(0), Some(1), Some(5), Some(16), Some(17), Some(40), Some(41)];
    for total in [17usize, 40] {
        for blen in 1..=3 {
            let mut todo: Vec<Vec<usize>> = Vec::new();
            crate::explore::seqs_exact(ks.len(), blen, |i| todo.push(i.to_vec()));
            for base in todo {
                for pl in &pls {
                    if !ctx.mine() {
                        continue;
                    }
                    if ctx.tier == Tier::Quick && (blen == 3 || total == 40) && pl.sort_keys == 0 {
                        continue;
                    }
                    let idx: Vec<usize> = (0..total).map(|i| base[i % base.len()]).collect();
                    let rows = pipe::rows_from(&ks, &idx);
                    explore(ctx, pl, &rows, &lss, &lts);
                    if ctx.time_up() {
                        ctx.cap("long families");
                        return;
                    }
                }
            }
        }
        ctx.level_done(&format!("cyclic-streams-of-{total}-rows"));
    }
    // size thresholds: hundreds of rows, so that the sorter's map and the buckets grow well past their first allocations
    for total in [257usize, 1030] {
        for (pi, pl) in pls.iter().enumerate() {
            if !ctx.mine() {
                continue;
            }
            if pl.sort_keys == 0 && pi > 1 && pi != 7 {
                continue;
            }
            // 4 keys cycling with a stride, so ties are spread over the whole stream
            let idx: Vec<usize> = (0..total).map(|i| (i * 7 + i / 5) % ks.len()).collect();
            let rows = pipe::rows_from(&ks, &idx);
            let t = total as u64;
            explore(ctx, pl, &rows, &[0, 1, 255, 256, t - 1], &[None, Some(1), Some(255), Some(256), Some(257), Some(t)]);
            ctx.guard("hundreds-of-rows");
        }
        ctx.level_done(&format!("long-streams-of-{total}-rows"));
    }
}
