//! C19 — 64-bit integers survive untouched; number-as-string arithmetic is exact.

use super::{Prop, COMMON_ASSUMPTIONS};
use crate::ctx::{Ctx, Tier};
use crate::drive::Case;
use crate::refmodel::decimal::Dec;
use crate::refmodel::json::{self, to_text, V, I_MIN, U_MAX};

pub fn prop() -> Prop {
    let mut a = COMMON_ASSUMPTIONS.to_vec();
    a.push("num-bigint is the exact-arithmetic oracle for the number-as-string functions");
    Prop {
        id: "C19",
        level: "model_checking",
        rule: "integers: 0, +-1, 2^k-1, 2^k, 2^k+1 for k=1..64 (both signs, clipped to [-2^63, 2^64)), 2^53+-{0,1,2}, the four range ends (~390 values), each through 12 pipeline routes (csv and text fields, pass-through, select, sort, unique incl. neighbour pairs n/n+1, group-by, merge, split-by) and 30 non-arithmetic function routes; decimal strings: mantissas {0..12, 99, 100, 999, 10^k, 10^k-1 for k in 17..60, long digit runs} x scale {0,1,2,17,40} x exponent {none,0,+-1,+-100} x sign x spellings (leading/trailing zeros, e/E, +): all pairs over 120 (thorough 400) strings x \"+\" \"-\" \"*\" and six comparisons, plus abs, unary minus, || (value preserving, idempotent, canonical) on every string and 3-ary sums/products on a subset; non-trivial = |n| > 2^53 or a string with >= 17 digits or an exponent; distinct by construction; every integer also written on the command line (--set variable, --set macro, literal selection, literal inside --filter, inside a container literal); the ordering function of the number-as-string group (\"sort_by\" and an alias) over ~2n windows of 4-5 strings plus the whole list (its first and last 120 items) both ways, with one item lacking the key (and every ordered pair and window of three of 17 digit-only strings with and without leading zeros), x 8 key forms (member, parent via ^, --set variable, --set macro, set variable, defined macro, the strings themselves), compared with the stable order by exact value; every integer right after / between 9 kinds of number token that cannot be converted (a lone minus, empty exponents, a dangling point, overflowing exponents)",
        explanation: "integers are compared digit for digit (exact i128 on both sides after the strict reader); nas results are parsed as exact decimals and compared as rationals with num-bigint arithmetic, so the check does not depend on how jawk spells the result",
        assumptions: a,
        guards: vec!["operands-with-a-constant-fall-back", "integer-after-a-malformed-number", "integer-on-the-command-line", "nas-sort-reorders", "nas-sort-ties", "above-2^53", "u64-max", "i64-min", "neighbours-stay-distinct", "long-mantissa", "big-exponent", "spelling-variant"],
        budget_s: (100, 2400),
        single_worker: false,
        run,
        recheck: None,
    }
}

fn ints() -> Vec<i128> {
    let mut v: Vec<i128> = vec![0, 1, -1];
    for k in 1..=64u32 {
        let p: i128 = 1i128 << k;
        for x in [p - 1, p, p + 1] {
            v.push(x);
            v.push(-x);
        }
    }
    let p53: i128 = 1 << 53;
    for d in -2..=2 {
        v.push(p53 + d);
        v.push(-(p53 + d));
    }
    v.extend([U_MAX, U_MAX - 1, I_MIN, I_MIN + 1, (1i128 << 63) - 1, 1i128 << 63, 10i128.pow(19), 12345678901234567890, -1234567890123456789]);
    v.retain(|x| (I_MIN..=U_MAX).contains(x));
    v.sort();
    v.dedup();
    v
}

struct FnRoute {
    expr: &'static str,
    expect: fn(&V) -> V,
}

fn fn_routes() -> Vec<FnRoute> {
    fn id(v: &V) -> V {
        v.clone()
    }
    fn arr1(v: &V) -> V {
        V::Arr(vec![v.clone()])
    }
    fn arr2(v: &V) -> V {
        V::Arr(vec![v.clone(), v.clone()])
    }
    fn obj_a(v: &V) -> V {
        V::Obj(vec![("a".into(), v.clone())])
    }
    vec![
        FnRoute { expr: "(first (push [] .))", expect: id },
        FnRoute { expr: "(last (push [] 1 .))", expect: id },
        FnRoute { expr: "(get (push [] .) 0)", expect: id },
        FnRoute { expr: "(get (put {} \"a\" .) \"a\")", expect: id },
        FnRoute { expr: "(take (push [] . 1) 1)", expect: arr1 },
        FnRoute { expr: "(take_last (push [] 1 .) 1)", expect: arr1 },
        FnRoute { expr: "(sub (push [] 0 . 1) 1 1)", expect: arr1 },
        FnRoute { expr: "(reverese (push [] . .))", expect: arr2 },
        FnRoute { expr: "(sort (push [] . .))", expect: arr2 },
        FnRoute { expr: "(sort_unique (push [] . .))", expect: arr1 },
        FnRoute { expr: "(push_front [] .)", expect: arr1 },
        FnRoute { expr: "(pop (push [] . 1))", expect: arr1 },
        FnRoute { expr: "(pop_first (push [] 1 .))", expect: arr1 },
        FnRoute { expr: "(put {} \"a\" .)", expect: obj_a },
        FnRoute { expr: "(values (put {} \"a\" .))", expect: arr1 },
        FnRoute { expr: "(map (push [] .) .)", expect: arr1 },
        FnRoute { expr: "(map (push [] 1) ^)", expect: arr1 },
        FnRoute { expr: "(filter (push [] . .) true)", expect: arr2 },
        FnRoute { expr: "(flat_map (push [] .) (push [] . .))", expect: arr2 },
        FnRoute { expr: "(fold (push [] . .) 0 .value)", expect: id },
        FnRoute { expr: "(sort_by (push [] . .) .)", expect: arr2 },
        FnRoute { expr: "(default .nokey .)", expect: id },
        FnRoute { expr: "(? true . 0)", expect: id },
        FnRoute { expr: "(| . .)", expect: id },
        FnRoute { expr: "(set \"v\" . :v)", expect: id },
        FnRoute { expr: "(define \"m\" . @m)", expect: id },
        FnRoute { expr: "(parse (stringify .))", expect: id },
        FnRoute { expr: "(as_number .)", expect: id },
        FnRoute { expr: "(map_values (put {} \"a\" .) .)", expect: obj_a },
        FnRoute { expr: "(filter_values (put {} \"a\" .) true)", expect: obj_a },
        FnRoute { expr: "(sort_by_values (put {} \"a\" .))", expect: obj_a },
    ]
}

fn parse_out(ctx: &mut Ctx, case: &Case, what: &str, n: i128) -> Option<Vec<V>> {
    let o = ctx.run(case);
    ctx.case_done();
    ctx.trace_validated();
    if n.unsigned_abs() > (1u128 << 53) {
        ctx.nontrivial();
        ctx.guard("above-2^53");
    }
    if n == U_MAX {
        ctx.guard("u64-max");
    }
    if n == I_MIN {
        ctx.guard("i64-min");
    }
    if !o.res.is_ok() {
        ctx.violation("result", &format!("{what} n={n}"), &[case.clone()], "Ok".into(), o.brief());
        return None;
    }
    match json::parse_rows(&o.stdout, b"\n") {
        Ok(r) => Some(r),
        Err(e) => {
            ctx.violation("rows-unreadable", &format!("{what} n={n}"), &[case.clone()], "JSON rows".into(), format!("{e}: {}", o.brief()));
            None
        }
    }
}

fn expect_rows(ctx: &mut Ctx, case: &Case, what: &str, n: i128, want: Vec<V>) {
    if let Some(rows) = parse_out(ctx, case, what, n) {
        if rows != want {
            ctx.outcome("integer-changed");
            ctx.violation(
                "integer-changed",
                &format!("route {what}: {}", if n.unsigned_abs() > (1u128 << 53) { "an integer above 2^53" } else { "a small integer" }),
                &[case.clone()],
                want.iter().map(to_text).collect::<Vec<_>>().join(" "),
                rows.iter().map(to_text).collect::<Vec<_>>().join(" "),
            );
        } else {
            ctx.outcome("integer-intact");
        }
        ctx.state(&(what.len(), n.unsigned_abs() > (1u128 << 53), n < 0));
    }
}

fn integers(ctx: &mut Ctx) {
    let routes = fn_routes();
    for n in ints() {
        if !ctx.mine() {
            continue;
        }
        let d = format!("{n}");
        let v = V::int(n);
        let inp = |s: String| s.into_bytes();
        expect_rows(ctx, &Case::owned(vec![], inp(d.clone())), "pass-through", n, vec![v.clone()]);
        expect_rows(ctx, &Case::owned(vec!["--select=.=v".into()], inp(d.clone())), "select", n, vec![V::Obj(vec![("v".into(), v.clone())])]);
        expect_rows(ctx, &Case::owned(vec!["--sort-by=.".into()], inp(d.clone())), "sort", n, vec![v.clone()]);
        expect_rows(ctx, &Case::owned(vec!["--sort-by=.=DESC".into(), "--take=1".into()], inp(d.clone())), "sort-take", n, vec![v.clone()]);
        expect_rows(ctx, &Case::owned(vec!["--unique".into()], inp(format!("{d} {d}"))), "unique", n, vec![v.clone()]);
        expect_rows(ctx, &Case::owned(vec!["--group-by=(stringify .)".into()], inp(d.clone())), "group-by", n, vec![V::Obj(vec![(d.clone(), V::Arr(vec![v.clone()]))])]);
        expect_rows(ctx, &Case::owned(vec!["--merge".into()], inp(format!("{d} {d}"))), "merge", n, vec![V::Arr(vec![v.clone(), v.clone()])]);
        expect_rows(ctx, &Case::owned(vec!["--split-by=.".into()], inp(format!("[{d}, {{\"a\":{d}}}]"))), "split-by", n, vec![v.clone(), V::Obj(vec![("a".into(), v.clone())])]);
        expect_rows(ctx, &Case::owned(vec!["--style=pretty".into()], inp(format!("[{d}]"))), "pretty", n, vec![V::Arr(vec![v.clone()])]);
        // printing in the other output styles: the csv / text field is the integer digit for digit (top level and a
        // second column), and inside a nested cell
        for style in ["csv", "text"] {
            let mut a = vec![format!("--output-style={style}"), "--select=.=a".into(), "--select=(get (push [] .) 0)=b".into(), "--select=(push [] .)=c".into()];
            if style == "text" {
                a.push("--items-seperator=;".into());
            }
            let case = Case::owned(a, inp(d.clone()));
            let o = ctx.run(&case);
            ctx.case_done();
            ctx.trace_validated();
            ctx.guard("integer-printed-as-a-csv-or-text-field");
            let out = o.out_str();
            let line = out.lines().last().unwrap_or("");
            let fields: Vec<&str> = if style == "csv" { line.split(", ").collect() } else { line.split(';').collect() };
            let nested = if style == "csv" { format!("\"[{d}]\"") } else { format!("[{d}]") };
            if !o.res.is_ok() || fields.len() != 3 || fields[0] != d || fields[1] != d || fields[2] != nested {
                ctx.outcome("integer-changed");
                ctx.violation("integer-changed", &format!("route {style}-field: {}", if n.unsigned_abs() > (1u128 << 53) { "an integer above 2^53" } else { "a small integer" }), &[case.clone()], format!("{d}, {d}, {nested}"), o.brief());
            } else {
                ctx.outcome("integer-intact");
            }
        }
        // the integer right after a number token that cannot be converted (skipped under the default policy): nothing
        // of that token may stick to the integer
        ctx.guard("integer-after-a-malformed-number");
        for bad in ["-", "2e", "1E+", "-.", "1e999", "-x", "1e-", "-1e999", "2E"] {
            expect_rows(ctx, &Case::owned(vec![], inp(format!("{bad} {d}"))), "after-a-malformed-number", n, vec![v.clone()]);
            expect_rows(ctx, &Case::owned(vec!["--select=.=v".into(), "--unique".into()], inp(format!("{bad}\n{d} {bad} {d}\n"))), "between-malformed-numbers", n, vec![V::Obj(vec![("v".into(), v.clone())])]);
        }
        // the same value written with leading zeros (more than 20 characters): jawk reads such tokens, the value is the same
        let padded = if n < 0 { format!("-{:0>24}", n.unsigned_abs()) } else { format!("{:0>24}", n) };
        expect_rows(ctx, &Case::owned(vec![], inp(padded.clone())), "zero-padded-spelling", n, vec![v.clone()]);
        expect_rows(ctx, &Case::owned(vec!["--select=(parse .)=p".into()], inp(format!("\"{padded}\""))), "zero-padded-through-parse", n, vec![V::Obj(vec![("p".into(), v.clone())])]);
        // the integer written on the command line: as a variable, a macro, a literal selection, inside a filter
        ctx.guard("integer-on-the-command-line");
        expect_rows(
            ctx,
            &Case::owned(vec![format!("--set=n={d}"), format!("--set=@m={d}"), "--select=:n=var".into(), "--select=@m=mac".into(), format!("--select={d}=lit"), "--select=(= :n .)=same".into(), format!("--filter=(= . {d})")], inp(d.clone())),
            "command-line-literals",
            n,
            vec![V::Obj(vec![("var".into(), v.clone()), ("mac".into(), v.clone()), ("lit".into(), v.clone()), ("same".into(), V::Bool(true))])],
        );
        expect_rows(ctx, &Case::owned(vec![format!("--set=n=[{d}, {{\"a\": {d}}}]"), "--select=(get :n 0)=a".into(), "--select=(get (get :n 1) \"a\")=b".into()], inp("null".to_string())), "command-line-literal-in-container", n, vec![V::Obj(vec![("a".into(), v.clone()), ("b".into(), v.clone())])]);
        // neighbours n, n+1 stay distinct and exact through sort / unique / merge
        if n + 1 <= U_MAX {
            ctx.guard("neighbours-stay-distinct");
            let m = V::int(n + 1);
            let two = format!("{d} {}", n + 1);
            expect_rows(ctx, &Case::owned(vec!["--unique".into()], inp(two.clone())), "unique-neighbours", n, vec![v.clone(), m.clone()]);
            expect_rows(ctx, &Case::owned(vec!["--merge".into(), "--sort-by=.".into()], inp(two.clone())), "sort-merge-neighbours", n, vec![V::Arr(vec![v.clone(), m.clone()])]);
            // the top-N shortcut of a sort with --take: the better of two neighbours arrives when the buffer is full
            let rev = format!("{} {d}", n + 1);
            expect_rows(ctx, &Case::owned(vec!["--sort-by=.".into(), "--take=1".into()], inp(rev.clone())), "sort-take-neighbours", n, vec![v.clone()]);
            expect_rows(ctx, &Case::owned(vec!["--sort-by=.=DESC".into(), "--take=1".into()], inp(two.clone())), "sort-desc-take-neighbours", n, vec![m.clone()]);
            expect_rows(ctx, &Case::owned(vec!["--sort-by=.".into(), "--skip=1".into(), "--take=1".into()], inp(format!("{} {d} {d}", n + 1))), "sort-skip-take-neighbours", n, vec![v.clone()]);
            expect_rows(ctx, &Case::owned(vec!["--select=(= #0 #1)=eq".into(), "--select=(sort_unique .)=u".into()], inp(format!("[{d},{}]", n + 1))), "eq-neighbours", n, vec![V::Obj(vec![("eq".into(), V::Bool(false)), ("u".into(), V::Arr(vec![v.clone(), m.clone()]))])]);
            // the pair through equality-based collection functions (the values, not their order, are what is claimed)
            expect_rows(
                ctx,
                &Case::owned(
                    vec![
                        "--select=(filter . (= . ^#1))=f".into(),
                        "--select=(len (sort_unique (push . #0 #1)))=nu".into(),
                        "--select=(len (keys (group_by . (stringify .))))=ng".into(),
                        "--select=(set \"x\" #0 (set \"x\" #1 :x))=sh".into(),
                        "--select=(get (put (put {} \"a\" #0) \"a\" #1) \"a\")=pu".into(),
                        "--select=(!= #1 #0)=ne".into(),
                    ],
                    inp(format!("[{d},{}]", n + 1)),
                ),
                "neighbours-through-functions",
                n,
                vec![V::Obj(vec![("f".into(), V::Arr(vec![m.clone()])), ("nu".into(), V::int(2)), ("ng".into(), V::int(2)), ("sh".into(), m.clone()), ("pu".into(), m.clone()), ("ne".into(), V::Bool(true))])],
            );
        }
        // function routes, batched: one run, one selection per route
        let mut args = Vec::new();
        let mut want = Vec::new();
        for (i, r) in routes.iter().enumerate() {
            args.push(format!("--select={}=r{i}", r.expr));
            want.push((format!("r{i}"), (r.expect)(&v)));
        }
        let case = Case::owned(args, inp(d.clone()));
        if let Some(rows) = parse_out(ctx, &case, "functions", n) {
            let got = rows.first().cloned().unwrap_or(V::Null);
            for (i, (k, w)) in want.iter().enumerate() {
                if got.get(k) != Some(w) {
                    ctx.outcome("integer-changed");
                    let single = Case::owned(vec![format!("--select={}=x", routes[i].expr)], inp(d.clone()));
                    ctx.violation(
                        "integer-changed",
                        &format!("function route {}: {}", routes[i].expr, if n.unsigned_abs() > (1u128 << 53) { "an integer above 2^53" } else { "a small integer" }),
                        &[single],
                        to_text(w),
                        format!("{:?}", got.get(k).map(to_text)),
                    );
                }
            }
        }
        ctx.sample(|| serde_json::json!({"integer": d, "routes": "pass-through, select, sort, unique, group-by, merge, split-by, 31 function routes"}));
    }
    ctx.level_done("integers-through-every-route");
}

fn nas_strings(tier: Tier) -> Vec<String> {
    let mut mant: Vec<String> = (0..=12).map(|i| i.to_string()).collect();
    mant.extend(["99", "100", "999", "1000", "123", "500", "250"].iter().map(|s| s.to_string()));
    for k in [17usize, 18, 19, 20, 21, 38, 39, 40, 59, 60] {
        mant.push(format!("1{}", "0".repeat(k)));
        mant.push("9".repeat(k));
    }
    mant.push("123456789012345678901234567890123456789012345678901234567890".into());
    mant.push("18446744073709551616".into());
    mant.push("9007199254740993".into());
    // spellings without a digit on one side of the point
    let mut dotted: Vec<String> = [".5", "-.5", "+.25", "5.", ".125e2", "-.0", ".75", "0.75", ".5e-1", "00.50"].iter().map(|s| s.to_string()).collect();
    let mut out: Vec<String> = Vec::new();
    let scales = [0usize, 1, 2, 17, 40];
    let exps = ["", "e0", "e1", "e-1", "E+100", "e-100"];
    for (mi, m) in mant.iter().enumerate() {
        for (si, sc) in scales.iter().enumerate() {
            for (ei, ex) in exps.iter().enumerate() {
                // thin out deterministically: keep a Latin-square style subset
                let keep = match tier {
                    Tier::Quick => (mi + 2 * si + 3 * ei) % 11 == 0,
                    Tier::Thorough => true,
                };
                if !keep {
                    continue;
                }
                let body = if *sc == 0 {
                    m.clone()
                } else if m.len() > *sc {
                    format!("{}.{}", &m[..m.len() - sc], &m[m.len() - sc..])
                } else {
                    format!("0.{}{}", "0".repeat(sc - m.len()), m)
                };
                let sign = if (mi + si + ei) % 3 == 0 { "-" } else { "" };
                out.push(format!("{sign}{body}{ex}"));
                // spelling variants of the same value
                if (mi + ei) % 4 == 0 {
                    out.push(format!("{sign}00{body}{ex}"));
                }
                if *sc > 0 && (mi + si) % 4 == 1 {
                    out.push(format!("{sign}{body}000{ex}"));
                }
                if sign.is_empty() && ex.is_empty() && mi % 5 == 0 {
                    out.push(format!("+{body}"));
                }
            }
        }
    }
    out.sort();
    out.dedup();
    let cap = match tier {
        Tier::Quick => 120,
        Tier::Thorough => 1500,
    };
    // deterministic spread over the sorted list
    if out.len() > cap {
        let step = out.len() as f64 / cap as f64;
        out = (0..cap).map(|i| out[(i as f64 * step) as usize].clone()).collect();
    }
    // equal values in very different spellings (always kept): whole numbers with many trailing zeros written
    // out, with an exponent, with a fraction; the canonical form must not depend on the spelling
    for k in [3usize, 15, 16, 17, 25] {
        out.push(format!("1{}", "0".repeat(k)));
        out.push(format!("1e{k}"));
        out.push(format!("1E+{k}"));
        out.push(format!("10e{}", k - 1));
        out.push(format!("0.1e{}", k + 1));
        out.push(format!("100.0e{}", k - 2));
        out.push(format!("-25{}", "0".repeat(k)));
        out.push(format!("-2.5e{}", k + 1));
    }
    out.append(&mut dotted);
    out.sort();
    out.dedup();
    out
}

fn sget<'a>(row: &'a V, k: &str) -> Option<&'a V> {
    row.get(k)
}

fn nas(ctx: &mut Ctx) {
    let strs = nas_strings(ctx.tier);
    ctx.note("nas_strings", format!("{}", strs.len()));
    let decs: Vec<Dec> = strs.iter().map(|s| Dec::parse(s).unwrap_or_else(|| panic!("generator produced a non-decimal {s}"))).collect();
    let cmp_names = ["\"<\"", "\"<=\"", "\">\"", "\">=\"", "\"=\"", "\"!=\""];
    for (i, a) in strs.iter().enumerate() {
        if !ctx.mine() {
            continue;
        }
        let da = &decs[i];
        let hard = |s: &str| s.chars().filter(|c| c.is_ascii_digit()).count() >= 17 || s.contains('e') || s.contains('E');
        if a.chars().filter(|c| c.is_ascii_digit()).count() >= 38 {
            ctx.guard("long-mantissa");
        }
        if a.contains("100") && (a.contains('e') || a.contains('E')) {
            ctx.guard("big-exponent");
        }
        if a.starts_with("00") || a.starts_with("-00") || a.starts_with('+') {
            ctx.guard("spelling-variant");
        }
        // unary: abs, minus, normalise (value preserving, idempotent, canonical)
        {
            let args: Vec<String> = vec![
                "--select=(\"abs\" .)=abs".into(),
                "--select=(\"-\" .)=neg".into(),
                "--select=(\"||\" .)=n1".into(),
                "--select=(\"||\" (\"||\" .))=n2".into(),
                "--select=(\"=\" . (\"||\" .))=same".into(),
            ];
            let case = Case::owned(args, to_text(&V::s(a)).into_bytes());
            let o = ctx.run(&case);
            ctx.case_done();
            ctx.trace_validated();
            if hard(a) {
                ctx.nontrivial();
            }
            let row = json::parse_rows(&o.stdout, b"\n").ok().and_then(|r| r.into_iter().next()).unwrap_or(V::Null);
            let num = |k: &str| match sget(&row, k) {
                Some(V::Str(s)) => Dec::parse(s),
                _ => None,
            };
            let checks: Vec<(&str, Option<Dec>, Dec)> = vec![("abs", num("abs"), da.abs()), ("unary-minus", num("neg"), da.neg()), ("normalise", num("n1"), da.clone())];
            for (name, got, want) in checks {
                match got {
                    Some(g) if g.eq(&want) => ctx.outcome("nas-exact"),
                    other => {
                        ctx.outcome("nas-wrong");
                        ctx.violation("nas-unary-not-exact", &format!("{name} on a {}-digit string", a.chars().filter(|c| c.is_ascii_digit()).count().min(99)), &[case.clone()], want.show(), format!("{:?} ({})", other.map(|d| d.show()), o.brief()));
                    }
                }
            }
            if sget(&row, "n1") != sget(&row, "n2") {
                ctx.violation("normalise-not-idempotent", "||", &[case.clone()], "(|| (|| x)) = (|| x)".into(), o.brief());
            }
            if sget(&row, "same") != Some(&V::Bool(true)) {
                ctx.violation("normalise-changes-value", "||", &[case.clone()], "true".into(), o.brief());
            }
        }
        for (j, b) in strs.iter().enumerate() {
            let db = &decs[j];
            let mut args: Vec<String> = vec!["--select=(\"+\" #0 #1)=add".into(), "--select=(\"-\" #0 #1)=sub".into(), "--select=(\"*\" #0 #1)=mul".into()];
            for (k, c) in cmp_names.iter().enumerate() {
                args.push(format!("--select=({c} #0 #1)=c{k}"));
            }
            args.push("--select=(= (\"||\" #0) (\"||\" #1))=canon".into());
            // operands that are expressions with a constant fall-back (a valid decimal on an empty input): the value of
            // THIS record counts
            let fallback = (i + 2 * j) % 5 == 0;
            if fallback {
                args.push("--select=(\"<\" (default #0 \"0\") (? (array? .) #1 \"0\"))=dlt".into());
                args.push("--select=(\"=\" (? (array? .) #0 \"1\") (default #1 \"1\"))=deq".into());
                args.push("--select=(\"+\" (default #0 \"0\") (default #1 \"0\"))=dadd".into());
            }
            if (i + j) % 7 == 0 {
                args.push("--select=(\"+\" #0 #1 #0)=add3".into());
                args.push("--select=(\"*\" #0 #1 #1)=mul3".into());
            }
            let input = to_text(&V::Arr(vec![V::s(a), V::s(b)]));
            let case = Case::owned(args, input.into_bytes());
            let o = ctx.run(&case);
            ctx.case_done();
            ctx.trace_validated();
            if hard(a) || hard(b) {
                ctx.nontrivial();
            }
            ctx.transition(&(a.len().min(20), b.len().min(20)));
            let row = json::parse_rows(&o.stdout, b"\n").ok().and_then(|r| r.into_iter().next()).unwrap_or(V::Null);
            let num = |k: &str| match sget(&row, k) {
                Some(V::Str(s)) => Dec::parse(s),
                _ => None,
            };
            let mut arith: Vec<(&str, Option<Dec>, Dec)> = vec![("+", num("add"), da.add(db)), ("-", num("sub"), da.sub(db)), ("*", num("mul"), da.mul(db))];
            if (i + j) % 7 == 0 {
                arith.push(("+ (3 args)", num("add3"), da.add(db).add(da)));
                arith.push(("* (3 args)", num("mul3"), da.mul(db).mul(db)));
            }
            let mut bad = false;
            for (name, got, want) in arith {
                match got {
                    Some(g) if g.eq(&want) => {}
                    other => {
                        bad = true;
                        ctx.violation("nas-arithmetic-not-exact", &format!("\"{name}\""), &[case.clone()], want.show(), format!("{:?} ({})", other.map(|d| d.show()), o.brief()));
                    }
                }
            }
            let ord = da.cmp(db);
            use std::cmp::Ordering::*;
            let want_cmp = [ord == Less, ord != Greater, ord == Greater, ord != Less, ord == Equal, ord != Equal];
            for (k, w) in want_cmp.iter().enumerate() {
                if sget(&row, &format!("c{k}")) != Some(&V::Bool(*w)) {
                    bad = true;
                    ctx.violation("nas-comparison-wrong", cmp_names[k], &[case.clone()], format!("{w}"), format!("{:?} ({})", sget(&row, &format!("c{k}")).map(to_text), o.brief()));
                }
            }
            if fallback {
                ctx.guard("operands-with-a-constant-fall-back");
                let dadd = match sget(&row, "dadd") {
                    Some(V::Str(s)) => Dec::parse(s),
                    _ => None,
                };
                if sget(&row, "dlt") != Some(&V::Bool(ord == Less)) || sget(&row, "deq") != Some(&V::Bool(ord == Equal)) || !dadd.map(|d| d.eq(&da.add(db))).unwrap_or(false) {
                    bad = true;
                    ctx.violation("nas-comparison-wrong", "operands given by expressions with a constant fall-back", &[case.clone()], format!("< {} = {} + {}", ord == Less, ord == Equal, da.add(db).show()), o.brief());
                }
            }
            if sget(&row, "canon") != Some(&V::Bool(ord == Equal)) {
                bad = true;
                ctx.violation("normalise-not-canonical", "|| maps equal values to identical strings and only those", &[case.clone()], format!("{}", ord == Equal), format!("{:?} ({})", sget(&row, "canon").map(to_text), o.brief()));
            }
            ctx.outcome(if bad { "nas-wrong" } else { "nas-exact" });
            ctx.sample(|| serde_json::json!({"a": a, "b": b, "row": to_text(&row)}));
        }
        if ctx.time_up() {
            ctx.cap("nas pairs");
            return;
        }
    }
    ctx.level_done("nas:all-pairs");
}

/// the ordering member of the comparison group: ("sort_by" list key) orders by the exact value of the keys, stably,
/// items without a key first; the key is an expression like any other (it may read ^, variables and macros)
fn nas_sort(ctx: &mut Ctx) {
    let strs = nas_strings(ctx.tier);
    let n = strs.len();
    let mut lists: Vec<Vec<usize>> = Vec::new();
    for start in 0..n {
        lists.push((0..5).map(|k| (start + k * 7) % n).collect());
        lists.push((0..4).map(|k| (start + n - k) % n).collect());
    }
    // the whole list both ways - up to 120 items: the subject copies the enclosing record for every comparison of a key
    // that reads ^, which makes 400 items a matter of minutes (slow, not wrong, and not what is under test here)
    lists.push((0..n.min(120)).collect());
    lists.push((0..n).rev().take(120).collect());
    nas_sort_lists(ctx, &strs, &lists);
    // strings made of digits only, with and without leading zeros: the longer text is often the smaller number. Every
    // ordered pair, every window of three, the whole list both ways.
    let digits: Vec<String> = ["0", "00", "1", "01", "007", "12", "0100", "99", "10", "9", "010", "100", "0009", "90", "000000000000000000000000000000000000000000000000000000000009", "18446744073709551616", "018446744073709551615"].iter().map(|s| s.to_string()).collect();
    let m = digits.len();
    let mut dl: Vec<Vec<usize>> = Vec::new();
    for i in 0..m {
        for j in 0..m {
            if i != j {
                dl.push(vec![i, j]);
            }
        }
        dl.push(vec![i, (i + 3) % m, (i + 7) % m]);
    }
    dl.push((0..m).collect());
    dl.push((0..m).rev().collect());
    ctx.guard("digit-strings-with-leading-zeros");
    nas_sort_lists(ctx, &digits, &dl);
    ctx.level_done("nas:sort_by-over-windows-of-the-strings-x-8-key-forms");
}

fn nas_sort_lists(ctx: &mut Ctx, strs: &[String], lists: &[Vec<usize>]) {
    let decs: Vec<Dec> = strs.iter().map(|s| Dec::parse(s).unwrap()).collect();
    let keys: [(&str, &str); 8] = [
        ("item-member", "(\"sort_by\" .items .v)"),
        ("alias-order_by_nas", "(order_by_nas .items .v)"),
        ("key-reads-parent", "(\"sort_by\" .items (\"+\" .v ^.off))"),
        ("key-reads-cli-variable", "(\"sort_by\" .items (\"*\" .v :unit))"),
        ("key-is-cli-macro", "(\"sort_by\" .items @key)"),
        ("key-reads-set-variable", "(set \"u\" \"1\" (\"sort_by\" .items (\"*\" .v :u)))"),
        ("key-is-defined-macro", "(define \"k\" (\"-\" .v ^.off) (\"sort_by\" .items @k))"),
        ("strings-themselves", "(map (\"sort_by\" (map .items .v) .) (stringify .))"),
    ];
    for (li, list) in lists.iter().enumerate() {
        if !ctx.mine() {
            continue;
        }
        // one item without a key in the middle
        let mut items: Vec<V> = Vec::new();
        for (pos, si) in list.iter().enumerate() {
            if pos == list.len() / 2 {
                items.push(V::Obj(vec![("i".into(), V::int(-1))]));
            }
            items.push(V::Obj(vec![("i".into(), V::int(pos as i128)), ("v".into(), V::s(&strs[*si]))]));
        }
        let mut order: Vec<usize> = (0..list.len()).collect();
        order.sort_by(|a, b| decs[list[*a]].cmp(&decs[list[*b]]));
        if order.windows(2).any(|w| w[0] > w[1]) {
            ctx.guard("nas-sort-reorders");
        }
        if order.windows(2).any(|w| decs[list[w[0]]].eq(&decs[list[w[1]]])) {
            ctx.guard("nas-sort-ties");
        }
        let mut want_items: Vec<V> = vec![V::Obj(vec![("i".into(), V::int(-1))])];
        want_items.extend(order.iter().map(|p| V::Obj(vec![("i".into(), V::int(*p as i128)), ("v".into(), V::s(&strs[list[*p]]))])));
        let want_strs: Vec<V> = order.iter().map(|p| V::s(&to_text(&V::s(&strs[list[*p]])))).collect();
        let mut args: Vec<String> = vec!["--set=unit=\"1\"".into(), "--set=@key=.v".into()];
        for (k, (_, e)) in keys.iter().enumerate() {
            args.push(format!("--select={e}=k{k}"));
        }
        let input = to_text(&V::Obj(vec![("off".into(), V::s("0")), ("items".into(), V::Arr(items))]));
        let case = Case::owned(args, input.into_bytes());
        let o = ctx.run(&case);
        ctx.case_done();
        ctx.trace_validated();
        ctx.nontrivial();
        ctx.transition(&("nas-sort", li.min(40)));
        let row = json::parse_rows(&o.stdout, b"\n").ok().and_then(|r| r.into_iter().next()).unwrap_or(V::Null);
        for (k, (kname, e)) in keys.iter().enumerate() {
            let want = if *kname == "strings-themselves" { V::Arr(want_strs.clone()) } else { V::Arr(want_items.clone()) };
            if sget(&row, &format!("k{k}")) != Some(&want) {
                ctx.outcome("nas-wrong");
                ctx.violation("nas-sort-not-by-exact-value", &format!("{kname}: {e}"), &[case.clone()], crate::drive::trunc(&to_text(&want), 300), format!("{:?} ({})", sget(&row, &format!("k{k}")).map(|v| crate::drive::trunc(&to_text(v), 300)), o.res.short()));
                break;
            }
        }
        ctx.outcome("nas-exact");
    }
}

fn run(ctx: &mut Ctx) {
    integers(ctx);
    nas(ctx);
    nas_sort(ctx);
    // number-as-string arithmetic re-entered through macros that refer to themselves (shared with C12)
    super::c12::recursive_macros(ctx);
}
