//! C17 — delivery-independent input; files stay separate; input-context is exact.

use super::{Prop, COMMON_ASSUMPTIONS};
use crate::ctx::{Ctx, Tier};
use crate::drive::{Case, Input, Obs, ReadPlan, WritePlan};
use crate::refmodel::json::{self, V};

pub fn prop() -> Prop {
    Prop {
        id: "C17",
        level: "model_checking",
        rule: "streams of <=3 (thorough <=4) values over a 7-value core (incl. multi-line values and a multi-byte string) x 7 separator kinds (space, LF, CRLF, mixed run, touching, LF+indent, CR alone - which is white space but no line break), clean and with whitespace-delimited noise in one gap (7 tokens, three of them not valid UTF-8); deliveries: whole, 1-byte, greedy reads cut at EVERY set of <=2 offsets, Interrupted before every offset (singly and all at once), one file, FIFO with 3/7-byte writes; file partitions (file names not in sorted order; the same file twice): EVERY composition of the value sequence into 1..4 files and EVERY cut inside the text (a value cut by a file boundary); --only-objects-and-arrays on/off; plus 7 tokens (number, multi-byte string, literal, escapes, containers) placed so that they straddle byte 8192 and 16384 of the input at every split position, read byte by byte, from a file and in 1 KiB/4 KiB/8 KiB chunks; 300 and 1100 values one per line (LF, CRLF) and all on one line (indices, lines and columns beyond 255 / 65535) and spread over 10 files, one of them empty; non-trivial = >=2 values or a cut inside a value; distinct by construction; directory arguments: 6 layouts (two files, plain files around a directory, nested directories with an empty file, two directories, one file, noisy files) x --only-objects-and-arrays, checked per file because the order inside a directory is the file system's",
        explanation: "(a) every delivery must give the byte-identical observation; (b) out(f1..fn) = out(f1)...out(fn) with all per-file selectors; (c) the seven &-selectors are compared with a location model on the input text: &index ordinal of processed values, &index-in-file per file, &file-name the path, [start,end) as byte offsets must contain the value's span from the strict reference reader, consecutive ranges contiguous on clean streams, lines counted by LF only; every third command line reads the selectors through --set macros",
        assumptions: COMMON_ASSUMPTIONS.to_vec(),
        guards: vec!["line-feed-inside-a-string", "noise-that-is-not-valid-utf8", "directory-argument", "same-file-twice", "index-line-column-beyond-255", "token-straddles-a-buffer-boundary", "touching-values", "multi-line-value", "cut-inside-value", "greedy-chunking", "file-boundary-inside-value", "ooa-skips-scalar", "crlf", "fifo"],
        budget_s: (100, 1800),
        single_worker: false,
        run,
        recheck: None,
    }
}

const CORE: [&str; 7] = ["1203", "\"a\u{e9}\"", "[1,\n2]", "{\"k\":\n\n \"v\"}", "true", "[]", "-2.5e1"];
const SEPS: [(&str, &str); 7] = [("space", " "), ("lf", "\n"), ("crlf", "\r\n"), ("run", "  \n\t"), ("touch", ""), ("lf-indent", "\n  "), ("cr-alone", "\r")];
/// noise tokens; three of them are not valid UTF-8 (a stray byte, a string holding one, a lead byte without its tail)
const NOISE: [&[u8]; 7] = [b"}", b"x:", b",\n]", b"\xef\xbb\xbf", b"\xff", b"\"a\xffb\"", b"\xc3"];

const SEL_LOC: [&str; 4] = [
    "--select=&started-at-line-number=sl",
    "--select=&started-at-char-number=sc",
    "--select=&ended-at-line-number=el",
    "--select=&ended-at-char-number=ec",
];

fn args_ctx(ooa: bool, with_index: bool, with_file: bool, policy: &str) -> Vec<String> {
    let mut a = vec![format!("--on-error={policy}")];
    if with_index {
        a.push("--select=&index=i".into());
    }
    a.push("--select=&index-in-file=j".into());
    if with_file {
        a.push("--select=&file-name=f".into());
    }
    a.extend(SEL_LOC.iter().map(|s| s.to_string()));
    a.push("--select=.=v".into());
    if ooa {
        a.push("--only-objects-and-arrays".into());
    }
    // every third command line reads the input context through --set macros only (no & in any --select text):
    // the selectors mean the same wherever they are written
    thread_local! {
        static CALLS: std::cell::Cell<usize> = const { std::cell::Cell::new(0) };
    }
    let n = CALLS.with(|c| {
        c.set(c.get() + 1);
        c.get()
    });
    if n % 3 == 0 {
        let mut b: Vec<String> = Vec::new();
        for x in &a {
            match x.strip_prefix("--select=&") {
                Some(rest) => {
                    let (sel, name) = rest.split_once('=').unwrap_or((rest, rest));
                    b.push(format!("--set=@ctx-{name}=&{sel}"));
                    b.push(format!("--select=@ctx-{name}={name}"));
                }
                None => b.push(x.clone()),
            }
        }
        return b;
    }
    a
}

struct Stream {
    text: Vec<u8>,
    /// (value, start, end) by construction
    vals: Vec<(V, usize, usize)>,
    clean: bool,
    desc: String,
}

fn build(idx: &[usize], sk: usize, noise: Option<(usize, &[u8])>, lead: &str, trail: &str) -> Stream {
    let (sname, sep) = SEPS[sk];
    let mut text: Vec<u8> = lead.as_bytes().to_vec();
    let mut vals = Vec::new();
    for g in 0..=idx.len() {
        let noisy = matches!(noise, Some((ng, _)) if ng == g);
        if noisy {
            let n = noise.unwrap().1;
            let ws: &str = if sep.is_empty() { " " } else { sep };
            if g > 0 {
                text.extend_from_slice(ws.as_bytes());
            }
            text.extend_from_slice(n);
            if g < idx.len() {
                text.extend_from_slice(ws.as_bytes());
            }
        } else if g > 0 && g < idx.len() {
            let (a, b) = (CORE[idx[g - 1]], CORE[idx[g]]);
            if sep.is_empty() && !crate::refmodel::spell::may_touch(a, b) {
                text.push(b' ');
            } else {
                text.extend_from_slice(sep.as_bytes());
            }
        }
        if g < idx.len() {
            let s = text.len();
            text.extend_from_slice(CORE[idx[g]].as_bytes());
            vals.push((json::parse_str(CORE[idx[g]]), s, text.len()));
        }
    }
    text.extend_from_slice(trail.as_bytes());
    Stream { text, vals, clean: noise.is_none(), desc: format!("values {idx:?} sep {sname} noise {:?}", noise.map(|(g, n)| (g, String::from_utf8_lossy(n).into_owned()))) }
}

fn offset_of(text: &[u8], line: i128, col: i128) -> Option<usize> {
    // 1-based line and column, columns count bytes, only LF starts a new line
    if line < 1 || col < 1 {
        return None;
    }
    let mut start = 0usize;
    let mut l = 1;
    while l < line {
        match text[start..].iter().position(|b| *b == b'\n') {
            Some(p) => start += p + 1,
            None => return None,
        }
        l += 1;
    }
    Some(start + (col - 1) as usize)
}

fn num(v: &V, k: &str) -> Option<i128> {
    match v.get(k) {
        Some(V::Num(json::Num::Int(i))) => Some(*i),
        _ => None,
    }
}

/// Check rows of one file (or stdin) against the location / index model. `first_index` is the
/// value of &index expected for the first processed value of this input.
fn check_context(rows: &[V], st: &Stream, ooa: bool, first_index: usize, file: Option<&str>, with_index: bool) -> Option<(String, String, String)> {
    let processed: Vec<&(V, usize, usize)> = st.vals.iter().filter(|(v, _, _)| !ooa || matches!(v, V::Obj(_) | V::Arr(_))).collect();
    if rows.len() != processed.len() {
        return Some(("row-count".into(), format!("{} rows", processed.len()), format!("{} rows", rows.len())));
    }
    let mut prev_end: Option<usize> = None;
    for (n, (row, (v, s, e))) in rows.iter().zip(processed.iter()).enumerate() {
        if row.get("v") != Some(v) {
            return Some(("value".into(), json::to_text(v), format!("{:?}", row.get("v").map(json::to_text))));
        }
        if with_index && num(row, "i") != Some((first_index + n) as i128) {
            return Some(("index".into(), format!("&index = {}", first_index + n), format!("{:?}", num(row, "i"))));
        }
        if num(row, "j") != Some(n as i128) {
            return Some(("index-in-file".into(), format!("&index-in-file = {n}"), format!("{:?}", num(row, "j"))));
        }
        match (file, row.get("f")) {
            (Some(f), Some(V::Str(g))) if f == g => {}
            (None, None) => {}
            (Some(f), other) => return Some(("file-name".into(), f.to_string(), format!("{:?}", other.map(json::to_text)))),
            (None, Some(x)) => return Some(("file-name".into(), "absent (stdin)".into(), json::to_text(x))),
        }
        let (Some(sl), Some(sc), Some(el), Some(ec)) = (num(row, "sl"), num(row, "sc"), num(row, "el"), num(row, "ec")) else {
            return Some(("location-missing".into(), "four numbers".into(), json::to_text(row)));
        };
        let (Some(so), Some(eo)) = (offset_of(&st.text, sl, sc), offset_of(&st.text, el, ec)) else {
            return Some(("location-outside-text".into(), "positions inside the text".into(), format!("({sl},{sc})..({el},{ec})")));
        };
        if !(so <= *s && *e <= eo && eo <= st.text.len()) {
            return Some((
                "range-does-not-contain-value".into(),
                format!("[start,end) contains the value's bytes [{s},{e})"),
                format!("({sl},{sc})..({el},{ec}) = bytes [{so},{eo})"),
            ));
        }
        if st.clean {
            // every value is processed unless ooa drops scalars; contiguity is claimed between consecutive processed values only when nothing was skipped in between
            if let Some(pe) = prev_end {
                let skipped_between = ooa && st.vals.iter().any(|(v2, s2, _)| *s2 > pe.saturating_sub(1) && *s2 < *s && !matches!(v2, V::Obj(_) | V::Arr(_)));
                if !skipped_between && pe != so {
                    return Some(("ranges-not-contiguous".into(), format!("start = previous end = byte {pe}"), format!("start = byte {so} ({sl},{sc})")));
                }
            }
            prev_end = Some(eo);
        }
    }
    None
}

/// values of a text whose tokens are separated by blanks (tokens that are not JSON values are noise)
fn values_of(text: &str) -> Vec<V> {
    text.split_whitespace().filter_map(|t| json::parse_one(t.as_bytes()).ok()).collect()
}

fn rows_of(o: &Obs) -> Result<Vec<V>, String> {
    json::parse_rows(&o.stdout, b"\n")
}

fn run(ctx: &mut Ctx) {
    let maxlen = ctx.tier.pick(3, 4);
    let mut idxs: Vec<Vec<usize>> = Vec::new();
    crate::explore::seqs_upto(CORE.len(), maxlen, |i| idxs.push(i.to_vec()));
    // quick: all streams up to 2 values, 3-value streams over the first 4 core values
    let idxs: Vec<Vec<usize>> = idxs
        .into_iter()
        .filter(|i| match ctx.tier {
            Tier::Quick => i.len() <= 2 || i.iter().all(|x| *x < 3),
            Tier::Thorough => i.len() <= 3 || i.iter().all(|x| *x < 4),
        })
        .collect();
    for idx in &idxs {
        for sk in 0..SEPS.len() {
            if !ctx.mine() {
                continue;
            }
            let mut streams = vec![build(idx, sk, None, "", ""), build(idx, sk, None, " \n", "\n")];
            if !idx.is_empty() {
                for g in 0..=idx.len() {
                    streams.push(build(idx, sk, Some((g, NOISE[(g + sk + idx.len()) % NOISE.len()])), "", "\n"));
                    if (g + sk + idx.len()) % NOISE.len() >= 4 {
                        ctx.guard("noise-that-is-not-valid-utf8");
                    }
                }
            }
            for st in &streams {
                if SEPS[sk].0 == "touch" && idx.len() >= 2 {
                    ctx.guard("touching-values");
                }
                if SEPS[sk].0 == "crlf" && idx.len() >= 2 {
                    ctx.guard("crlf");
                }
                if idx.iter().any(|i| CORE[*i].contains('\n')) {
                    ctx.guard("multi-line-value");
                }
                for ooa in [false, true] {
                    one_stream(ctx, st, ooa);
                }
            }
            if ctx.time_up() {
                ctx.cap("streams");
                return;
            }
        }
    }
    ctx.level_done("deliveries,partitions,context-model");

    // ---- buffer boundaries: a token that straddles byte 8192 / 16384 of the input at every split position,
    // read from stdin (one byte at a time), from a file (buffered reader), and in greedy chunks cut at the boundary
    let tokens = ["1234567890", "\"h\u{e9}llo\u{20ac}\u{10348}xyz\"", "true", "\"\\u00e9\\n\\\"q\"", "{\"k\":[1,2]}", "-12.5e-3", "[[],{}]"];
    for boundary in [8192usize, 16384] {
        for tok in tokens {
            if !ctx.mine() {
                continue;
            }
            for k in 0..=tok.len() + 1 {
                // the token starts at `boundary - k`
                let start = boundary - k;
                let mut text = String::new();
                let mut n = 0usize;
                while text.len() + 8 < start {
                    text.push_str(&format!("{} ", n % 10));
                    n += 1;
                }
                while text.len() < start {
                    text.push(' ');
                }
                text.push_str(tok);
                text.push_str("\n7 [8]\n");
                let expected: Vec<V> = match json::parse_stream(text.as_bytes()) {
                    Ok(v) => v.into_iter().map(|x| x.v).collect(),
                    Err(_) => {
                        ctx.machinery_error("boundary family: the reference reader rejects its own text".into());
                        continue;
                    }
                };
                let args: Vec<String> = vec!["--utf8-strings".into(), "--select=&index=i".into(), "--select=&started-at-char-number=sc".into(), "--select=&ended-at-char-number=ec".into(), "--select=.=v".into()];
                let stdin_case = Case::owned(args.clone(), text.clone().into_bytes());
                let base = ctx.run(&stdin_case);
                ctx.case_done();
                ctx.trace_validated();
                ctx.nontrivial();
                ctx.guard("token-straddles-a-buffer-boundary");
                let sig = format!("token {:?} straddling byte {boundary}", crate::drive::trunc(tok, 12));
                match rows_of(&base) {
                    Ok(rows) if base.res.is_ok() => {
                        let vals: Vec<V> = rows.iter().filter_map(|r| r.get("v").cloned()).collect();
                        if vals != expected {
                            ctx.violation("values-differ-from-the-reference-reader", &sig, &[stdin_case.clone()], format!("{} values, token {}", expected.len(), tok), format!("{} values; last rows {:?}", vals.len(), crate::drive::trunc(&String::from_utf8_lossy(&base.stdout[base.stdout.len().saturating_sub(200)..]), 200)));
                        }
                    }
                    _ => {
                        ctx.violation("run-failed", &sig, &[stdin_case.clone()], "Ok".into(), base.res.short());
                        continue;
                    }
                }
                let mut variants: Vec<(String, Case)> = Vec::new();
                variants.push(("file".into(), Case { args: args.clone(), input: Input::Files(vec![("big.json".into(), text.clone().into_bytes())]), rplan: ReadPlan::default(), wplan: WritePlan::default() }));
                for chunk in [boundary, 4096, 1024] {
                    let mut c = Case::owned(args.clone(), text.clone().into_bytes());
                    c.rplan = ReadPlan { greedy: true, cuts: (1..=text.len() / chunk).map(|i| i * chunk).collect(), ..ReadPlan::default() };
                    variants.push((format!("greedy-{chunk}"), c));
                }
                let mut c = Case::owned(args.clone(), text.clone().into_bytes());
                c.rplan = ReadPlan { greedy: true, cuts: vec![start + tok.len() / 2], interrupts: vec![start + 1, boundary], ..ReadPlan::default() };
                variants.push(("greedy-cut-inside-token".into(), c));
                for (name, c) in variants {
                    let o = ctx.run(&c);
                    ctx.case_done();
                    if o.res != base.res || o.stdout != base.stdout {
                        ctx.outcome("delivery-dependent");
                        ctx.violation("delivery-changes-output", &format!("{sig} delivery {name}"), &[c.clone(), stdin_case.clone()], format!("as from stdin byte by byte: ...{:?}", crate::drive::trunc(&String::from_utf8_lossy(&base.stdout[base.stdout.len().saturating_sub(160)..]), 160)), format!("{} ...{:?}", o.res.short(), crate::drive::trunc(&String::from_utf8_lossy(&o.stdout[o.stdout.len().saturating_sub(160)..]), 160)));
                    } else {
                        ctx.outcome("delivery-ok");
                    }
                }
            }
        }
    }
    ctx.level_done("tokens-straddling-byte-8192-and-16384-at-every-split");

    // ---- counters beyond 255 / 65535: hundreds of values (one per line, and all on one very long line), 9 files
    for (layout, sep) in [("one-per-line", "\n"), ("one-long-line", " "), ("crlf-lines", "\r\n")] {
        for total in [300usize, 1100] {
            if !ctx.mine() {
                continue;
            }
            let mut text = String::new();
            let mut vals: Vec<(V, usize, usize)> = Vec::new();
            for i in 0..total {
                let t = match i % 5 {
                    0 => format!("{i}"),
                    1 => format!("[{i}, \"x\"]"),
                    2 => format!("\"s{i}{}\"", "z".repeat(i % 70)),
                    3 => format!("{{\"k\": {i}}}"),
                    _ => "true".to_string(),
                };
                let s = text.len();
                if i % 20 == 7 {
                    // a string that holds a raw line feed (jawk reads it; every line feed counts as a line)
                    let raw = format!("\"r{i}\nq\"");
                    text.push_str(&raw);
                    vals.push((V::s(&format!("r{i}\nq")), s, text.len()));
                    ctx.guard("line-feed-inside-a-string");
                } else {
                    text.push_str(&t);
                    vals.push((json::parse_str(&t), s, text.len()));
                }
                text.push_str(sep);
            }
            let st = Stream { text: text.clone().into_bytes(), vals, clean: true, desc: format!("{total} values {layout}") };
            ctx.guard("index-line-column-beyond-255");
            for ooa in [false, true] {
                let a = args_ctx(ooa, true, true, "ignore");
                let base = Case::owned(a.clone(), st.text.clone());
                let o = ctx.run(&base);
                ctx.case_done();
                ctx.trace_validated();
                ctx.nontrivial();
                match (o.res.is_ok(), rows_of(&o)) {
                    (true, Ok(rows)) => {
                        if let Some((clause, e, g)) = check_context(&rows, &st, ooa, 0, None, true) {
                            ctx.violation(&clause, &format!("stdin: {} ooa={ooa}", st.desc), &[base.clone()], e, g);
                        } else {
                            ctx.outcome("context-ok");
                        }
                    }
                    _ => ctx.violation("run-failed", &format!("stdin: {}", st.desc), &[base.clone()], "Ok".into(), o.res.short()),
                }
                // the same values spread over 9 files: &index runs on, &index-in-file restarts
                if !ooa && total == 300 {
                    let a2 = vec!["--select=&index=i".to_string(), "--select=&index-in-file=j".into(), "--select=&file-name=f".into(), "--select=.=v".into()];
                    let per = total / 9 + 1;
                    let mut files: Vec<(String, Vec<u8>)> = Vec::new();
                    let mut expected: Vec<(usize, usize, String)> = Vec::new();
                    for (fi, chunk) in st.vals.chunks(per).enumerate() {
                        let name = format!("part{fi}.json");
                        let body: String = chunk.iter().map(|(v, _, _)| format!("{}{sep}", json::to_text(v))).collect();
                        for (j, _) in chunk.iter().enumerate() {
                            expected.push((expected.len(), j, name.clone()));
                        }
                        files.push((name, body.into_bytes()));
                    }
                    // an empty file in the middle must not disturb the numbering
                    files.insert(4, ("empty.json".into(), Vec::new()));
                    let fcase = Case { args: a2, input: Input::Files(files), rplan: ReadPlan::default(), wplan: WritePlan::default() };
                    let fo = ctx.run(&fcase);
                    ctx.case_done();
                    let rows = rows_of(&fo).unwrap_or_default();
                    let ok = fo.res.is_ok()
                        && rows.len() == expected.len()
                        && rows.iter().zip(expected.iter()).all(|(r, (i, j, f))| num(r, "i") == Some(*i as i128) && num(r, "j") == Some(*j as i128) && matches!(r.get("f"), Some(V::Str(g)) if g.ends_with(f.as_str())));
                    if !ok {
                        let bad = rows.iter().zip(expected.iter()).position(|(r, (i, j, f))| !(num(r, "i") == Some(*i as i128) && num(r, "j") == Some(*j as i128) && matches!(r.get("f"), Some(V::Str(g)) if g.ends_with(f.as_str()))));
                        ctx.violation("index-across-many-files", &format!("10 files {layout}"), &[fcase.clone()], format!("{} rows; &index 0..{}, &index-in-file restarting per file", expected.len(), expected.len() - 1), format!("{} rows, first wrong row {:?}: {}", rows.len(), bad, bad.and_then(|b| rows.get(b)).map(json::to_text).unwrap_or_default()));
                    }
                }
            }
        }
    }
    ctx.level_done("hundreds-of-values(lines-and-columns-beyond-255/65535,10-files)");
    // ---- directory arguments: every file below the directory is one input file (the order inside a directory is the
    // file system's, so the oracle is per file: contiguous rows, &index-in-file 0.., values in order, &index = row number)
    let layouts: [&[(&str, &str)]; 6] = [
        &[("d/x.json", "1 [2]"), ("d/y.json", "{\"a\":3} 4")],
        &[("a.json", "0"), ("d/x.json", "1 [2] 3"), ("d/y.json", "[4]"), ("d/z.json", "5 6"), ("b.json", "7 [8]")],
        &[("d/x.json", "[1]"), ("d/sub/y.json", "[2] [3]"), ("d/sub/deeper/z.json", "[4] 5 [6]"), ("d/w.json", "")],
        &[("d/x.json", "1 2"), ("e/x.json", "3 4 5"), ("e/y.json", "[6]")],
        &[("a.json", "[0] 1"), ("d/only.json", "2 3")],
        &[("d/x.json", "1 } 2"), ("d/y.json", "[3] : [4]"), ("b.json", "5")],
    ];
    for (li, layout) in layouts.iter().enumerate() {
        for ooa in [false, true] {
            if !ctx.mine() {
                continue;
            }
            let mut a = vec!["--select=&index=i".to_string(), "--select=&index-in-file=j".into(), "--select=&file-name=f".into(), "--select=.=v".into()];
            if ooa {
                a.push("--only-objects-and-arrays".into());
            }
            let files: Vec<(String, Vec<u8>)> = layout.iter().map(|(n, t)| (n.to_string(), t.as_bytes().to_vec())).collect();
            let case = Case { args: a, input: Input::Files(files), rplan: ReadPlan::default(), wplan: WritePlan::default() };
            let o = ctx.run(&case);
            ctx.case_done();
            ctx.trace_validated();
            ctx.nontrivial();
            ctx.guard("directory-argument");
            ctx.transition(&("dir", li, ooa));
            let sig = format!("directory layout #{li} ooa={ooa}");
            let rows = match (o.res.is_ok(), rows_of(&o)) {
                (true, Ok(r)) => r,
                _ => {
                    ctx.violation("run-failed", &sig, &[case.clone()], "Ok".into(), o.brief());
                    continue;
                }
            };
            // expected values per file
            let mut problem: Option<(String, String, String)> = None;
            let mut seen_files: Vec<String> = Vec::new();
            let mut at = 0usize;
            while at < rows.len() && problem.is_none() {
                let Some(V::Str(f)) = rows[at].get("f") else {
                    problem = Some(("file-name".into(), "a file name".into(), json::to_text(&rows[at])));
                    break;
                };
                let Some((name, text)) = layout.iter().find(|(n, _)| f.ends_with(&format!("/{n}"))) else {
                    problem = Some(("file-name".into(), "one of the files given".into(), f.clone()));
                    break;
                };
                if seen_files.contains(&name.to_string()) {
                    problem = Some(("rows-of-one-file-not-contiguous".into(), format!("all rows of {name} together"), format!("row {at} returns to {name}")));
                    break;
                }
                seen_files.push(name.to_string());
                let vals: Vec<V> = values_of(text).into_iter().filter(|v| !ooa || matches!(v, V::Obj(_) | V::Arr(_))).collect();
                for (j, v) in vals.iter().enumerate() {
                    let Some(r) = rows.get(at) else {
                        problem = Some(("row-count".into(), format!("{} rows for {name}", vals.len()), format!("{j}")));
                        break;
                    };
                    if r.get("v") != Some(v) || !matches!(r.get("f"), Some(V::Str(g)) if g == f) {
                        problem = Some(("value".into(), format!("{} from {name}", json::to_text(v)), json::to_text(r)));
                        break;
                    }
                    if num(r, "j") != Some(j as i128) {
                        problem = Some(("index-in-file".into(), format!("&index-in-file = {j} for value {} of {name}", json::to_text(v)), format!("{:?}", num(r, "j"))));
                        break;
                    }
                    if num(r, "i") != Some(at as i128) {
                        problem = Some(("index".into(), format!("&index = {at}"), format!("{:?}", num(r, "i"))));
                        break;
                    }
                    at += 1;
                }
            }
            if problem.is_none() {
                // every file with values was read, plain files in command-line order around the directory
                let expected_files: Vec<&str> = layout.iter().filter(|(_, t)| values_of(t).iter().any(|v| !ooa || matches!(v, V::Obj(_) | V::Arr(_)))).map(|(n, _)| *n).collect();
                let mut a = seen_files.clone();
                a.sort();
                let mut b: Vec<String> = expected_files.iter().map(|s| s.to_string()).collect();
                b.sort();
                if a != b {
                    problem = Some(("files-read".into(), format!("{b:?}"), format!("{a:?}")));
                } else {
                    let top = |n: &str| n.split('/').next().unwrap().to_string();
                    let mut order_seen: Vec<String> = Vec::new();
                    for n in &seen_files {
                        if order_seen.last() != Some(&top(n)) {
                            order_seen.push(top(n));
                        }
                    }
                    let mut order_given: Vec<String> = Vec::new();
                    for n in &expected_files {
                        if !order_given.contains(&top(n)) {
                            order_given.push(top(n));
                        }
                    }
                    if order_seen != order_given {
                        problem = Some(("argument-order".into(), format!("{order_given:?}"), format!("{order_seen:?}")));
                    }
                }
            }
            match problem {
                Some((clause, e, g)) => ctx.violation(&clause, &sig, &[case.clone()], e, g),
                None => ctx.outcome("context-ok"),
            }
        }
    }
    ctx.level_done("directory-arguments(6-layouts,nested,next-to-plain-files)");
}

fn one_stream(ctx: &mut Ctx, st: &Stream, ooa: bool) {
    let nontrivial = st.vals.len() >= 2;
    // ---------- (c) context model on stdin
    let a = args_ctx(ooa, true, true, "ignore");
    let base = Case::owned(a.clone(), st.text.clone());
    let o = ctx.run(&base);
    ctx.case_done();
    ctx.trace_validated();
    ctx.state(&(st.vals.len(), st.clean, ooa));
    if nontrivial {
        ctx.nontrivial();
    }
    if ooa && st.vals.iter().any(|(v, _, _)| !matches!(v, V::Obj(_) | V::Arr(_))) {
        ctx.guard("ooa-skips-scalar");
    }
    let sig = |what: &str| format!("{what}: {} ooa={ooa}", st.desc);
    match (o.res.is_ok(), rows_of(&o)) {
        (true, Ok(rows)) => {
            if let Some((clause, e, g)) = check_context(&rows, st, ooa, 0, None, true) {
                ctx.outcome(&clause);
                ctx.violation(&clause, &sig("stdin"), &[base.clone()], e, format!("{g}; {}", o.brief()));
            } else {
                ctx.outcome("context-ok");
            }
        }
        _ => ctx.violation("run-failed", &sig("stdin"), &[base.clone()], "Ok with JSON rows".into(), o.brief()),
    }
    ctx.sample(|| serde_json::json!({"input": String::from_utf8_lossy(&st.text), "args": a, "stdout": o.out_str()}));

    // ---------- (a) deliveries: observation must be byte-identical (policy stdout: error lines included)
    let a2 = args_ctx(ooa, true, true, "stdout");
    let whole = ctx.run(&Case::owned(a2.clone(), st.text.clone()));
    let len = st.text.len();
    let mut plans: Vec<(String, ReadPlan)> = Vec::new();
    plans.push(("greedy-whole".into(), ReadPlan { greedy: true, ..ReadPlan::default() }));
    plans.push(("eintr-everywhere".into(), ReadPlan { interrupts: (0..=len).collect(), ..ReadPlan::default() }));
    for c1 in 1..len {
        plans.push((format!("greedy-cut-{c1}"), ReadPlan { greedy: true, cuts: vec![c1], ..ReadPlan::default() }));
        plans.push((format!("eintr-{c1}"), ReadPlan { interrupts: vec![c1], ..ReadPlan::default() }));
        plans.push((format!("greedy-eintr-{c1}"), ReadPlan { greedy: true, interrupts: vec![c1], ..ReadPlan::default() }));
        for c2 in (c1 + 1)..len {
            plans.push((format!("greedy-cut-{c1}-{c2}"), ReadPlan { greedy: true, cuts: vec![c1, c2], ..ReadPlan::default() }));
        }
    }
    for (name, plan) in plans {
        let mut c = Case::owned(a2.clone(), st.text.clone());
        c.rplan = plan;
        let o2 = ctx.run(&c);
        ctx.case_done();
        ctx.trace_validated();
        ctx.transition(&(st.vals.len(), name.len() % 5, ooa));
        if name.starts_with("greedy-cut") {
            ctx.guard("greedy-chunking");
            if st.vals.iter().any(|(_, s, e)| c.rplan.cuts.iter().any(|k| k > s && k < e)) {
                ctx.guard("cut-inside-value");
                ctx.nontrivial();
            }
        }
        if o2.res != whole.res || o2.stdout != whole.stdout || o2.stderr != whole.stderr {
            ctx.outcome("delivery-dependent");
            ctx.violation("delivery-changes-output", &sig(&format!("delivery {}", name.split('-').take(2).collect::<Vec<_>>().join("-"))), &[c.clone()], whole.brief(), o2.brief());
        } else {
            ctx.outcome("delivery-ok");
        }
    }

    // ---------- stdin vs one file (no &file-name; policy ignore since messages name the file)
    let a3 = args_ctx(ooa, true, false, "ignore");
    let s_in = ctx.run(&Case::owned(a3.clone(), st.text.clone()));
    let fcase = Case { args: a3.clone(), input: Input::Files(vec![("one.json".into(), st.text.clone())]), rplan: ReadPlan::default(), wplan: WritePlan::default() };
    let s_f = ctx.run(&fcase);
    ctx.case_done();
    if s_in.res != s_f.res || s_in.stdout != s_f.stdout {
        ctx.violation("stdin-vs-file", &sig("file"), &[fcase.clone()], s_in.brief(), s_f.brief());
    }
    if s_f.factory_calls != 0 {
        ctx.violation("stdin-opened-with-files", &sig("file"), &[fcase.clone()], "stdin untouched".into(), s_f.brief());
    }

    // ---------- (b)+(c) partitions into files: every composition into <= 4 files at value boundaries,
    // and every single cut position inside the text (2 files)
    let d = crate::drive::work_dir();
    let n = st.vals.len();
    // boundaries between values: cut in the middle of the gap (just before the next value's first byte)
    let mut boundary_sets: Vec<Vec<usize>> = vec![vec![]];
    if n >= 2 {
        let bpos: Vec<usize> = (1..n).map(|k| st.vals[k].1).collect();
        for m in crate::explore::subsets_by_size(bpos.len()) {
            if m == 0 || m.count_ones() > 3 {
                continue;
            }
            boundary_sets.push(bpos.iter().enumerate().filter(|(i, _)| m & (1 << i) != 0).map(|(_, p)| *p).collect());
        }
    }
    for c in 1..len {
        if !st.vals.iter().any(|(_, s, _)| *s == c) {
            boundary_sets.push(vec![c]);
        }
    }
    for cuts in boundary_sets {
        let mut parts: Vec<Vec<u8>> = Vec::new();
        let mut p = 0;
        for c in &cuts {
            parts.push(st.text[p..*c].to_vec());
            p = *c;
        }
        parts.push(st.text[p..].to_vec());
        let inside = cuts.iter().any(|c| st.vals.iter().any(|(_, s, e)| c > s && c < e));
        if inside {
            ctx.guard("file-boundary-inside-value");
        }
        for policy in ["ignore", "stdout"] {
            if policy == "stdout" && ctx.tier == Tier::Quick && n >= 3 {
                continue;
            }
            let ap = args_ctx(ooa, false, true, policy);
            // names that are NOT in sorted order as given (files are processed in command-line order)
            let mut files: Vec<(String, Vec<u8>)> = parts.iter().enumerate().map(|(i, b)| (format!("{}{i}.json", ["m", "c", "x", "a", "k"][i % 5]), b.clone())).collect();
            let mut dup = false;
            if cuts.is_empty() && policy == "stdout" {
                // the same file given twice is read twice (checked by out(f,f) = out(f).out(f) only)
                files.push(files[0].clone());
                ctx.guard("same-file-twice");
                dup = true;
            }
            let all = Case { args: ap.clone(), input: Input::Files(files.clone()), rplan: ReadPlan::default(), wplan: WritePlan::default() };
            let oa = ctx.run(&all);
            ctx.case_done();
            ctx.trace_validated();
            if inside || parts.len() > 1 {
                ctx.nontrivial();
            }
            let mut concat: Vec<u8> = Vec::new();
            let mut ok = true;
            for f in &files {
                let one = Case { args: ap.clone(), input: Input::Files(vec![f.clone()]), rplan: ReadPlan::default(), wplan: WritePlan::default() };
                let oo = ctx.run(&one);
                ok &= oo.res.is_ok();
                concat.extend_from_slice(&oo.stdout);
            }
            if !oa.res.is_ok() || !ok || oa.stdout != concat {
                ctx.outcome("files-not-separate");
                ctx.violation(
                    "files-not-processed-separately",
                    &sig(&format!("{} files, cut inside value: {inside}, policy {policy}", parts.len())),
                    &[all.clone()],
                    format!("out(f1)..out(fn) = {:?}", String::from_utf8_lossy(&concat)),
                    oa.brief(),
                );
                continue;
            }
            ctx.outcome("files-ok");
            // global &index across files + per-file model (clean partitions at value boundaries only)
            if policy == "ignore" && !inside && st.clean && !dup {
                let ai = args_ctx(ooa, true, true, "ignore");
                let all_i = Case { args: ai, input: Input::Files(files.clone()), rplan: ReadPlan::default(), wplan: WritePlan::default() };
                let oi = ctx.run(&all_i);
                match rows_of(&oi) {
                    Ok(rows) => {
                        // split rows per file by &file-name and check each file with its own text
                        let mut first = 0usize;
                        let mut off = 0usize;
                        for (i, (name, bytes)) in files.iter().enumerate() {
                            let path = d.join(name).to_string_lossy().into_owned();
                            let frows: Vec<V> = rows.iter().filter(|r| matches!(r.get("f"), Some(V::Str(g)) if *g == path)).cloned().collect();
                            let fvals: Vec<(V, usize, usize)> = st
                                .vals
                                .iter()
                                .filter(|(_, s, _)| *s >= off && *s < off + bytes.len())
                                .map(|(v, s, e)| (v.clone(), s - off, e - off))
                                .collect();
                            let fst = Stream { text: bytes.clone(), vals: fvals, clean: true, desc: String::new() };
                            if let Some((clause, e, g)) = check_context(&frows, &fst, ooa, first, Some(&path), true) {
                                ctx.violation(&format!("files-{clause}"), &sig(&format!("file {i} of {}", files.len())), &[all_i.clone()], e, format!("{g}; {}", oi.brief()));
                                break;
                            }
                            first += frows.len();
                            off += bytes.len();
                        }
                        if rows.len() != first {
                            ctx.violation("files-row-count", &sig("files"), &[all_i.clone()], format!("{first} rows attributed to the given files"), format!("{} rows", rows.len()));
                        }
                    }
                    Err(e) => ctx.violation("files-rows-unreadable", &sig("files"), &[all_i.clone()], "JSON rows".into(), e),
                }
            }
        }
    }

    // ---------- FIFO with small writes (real OS chunking through BufReader), a few per stream
    if st.clean && st.vals.len() == 2 && !ooa {
        for chunk in [3usize, 7] {
            let path = d.join(format!("fifo{chunk}"));
            let cpath = std::ffi::CString::new(path.to_string_lossy().as_bytes()).unwrap();
            let _ = std::fs::remove_file(&path);
            if unsafe { libc::mkfifo(cpath.as_ptr(), 0o600) } != 0 {
                continue;
            }
            let data = st.text.clone();
            let wp = path.clone();
            let w = std::thread::spawn(move || {
                use std::io::Write;
                if let Ok(mut f) = std::fs::OpenOptions::new().write(true).open(&wp) {
                    for c in data.chunks(chunk) {
                        if f.write_all(c).is_err() {
                            break;
                        }
                        let _ = f.flush();
                        std::thread::yield_now();
                    }
                }
            });
            let mut a4 = args_ctx(false, true, false, "ignore");
            a4.push(path.to_string_lossy().into_owned());
            let of = crate::drive::run_with(&a4, b"0".to_vec(), &ReadPlan::default(), &WritePlan::default());
            ctx.rep.evaluations += 1;
            let _ = w.join();
            let _ = std::fs::remove_file(&path);
            ctx.guard("fifo");
            if of.res != s_in.res || of.stdout != s_in.stdout {
                ctx.violation("fifo-delivery-changes-output", &sig("fifo"), &[Case::owned(a4.clone(), st.text.clone())], s_in.brief(), of.brief());
            }
        }
    }
}
