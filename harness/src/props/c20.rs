//! C20 — the executable separates data from diagnostics and signals failure by exit code.

use super::{Prop, COMMON_ASSUMPTIONS};
use crate::ctx::Ctx;
use crate::drive::{self, Case, Input, OutMode};

pub fn prop() -> Prop {
    let mut a = COMMON_ASSUMPTIONS.to_vec();
    a.push("Linux pipe, EPIPE and /dev/full semantics; the Rust runtime ignores SIGPIPE");
    a.push("a closed stdout descriptor (>&-) is outside: std maps EBADF on the standard handles to success before jawk sees it");
    Prop {
        id: "C20",
        level: "model_checking",
        rule: "the real jawk binary built from the working tree, spawned with pipes: 18 inputs (clean, noisy, junk words and broken literals between values, truncated tail, empty; 3000 rows, one 70 KB row, 1500 diagnostics, a long clean stream with a truncated tail - output beyond every stdout buffer) x 4 --on-error policies x 27 configurations (14 valid pipelines - three of them ending at a --take whose last row spans several lines -, two with --skip/--take at the edge of the 64-bit range, incl. options unrelated to error handling such as --only-objects-and-arrays, --unique, cache size, styles, split+group; 13 classes of invalid configuration, missing input file, file argument; every arrangement of <=3 file arguments over {readable, missing} naming a missing one, alone, with --merge and with --take 1: must fail whatever the library run says) x stdout in {pipe, pipe whose reader is gone (EPIPE), /dev/full} x row separator with/without newline; all combinations; non-trivial = the run produces output or must fail; distinct by construction; clean inputs through a pipe named as a file (/dev/stdin); inputs that cannot be read: /proc/self/mem as a file argument after a readable file, a directory as the standard input; the version and help requests (long and short, alone and next to other options) and four usage errors",
        explanation: "every combination is executed as a child process and compared with the in-process run of the same arguments: stdout = exactly the in-process stdout sink, under --on-error=stderr the diagnostics = exactly the in-process stderr sink and none on stdout, exit status 0 iff the in-process Result is Ok and stdout accepted every byte, otherwise non-zero with a non-empty stderr",
        assumptions: a,
        guards: vec!["a-pipe-named-as-a-file", "missing-file-in-every-position", "file-name-that-is-not-text", "version-and-help", "unreadable-input", "output-beyond-every-buffer", "exit-nonzero-on-config-error", "exit-nonzero-on-full-stdout", "epipe", "stderr-policy-diagnostics", "unterminated-buffer-flush", "panic-policy-fails", "missing-file"],
        budget_s: (100, 900),
        single_worker: false,
        run,
        recheck: None,
    }
}

const INPUTS: [&str; 14] = [
    "",
    "1\n",
    "{\"a\":1}\n{\"a\":2}\n",
    "[1,2] \"x\" true",
    "1 x 2\n",
    "} 1\n",
    "{\"a\":1} , {\"a\":3}\n]",
    "[1, 2",
    "\"abc",
    "{\"a\": ",
    "1 2 3 4 5 6 7 8 9 10\n",
    "\u{e9} 1\n",
    "{\"a\":1} 12 oops {\"b\":[2]} tru \"s{\" [3] nul",
    "[1] - [2] 1.2.3 {\"a\":4}\n",
];

const POLICIES: [&str; 4] = ["ignore", "stdout", "stderr", "panic"];

fn configs() -> Vec<(&'static str, Vec<&'static str>, bool)> {
    // (name, args, valid)
    vec![
        ("plain", vec![], true),
        ("select", vec!["--select=.a=A", "--select=(size .)=n"], true),
        ("sort-take", vec!["--sort-by=.=DESC", "--take=2"], true),
        ("merge", vec!["--merge"], true),
        ("csv", vec!["--output-style=csv", "--select=.a=A"], true),
        // options that have nothing to do with error handling: the exit status must not depend on them
        ("only-objects-and-arrays", vec!["--only-objects-and-arrays"], true),
        ("only-objects-and-arrays-unique-text", vec!["--only-objects-and-arrays", "--unique", "--output-style=text"], true),
        ("filter-cache0-pretty", vec!["--filter=(not (null? .))", "--regular-expression-cache-size=0", "--style=pretty", "--utf8-strings"], true),
        // option values at the edge of their range are still valid configurations
        ("limits-at-the-edge", vec!["--skip=1", "--take=18446744073709551615"], true),
        ("limits-at-the-edge-sorted", vec!["--sort-by=(stringify .)", "--skip=18446744073709551615", "--take=18446744073709551615", "--regular-expression-cache-size=1"], true),
        ("split-group", vec!["--split-by=(? (array? .) . (push [] .))", "--group-by=(stringify .)"], true),
        // the last row that --take lets through is the one whose write fails; rows that do not pass through the line
        // buffer of standard output (several lines, or longer than the buffer)
        ("take1-pretty", vec!["--take=1", "--style=pretty"], true),
        ("take2-pretty-select", vec!["--take=2", "--style=pretty", "--select=.=v", "--select=(push [] . .)=w"], true),
        ("skip1-take1-text-multiline", vec!["--skip=1", "--take=1", "--output-style=text", "--select=(concat \"line\\n\" (stringify .))=t"], true),
        ("bad-expression", vec!["--filter=(len"], false),
        ("unknown-function", vec!["--select=(nosuch 1)"], false),
        ("bad-set", vec!["--set=novalue"], false),
        ("set-variable-without-a-value", vec!["--set=limit=.max", "--select=:limit=l"], false),
        ("set-variable-whose-call-gives-nothing", vec!["--set=limit=(/ \"a\" 2)"], false),
        ("style-mismatch", vec!["--output-style=csv", "--select=.a", "--style=pretty"], false),
        ("csv-without-selection", vec!["--output-style=csv"], false),
        ("bad-option-value", vec!["--on-error=abort"], false),
        ("style-triple-text", vec!["--output-style=text", "--select=.a=A", "--utf8-strings", "--headers"], false),
        ("style-triple-json", vec!["--select=.a=A", "--null-keyword=x", "--style=consise"], false),
        ("csv-with-merge", vec!["--output-style=csv", "--select=.a=A", "--merge"], false),
        ("dangling-separator", vec!["--select=.a.=A"], false),
        ("take0-bad-sort", vec!["--take=0", "--sort-by=.a=UP"], false),
    ]
}

fn run(ctx: &mut Ctx) {
    let bin = match std::env::var("JAWK_BIN") {
        Ok(b) if std::path::Path::new(&b).exists() => b,
        _ => {
            ctx.machinery_error("JAWK_BIN is not set or missing (run through ./check C20)".into());
            return;
        }
    };
    let d = drive::work_dir();
    // size thresholds: output well beyond any stdout buffer (1 KiB line buffer, 8 KiB block buffer, 64 KiB pipe),
    // in many small rows, in one long row, and as many diagnostics
    let mut inputs: Vec<String> = INPUTS.iter().map(|s| s.to_string()).collect();
    inputs.push((0..3000).map(|i| format!("{{\"a\":{i}}}\n")).collect::<String>());
    inputs.push(format!("{{\"a\":\"{}\"}}\n[1]\n", "y".repeat(70_000)));
    inputs.push((0..1500).map(|i| format!("{i} }} x\n")).collect::<String>());
    inputs.push(format!("{}[1, 2", (0..200).map(|i| format!("{i} ")).collect::<String>()));
    ctx.guard("output-beyond-every-buffer");
    for (ii, input) in inputs.iter().enumerate() {
        for policy in POLICIES {
            for (cname, cargs, valid) in configs() {
                for sep_nl in [true, false] {
                    if !ctx.mine() {
                        continue;
                    }
                    let mut args: Vec<String> = Vec::new();
                    if !(cname == "bad-option-value") {
                        args.push(format!("--on-error={policy}"));
                    }
                    args.extend(cargs.iter().map(|s| s.to_string()));
                    if !sep_nl {
                        args.push("--row-seperator=;".into());
                    }
                    one(ctx, &bin, &args, input.as_bytes(), None, &format!("config {cname} policy {policy} sep_newline {sep_nl}"), valid, policy, ii, false);
                }
            }
            // file arguments: an existing file, and a missing one after an existing one
            if !ctx.mine() {
                continue;
            }
            let f1 = d.join(format!("in{ii}.json"));
            std::fs::write(&f1, input.as_bytes()).unwrap();
            let missing = d.join("does-not-exist.json");
            let a1 = vec![format!("--on-error={policy}"), f1.to_string_lossy().into_owned()];
            one(ctx, &bin, &a1, b"\"stdin unused\"", Some(&a1), &format!("file argument policy {policy}"), true, policy, ii, false);
            let a2 = vec![format!("--on-error={policy}"), f1.to_string_lossy().into_owned(), missing.to_string_lossy().into_owned()];
            ctx.guard("missing-file");
            one(ctx, &bin, &a2, b"1", Some(&a2), &format!("missing file policy {policy}"), true, policy, ii, true);
            // every arrangement of <=3 file arguments over {readable, missing} that names a missing one: the run must
            // fail whatever comes before or after the file that cannot be opened (decided without the library run)
            if ii < 4 {
                let (g, m) = (f1.to_string_lossy().into_owned(), missing.to_string_lossy().into_owned());
                let mut arrangements: Vec<Vec<usize>> = Vec::new();
                crate::explore::seqs_upto(2, 3, |s| if s.contains(&1) { arrangements.push(s.to_vec()) });
                for arr in arrangements {
                    for extra in [None, Some("--merge"), Some("--take=1")] {
                        let mut a = vec![format!("--on-error={policy}")];
                        a.extend(extra.iter().map(|s| s.to_string()));
                        a.extend(arr.iter().map(|k| if *k == 0 { g.clone() } else { m.clone() }));
                        // with --take 1 a run may stop before it reaches a later file
                        let reaches = extra != Some("--take=1") || arr[0] == 1;
                        ctx.guard("missing-file-in-every-position");
                        one(ctx, &bin, &a, b"1", Some(&a), &format!("files {arr:?} (1 = missing) {extra:?} policy {policy}"), true, policy, ii, reaches);
                    }
                }
            }
            // an input file that is not a regular file: the standard input named as /dev/stdin (a pipe). Clean inputs
            // only, since diagnostics name the file. The rows and the status are those of the same bytes on stdin.
            if crate::refmodel::json::parse_stream(input.as_bytes()).is_ok() {
                let a5 = vec![format!("--on-error={policy}"), "/dev/stdin".to_string()];
                let a5ref = vec![format!("--on-error={policy}")];
                ctx.guard("a-pipe-named-as-a-file");
                one(ctx, &bin, &a5, input.as_bytes(), Some(&a5ref), &format!("/dev/stdin as a file argument, policy {policy}"), true, policy, ii, false);
            }
            // a file whose NAME is not valid UTF-8 (file names are bytes): a readable input like any other
            {
                use std::os::unix::ffi::OsStrExt;
                let odd = d.join(std::ffi::OsStr::from_bytes(b"in\xff\xfe.json"));
                if std::fs::write(&odd, input.as_bytes()).is_ok() {
                    let os_args: Vec<std::ffi::OsString> = vec![format!("--on-error={policy}").into(), odd.clone().into_os_string()];
                    let plain = drive::run_child_env(&bin, &a1, b"", OutMode::Pipe, &[]);
                    let oddrun = drive::run_child_env(&bin, &os_args, b"", OutMode::Pipe, &[]);
                    if let (Ok(p), Ok(o)) = (plain, oddrun) {
                        ctx.rep.evaluations += 1;
                        ctx.case_done();
                        ctx.guard("file-name-that-is-not-text");
                        // diagnostics name the file: only the rows are compared
                        let rows_of = |b: &[u8]| -> Vec<u8> { b.split_inclusive(|c| *c == b'\n').filter(|l| !l.starts_with(b"error:")).flatten().copied().collect() };
                        if o.code != p.code || rows_of(&o.stdout) != rows_of(&p.stdout) {
                            let rcase = Case { args: a1.clone(), input: Input::Stdin(b"<the same file under a name that is not valid UTF-8>".to_vec()), rplan: Default::default(), wplan: Default::default() };
                            ctx.violation(if p.code == Some(0) { "nonzero-exit-on-success" } else { "stdout-differs-from-library-run" }, &format!("file name that is not valid UTF-8, policy {policy}"), &[rcase], format!("exit={:?} stdout={:?}", p.code, drive::trunc(&String::from_utf8_lossy(&p.stdout), 120)), format!("exit={:?} stdout={:?} stderr={:?}", o.code, drive::trunc(&String::from_utf8_lossy(&o.stdout), 120), drive::trunc(&String::from_utf8_lossy(&o.stderr), 120)));
                        }
                    }
                    let _ = std::fs::remove_file(&odd);
                }
            }
            // inputs that cannot be READ: a file whose first read fails (EIO) after a readable file, and a standard input
            // whose every read fails (it is a directory)
            let a3 = vec![format!("--on-error={policy}"), f1.to_string_lossy().into_owned(), "/proc/self/mem".to_string()];
            ctx.guard("unreadable-input");
            one(ctx, &bin, &a3, b"1", Some(&a3), &format!("unreadable file policy {policy}"), true, policy, ii, true);
            let _ = std::fs::remove_file(&f1);
            for extra in [vec![], vec!["--select=.=v".to_string()], vec!["--merge".to_string()]] {
                let mut a4 = vec![format!("--on-error={policy}")];
                a4.extend(extra);
                for mode in [OutMode::Pipe, OutMode::DevFull] {
                    match drive::run_child(&bin, &a4, drive::STDIN_IS_A_DIRECTORY, mode) {
                        Ok(c) => {
                            ctx.rep.evaluations += 1;
                            ctx.case_done();
                            ctx.trace_validated();
                            ctx.nontrivial();
                            let rcase = Case { args: a4.clone(), input: Input::Stdin(b"<a directory>".to_vec()), rplan: Default::default(), wplan: Default::default() };
                            let brief = format!("exit={:?} signal={:?} stdout={:?} stderr={:?}", c.code, c.signal, drive::trunc(&String::from_utf8_lossy(&c.stdout), 200), drive::trunc(&String::from_utf8_lossy(&c.stderr), 200));
                            let sig = format!("standard input is a directory, policy {policy} stdout {mode:?}");
                            if c.timed_out {
                                ctx.violation("child-hangs", &sig, &[rcase], "the process ends".into(), brief);
                            } else if c.code == Some(0) {
                                ctx.violation("zero-exit-on-failed-run", &sig, &[rcase], "a non-zero exit status (the input cannot be read)".into(), brief);
                            } else if c.code == Some(101) || c.signal.is_some() {
                                ctx.violation("panic-exit", &sig, &[rcase], "an error exit, not a panic".into(), brief);
                            } else if c.stderr.is_empty() {
                                ctx.violation("failure-without-message", &sig, &[rcase], "a message on standard error".into(), brief);
                            } else if !c.stdout.is_empty() {
                                ctx.violation("stdout-differs-from-library-run", &sig, &[rcase], "nothing on standard output".into(), brief);
                            } else {
                                ctx.outcome("ok");
                            }
                        }
                        Err(e) => ctx.machinery_error(format!("cannot run child: {e}")),
                    }
                }
            }
        }
        if ctx.time_up() {
            ctx.cap("inputs");
            return;
        }
    }
    // runs that succeed without reading anything: the version and the help text (on standard output, status 0), alone
    // and next to other options; and a usage error (non-zero, message on standard error, nothing on standard output)
    if ctx.mine() {
        let info: [&[&str]; 8] = [&["--version"], &["-V"], &["--help"], &["-h"], &["--on-error=panic", "--version"], &["--select=.a=A", "--help"], &["-V", "--take=1"], &["--unique", "-h"]];
        for a in info {
            let args: Vec<String> = a.iter().map(|s| s.to_string()).collect();
            for mode in [OutMode::Pipe] {
                match drive::run_child(&bin, &args, b"1 x 2", mode) {
                    Ok(c) => {
                        ctx.rep.evaluations += 1;
                        ctx.case_done();
                        ctx.trace_validated();
                        ctx.nontrivial();
                        ctx.guard("version-and-help");
                        let rcase = Case { args: args.clone(), input: Input::Stdin(b"1 x 2".to_vec()), rplan: Default::default(), wplan: Default::default() };
                        let brief = format!("exit={:?} stdout={:?} stderr={:?}", c.code, drive::trunc(&String::from_utf8_lossy(&c.stdout), 120), drive::trunc(&String::from_utf8_lossy(&c.stderr), 120));
                        let sig = format!("information request {a:?}");
                        if c.code != Some(0) {
                            ctx.violation("nonzero-exit-on-success", &sig, &[rcase], "exit status 0".into(), brief);
                        } else if c.stdout.is_empty() || !c.stderr.is_empty() {
                            ctx.violation("stderr-noise-on-success", &sig, &[rcase], "the text on standard output, nothing on standard error".into(), brief);
                        } else {
                            ctx.outcome("ok");
                        }
                    }
                    Err(e) => ctx.machinery_error(format!("cannot run child: {e}")),
                }
            }
        }
        let usage: [&[&str]; 4] = [&["--no-such-option"], &["--take=minus"], &["--skip=-1"], &["--style=fancy"]];
        for a in usage {
            let args: Vec<String> = a.iter().map(|s| s.to_string()).collect();
            if let Ok(c) = drive::run_child(&bin, &args, b"1 2", OutMode::Pipe) {
                ctx.rep.evaluations += 1;
                ctx.case_done();
                let rcase = Case { args: args.clone(), input: Input::Stdin(b"1 2".to_vec()), rplan: Default::default(), wplan: Default::default() };
                let brief = format!("exit={:?} stdout={:?} stderr={:?}", c.code, drive::trunc(&String::from_utf8_lossy(&c.stdout), 120), drive::trunc(&String::from_utf8_lossy(&c.stderr), 120));
                if c.code == Some(0) || c.code == Some(101) || c.stderr.is_empty() || !c.stdout.is_empty() {
                    ctx.violation("zero-exit-on-invalid-configuration", &format!("usage error {a:?}"), &[rcase], "a non-zero exit status, a message on standard error, nothing on standard output".into(), brief);
                }
            }
        }
    }
    ctx.level_done("all-combinations");
}

#[allow(clippy::too_many_arguments)]
fn one(ctx: &mut Ctx, bin: &str, args: &[String], input: &[u8], inproc_args: Option<&Vec<String>>, what: &str, valid: bool, policy: &str, ii: usize, names_unreadable_input: bool) {
    // the in-process reference run
    let rcase = Case { args: inproc_args.cloned().unwrap_or_else(|| args.to_vec()), input: Input::Stdin(input.to_vec()), rplan: Default::default(), wplan: Default::default() };
    let r = ctx.run(&rcase);
    let ref_ok = r.res.is_ok();
    for mode in [OutMode::Pipe, OutMode::ClosedPipe, OutMode::DevFull] {
        let c = match drive::run_child(bin, args, input, mode) {
            Ok(c) => c,
            Err(e) => {
                ctx.machinery_error(format!("cannot run child: {e}"));
                return;
            }
        };
        ctx.rep.evaluations += 1;
        ctx.case_done();
        ctx.trace_validated();
        ctx.state(&(format!("{mode:?}"), ref_ok, r.stdout.is_empty()));
        ctx.transition(&(format!("{mode:?}"), ref_ok, r.stdout.is_empty(), c.code));
        if !r.stdout.is_empty() || !ref_ok {
            ctx.nontrivial();
        }
        let sig = format!("{what} stdout {mode:?}");
        let brief = format!("exit={:?} signal={:?} stdout={:?} stderr={:?}", c.code, c.signal, drive::trunc(&String::from_utf8_lossy(&c.stdout), 200), drive::trunc(&String::from_utf8_lossy(&c.stderr), 200));
        let mut fail = |ctx: &mut Ctx, clause: &str, exp: String| {
            ctx.outcome(clause);
            ctx.violation(clause, &sig, &[rcase.clone()], exp, brief.clone());
        };
        if c.timed_out {
            fail(ctx, "child-hangs", "the process ends".into());
            continue;
        }
        let all_accepted = mode == OutMode::Pipe || r.stdout.is_empty();
        // independent of the library run: under --on-error=panic a malformed input must fail the run
        // (unless --take lets the pipeline stop before the malformed part is read)
        let malformed_input = inproc_args.is_none() && crate::refmodel::json::parse_stream(input).is_err();
        let must_fail_input = valid && policy == "panic" && malformed_input && !args.iter().any(|a| a.starts_with("--take"));
        if must_fail_input && c.code == Some(0) {
            fail(ctx, "zero-exit-on-malformed-input-under-panic", "a non-zero exit status (the input is not a clean JSON stream)".into());
            continue;
        }
        // likewise: a run that names an input it cannot open or read must fail
        if names_unreadable_input && c.code == Some(0) {
            fail(ctx, "zero-exit-although-an-input-could-not-be-read", "a non-zero exit status (an input file cannot be opened or read)".into());
            continue;
        }
        // likewise independent of the library run: a configuration of a class known to be invalid must fail
        if !valid && c.code == Some(0) {
            fail(ctx, "zero-exit-on-invalid-configuration", "a non-zero exit status (the configuration is invalid)".into());
            continue;
        }
        let must_succeed = ref_ok && all_accepted && !must_fail_input && valid && !names_unreadable_input;
        if c.signal.is_some() {
            fail(ctx, "killed-by-signal", "a normal exit".into());
            continue;
        }
        if c.code == Some(101) {
            fail(ctx, "panic-exit", "an error exit, not a panic".into());
            continue;
        }
        if must_succeed {
            if c.code != Some(0) {
                fail(ctx, "nonzero-exit-on-success", "exit status 0".into());
                continue;
            }
        } else {
            if c.code == Some(0) {
                let clause = if !ref_ok { "zero-exit-on-failed-run" } else { "zero-exit-on-lost-output" };
                fail(ctx, clause, "a non-zero exit status".into());
                continue;
            }
            if c.stderr.is_empty() {
                fail(ctx, "failure-without-message", "a message on standard error".into());
                continue;
            }
            if !valid {
                ctx.guard("exit-nonzero-on-config-error");
            }
            if mode == OutMode::DevFull && ref_ok {
                ctx.guard("exit-nonzero-on-full-stdout");
                if args.iter().any(|a| a == "--row-seperator=;") {
                    ctx.guard("unterminated-buffer-flush");
                }
            }
            if mode == OutMode::ClosedPipe && ref_ok {
                ctx.guard("epipe");
            }
            if policy == "panic" && !ref_ok && valid {
                ctx.guard("panic-policy-fails");
            }
        }
        if mode == OutMode::Pipe {
            // rows only on stdout, exactly those of the in-process run
            if c.stdout != r.stdout {
                fail(ctx, "stdout-differs-from-library-run", format!("{:?}", drive::trunc(&r.out_str(), 200)));
                continue;
            }
            if policy == "stderr" && valid {
                // diagnostics: exactly the library's error stream, followed by the final error message if the run failed
                if !c.stderr.starts_with(&r.stderr) {
                    fail(ctx, "diagnostics-not-on-stderr", format!("stderr starts with {:?}", drive::trunc(&r.err_str(), 200)));
                    continue;
                }
                if !r.stderr.is_empty() {
                    ctx.guard("stderr-policy-diagnostics");
                }
                if ref_ok && c.stderr != r.stderr {
                    fail(ctx, "extra-stderr-output", format!("{:?}", drive::trunc(&r.err_str(), 200)));
                    continue;
                }
            }
            if policy != "stdout" && c.stdout.windows(6).any(|w| w == b"error:") && !r.stdout.windows(6).any(|w| w == b"error:") {
                fail(ctx, "diagnostic-on-stdout", "no error: line on standard output".into());
                continue;
            }
            if must_succeed && policy != "stderr" && !c.stderr.is_empty() {
                fail(ctx, "stderr-noise-on-success", "empty standard error".into());
                continue;
            }
        }
        ctx.outcome("ok");
        let _ = ii;
        ctx.sample(|| serde_json::json!({"args": args, "stdin": String::from_utf8_lossy(input), "stdout_mode": format!("{mode:?}"), "exit": c.code, "stdout": String::from_utf8_lossy(&c.stdout), "stderr": String::from_utf8_lossy(&c.stderr)}));
    }
}
