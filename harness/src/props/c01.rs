//! C01 — stream fidelity: every input JSON value comes out once, in order, unchanged.

use super::{Prop, COMMON_ASSUMPTIONS};
use crate::ctx::{Ctx, Tier};
use crate::drive::{Case, Input, Obs};
use crate::refmodel::json::{self, to_text, V};
use crate::refmodel::spell::{self, may_touch, template};

pub fn prop() -> Prop {
    let mut assumptions = COMMON_ASSUMPTIONS.to_vec();
    assumptions.push("'integers exactly' is read as: integer literals (no fraction/exponent) in [-2^63, 2^64); every other literal is compared as its nearest double");
    Prop {
        id: "C01",
        level: "model_checking",
        rule: "streams of <=2 values over the 80-value universe U1 and <=3 (thorough <=6) over a 12-value core, every legal separator (whitespace menu or touching; 5 kinds for triples, 3 for 4- and 5-streams, 2 for 6-streams), spelling deviations k=0,1 (thorough <=3, and 4 on the core) per value from the whitespace/escape/number menus; size ladders to 8193 bytes/members/values, and 65535..65537 characters, elements, members, values and digits; a decimal grid of 36 mantissas (thorough ~1150: every 1..3-digit mantissa and the neighbours of 2^24..2^64 and 10^15..10^19) x every exponent -345..310 x 2 spellings; a position grid: 13 atoms (all types, exponent forms, a 20-digit integer, a string spelled like the start of a literal) at every position (only/first/last/middle element or member) of every nesting shape of depth <=3 (thorough 4), members named by each of 10 names (empty, literal-like, number-like, with blank, quote, line feed, non-ASCII), compact and indented, and as `value atom value`; non-trivial = >=2 values, or a non-default spelling, or touching tokens; cases are distinct by construction",
        explanation: "bounded-exhaustive enumeration of conforming serialisations; jawk (no options) is run on each and stdout is read back with an independent strict RFC 8259 reader and compared value by value with the reference parse of the input",
        assumptions,
        guards: vec!["decimal-grid", "size-thresholds", "touching-tokens", "upper-case-exponent", "escape-variant", "multi-value", "depth-64", "position-grid", "sixty-five-thousand"],
        budget_s: (100, 1500),
        single_worker: false,
        run,
        recheck: Some(recheck),
    }
}

pub struct Fail {
    pub clause: &'static str,
    pub sig: String,
    pub expected: String,
    pub actual: String,
}

/// The oracle, defined on (input, observation) only: the input is a clean stream.
pub fn oracle(input: &[u8], obs: &Obs) -> Option<Fail> {
    let exp = match json::parse_stream(input) {
        Ok(v) => v,
        Err(_) => return None, // not in the domain
    };
    let exp_txt = || exp.iter().map(|s| to_text(&s.v)).collect::<Vec<_>>().join(" ");
    let inp = String::from_utf8_lossy(input).into_owned();
    if !obs.res.is_ok() {
        return Some(Fail {
            clause: "result",
            sig: format!("{} on {:?}", obs.res.short(), crate::drive::trunc(&inp, 80)),
            expected: "Ok".into(),
            actual: obs.res.short(),
        });
    }
    if !obs.stderr.is_empty() {
        return Some(Fail {
            clause: "stderr",
            sig: format!("stderr not empty on {:?}", crate::drive::trunc(&inp, 80)),
            expected: "empty stderr".into(),
            actual: obs.err_str(),
        });
    }
    let rows = match json::parse_rows(&obs.stdout, b"\n") {
        Ok(r) => r,
        Err(e) => {
            return Some(Fail {
                clause: "framing",
                sig: format!("input {:?}", crate::drive::trunc(&inp, 80)),
                expected: format!("rows: {}", exp_txt()),
                actual: format!("{e}; stdout={:?}", crate::drive::trunc(&obs.out_str(), 200)),
            })
        }
    };
    for (i, (r, e)) in rows.iter().zip(exp.iter()).enumerate() {
        if *r != e.v {
            if astral_explained(&e.v, r) {
                return Some(Fail {
                    clause: "row-value-astral-escape",
                    sig: "a character outside the BMP is written as \\u followed by 5 or 6 hex digits (and nothing else differs)".into(),
                    expected: format!("row {i} = {}", to_text(&e.v)),
                    actual: format!("row {i} = {} (stdout: {:?})", to_text(r), crate::drive::trunc(&obs.out_str(), 200)),
                });
            }
            let src = String::from_utf8_lossy(&input[e.start..e.end]).into_owned();
            return Some(Fail {
                clause: "row-value",
                sig: format!("value {:?}", crate::drive::trunc(&src, 80)),
                expected: format!("row {i} = {}", to_text(&e.v)),
                actual: format!("row {i} = {} (all rows: {:?})", to_text(r), crate::drive::trunc(&obs.out_str(), 200)),
            });
        }
    }
    if rows.len() != exp.len() {
        return Some(Fail {
            clause: "row-count",
            sig: format!("input {:?}", crate::drive::trunc(&inp, 80)),
            expected: format!("{} rows: {}", exp.len(), exp_txt()),
            actual: format!("{} rows: {:?}", rows.len(), crate::drive::trunc(&obs.out_str(), 200)),
        });
    }
    None
}

/// The known printer defect (pinned by the repository's own unit test
/// `json_printer_will_print_string_value_ascii`): U+1F603 is written `\\u1f603`,
/// which reads back as U+1F60 followed by "3". True iff `actual` is exactly
/// `expected` with every non-BMP character damaged in that way and nothing else.
pub fn astral_explained(expected: &V, actual: &V) -> bool {
    fn dmg(s: &str) -> (String, bool) {
        let mut out = String::new();
        let mut any = false;
        for c in s.chars() {
            if (c as u32) > 0xFFFF {
                any = true;
                let hex = format!("{:x}", c as u32);
                let first = u32::from_str_radix(&hex[..4], 16).unwrap();
                match char::from_u32(first) {
                    Some(ch) => out.push(ch),
                    None => return (String::new(), false),
                }
                out.push_str(&hex[4..]);
            } else {
                out.push(c);
            }
        }
        (out, any)
    }
    fn walk(e: &V, any: &mut bool) -> V {
        match e {
            V::Str(s) => {
                let (d, a) = dmg(s);
                *any |= a;
                V::Str(d)
            }
            V::Arr(a) => V::Arr(a.iter().map(|x| walk(x, any)).collect()),
            V::Obj(o) => V::Obj(
                o.iter()
                    .map(|(k, v)| {
                        let (d, a) = dmg(k);
                        *any |= a;
                        (d, walk(v, any))
                    })
                    .collect(),
            ),
            other => other.clone(),
        }
    }
    let mut any = false;
    let d = walk(expected, &mut any);
    any && d == *actual
}

fn recheck(cases: &[Case], _clause: &str) -> bool {
    cases.iter().any(|c| {
        let obs = crate::drive::run(c);
        match &c.input {
            Input::Stdin(b) => oracle(b, &obs).is_some(),
            _ => false,
        }
    })
}

fn check(ctx: &mut Ctx, input: String, expected: &[&V], nontrivial: bool) {
    let bytes = input.into_bytes();
    // generator self-check: the strict reader must read back what the generator meant
    match json::parse_stream(&bytes) {
        Ok(vs) if vs.len() == expected.len() && vs.iter().zip(expected).all(|(a, b)| a.v == **b) => {}
        other => {
            ctx.machinery_error(format!(
                "generator/strict-reader disagreement on {:?}: {:?}",
                String::from_utf8_lossy(&bytes),
                other.map(|v| v.len()).map_err(|e| e.1)
            ));
            return;
        }
    }
    // model states / transitions of the reference automaton on this trace
    {
        let mut st: Vec<(u32, u8)> = Vec::new();
        let mut rec = |s: u32, b: u8| st.push((s, b));
        let mut p = json::P::new(&bytes);
        p.trace = Some(&mut rec);
        loop {
            p.ws();
            if p.i >= bytes.len() || p.value(0, 0).is_err() {
                break;
            }
        }
        drop(p);
        for (s, b) in st {
            ctx.state(&s);
            ctx.transition(&(s, b));
        }
    }
    let case = Case::owned(vec![], bytes);
    let obs = ctx.run(&case);
    ctx.case_done();
    ctx.trace_validated();
    if nontrivial {
        ctx.nontrivial();
    }
    let Input::Stdin(b) = &case.input else { unreachable!() };
    if b.windows(2).any(|w| w[0].is_ascii_digit() && w[1] == b'E') {
        ctx.guard("upper-case-exponent");
    }
    match oracle(b, &obs) {
        None => ctx.outcome(if obs.stdout.is_empty() { "ok-empty" } else { "ok-rows" }),
        Some(f) => {
            ctx.outcome(f.clause);
            ctx.violation(f.clause, &f.sig, &[case.clone()], f.expected, f.actual);
        }
    }
    ctx.sample(|| serde_json::json!({"input": String::from_utf8_lossy(b), "stdout": obs.out_str()}));
}

const SEPS: [&str; 6] = ["", " ", "\n", "\t", "\r\n", " \n\t"];
const LEADS: [&str; 3] = ["", " ", "\r\n"];
const TRAILS: [&str; 3] = ["", "\n", " "];

fn run(ctx: &mut Ctx) {
    let u1 = spell::universe1();
    let core = spell::core12();
    let kmax_all = ctx.tier.pick(1, 3);

    // level A: single values, k deviations, every lead/trail
    for v in &u1 {
        let t = template(v);
        for k in 0..=kmax_all {
            let mut texts = Vec::new();
            t.deviations(k, |s| texts.push(s));
            for s in texts {
                if !ctx.mine() {
                    continue;
                }
                if k > 0 && s.contains("\\u") {
                    ctx.guard("escape-variant");
                }
                for lead in LEADS {
                    for trail in TRAILS {
                        check(ctx, format!("{lead}{s}{trail}"), &[v], k > 0);
                    }
                }
            }
        }
        if ctx.time_up() {
            ctx.cap("level A");
            return;
        }
    }
    ctx.level_done("A:single-values-k<=kmax");

    // level B: all pairs over U1, default spelling, every separator
    let defaults: Vec<String> = u1.iter().map(|v| template(v).default_text()).collect();
    for (i, a) in u1.iter().enumerate() {
        for (j, b) in u1.iter().enumerate() {
            if !ctx.mine() {
                continue;
            }
            for sep in SEPS {
                if sep.is_empty() {
                    if !may_touch(&defaults[i], &defaults[j]) {
                        continue;
                    }
                    ctx.guard("touching-tokens");
                }
                ctx.guard("multi-value");
                check(ctx, format!("{}{}{}", defaults[i], sep, defaults[j]), &[a, b], true);
            }
        }
        if ctx.time_up() {
            ctx.cap("level B");
            return;
        }
    }
    ctx.level_done("B:pairs-over-U1");

    // level C: pairs over U1 x core with one deviation in either value (thorough: core x core with 2)
    for (i, a) in u1.iter().enumerate() {
        let ta = template(a);
        let mut a_devs = Vec::new();
        ta.deviations(1, |s| a_devs.push(s));
        for (j, b) in core.iter().enumerate() {
            let tb = template(b);
            let b_def = tb.default_text();
            if !ctx.mine() {
                continue;
            }
            let _ = j;
            for sa in &a_devs {
                for sep in ["", " ", "\n"] {
                    // deviation in the left value
                    if sep.is_empty() && !may_touch(sa, &b_def) {
                        continue;
                    }
                    check(ctx, format!("{sa}{sep}{b_def}"), &[a, b], true);
                    // deviation in the right value
                    if sep.is_empty() && !may_touch(&b_def, sa) {
                        continue;
                    }
                    check(ctx, format!("{b_def}{sep}{sa}"), &[b, a], true);
                }
            }
            let _ = i;
        }
        if ctx.time_up() {
            ctx.cap("level C");
            return;
        }
    }
    ctx.level_done("C:pairs-with-1-deviation");

    // level D: triples (thorough: also 4-streams) over the core, every separator combination
    let cdef: Vec<String> = core.iter().map(|v| template(v).default_text()).collect();
    let maxlen = ctx.tier.pick(3, 6);
    for len in 3..=maxlen {
        let seps: &[&str] = if len == 3 { &SEPS[..5] } else if len <= 5 { &SEPS[..3] } else { &SEPS[..2] };
        let mut todo: Vec<Vec<usize>> = Vec::new();
        crate::explore::seqs_exact(core.len(), len, |idx| todo.push(idx.to_vec()));
        for idx in todo {
            if !ctx.mine() {
                continue;
            }
            let vals: Vec<&V> = idx.iter().map(|i| &core[*i]).collect();
            crate::explore::seqs_exact(seps.len(), len - 1, |sidx| {
                let mut s = String::new();
                for (p, i) in idx.iter().enumerate() {
                    if p > 0 {
                        let sep = seps[sidx[p - 1]];
                        if sep.is_empty() && !may_touch(&cdef[idx[p - 1]], &cdef[*i]) {
                            return;
                        }
                        s.push_str(sep);
                    }
                    s.push_str(&cdef[*i]);
                }
                check(ctx, s, &vals, true);
            });
            if ctx.time_up() {
                ctx.cap("level D");
                return;
            }
        }
        ctx.level_done(&format!("D:{len}-streams-over-core"));
    }

    // level E: k=2 deviations on the core (quick), nesting depth 64, long stream
    if ctx.tier == Tier::Quick {
        for v in &core {
            let t = template(v);
            let mut texts = Vec::new();
            t.deviations(2, |s| texts.push(s));
            for s in texts {
                if ctx.mine() {
                    check(ctx, s, &[v], true);
                }
            }
        }
    } else {
        for v in &core {
            let t = template(v);
            let mut texts = Vec::new();
            t.deviations(3, |s| texts.push(s));
            t.deviations(4, |s| texts.push(s));
            for s in texts {
                if ctx.mine() {
                    check(ctx, s, &[v], true);
                }
            }
        }
    }
    for arr in [true, false] {
        for d in [1usize, 2, 8, 63, 64] {
            let v = spell::nested_chain(d, arr);
            if d == 64 {
                ctx.guard("depth-64");
            }
            if ctx.mine() {
                let s = template(&v).default_text();
                check(ctx, format!("{s}{s}"), &[&v, &v], true);
                check(ctx, s, &[&v], true);
            }
        }
    }
    // the empty stream and whitespace-only streams
    if ctx.mine() {
        for s in ["", " ", "\n", "\r\n\t "] {
            check(ctx, s.to_string(), &[], false);
        }
    }
    // one long stream: every U1 value once, cycling separators (40+ records)
    if ctx.mine() {
        let mut s = String::new();
        let mut vals = Vec::new();
        for (i, v) in u1.iter().enumerate() {
            s.push_str(&defaults[i]);
            s.push_str(SEPS[1 + i % 5]);
            vals.push(v);
        }
        check(ctx, s, &vals, true);
    }
    ctx.level_done("E:deep-deviations,nesting<=64,empty,long");

    // level F: size thresholds. Buffers, tables and fast paths change behaviour beyond a size, not beyond a shape.
    const SIZES: [usize; 24] = [15, 16, 17, 31, 32, 33, 63, 64, 65, 127, 128, 129, 255, 256, 257, 1023, 1024, 1025, 4095, 4096, 4097, 8191, 8192, 8193];
    for n in SIZES {
        if !ctx.mine() {
            continue;
        }
        ctx.guard("size-thresholds");
        // strings of n characters with a special character first / last (raw and escaped spellings)
        for (raw, spelled) in [("a", "a"), ("é", "é"), ("é", "\\u00e9"), ("\u{2028}", "\u{2028}"), ("\"", "\\\""), ("\\", "\\\\"), ("A", "\\u0041"), ("\n", "\\n"), ("\u{ffff}", "\\uFFFF")] {
            let body = "a".repeat(n - 1);
            for first in [false, true] {
                let (val, txt) = if first { (format!("{raw}{body}"), format!("{spelled}{body}")) } else { (format!("{body}{raw}"), format!("{body}{spelled}")) };
                let v = V::Str(val.clone());
                check(ctx, format!("\"{txt}\""), &[&v], true);
                let o = V::Obj(vec![(val.clone(), V::int(1))]);
                check(ctx, format!("{{\"{txt}\":1}}"), &[&o], true);
                let a = V::Arr(vec![v.clone(), v.clone()]);
                check(ctx, format!("[\"{txt}\",\"{txt}\"]\"{txt}\""), &[&a, &v], true);
            }
        }
        // arrays and objects with n members
        if n <= 1025 {
            let arr = V::Arr((0..n).map(|i| V::int(i as i128)).collect());
            let atxt = format!("[{}]", (0..n).map(|i| i.to_string()).collect::<Vec<_>>().join(","));
            check(ctx, atxt.clone(), &[&arr], true);
            let obj = V::Obj((0..n).map(|i| (format!("k{i}"), V::int(i as i128))).collect());
            let otxt = format!("{{{}}}", (0..n).map(|i| format!("\"k{i}\":{i}")).collect::<Vec<_>>().join(","));
            check(ctx, format!("{otxt}{atxt}"), &[&obj, &arr], true);
        }
        // streams of n small values, touching where they may
        let vals: Vec<V> = (0..n).map(|i| match i % 4 { 0 => V::int(i as i128), 1 => V::Arr(vec![]), 2 => V::s("s"), _ => V::Obj(vec![]) }).collect();
        let mut txt = String::new();
        for (i, v) in vals.iter().enumerate() {
            txt.push_str(&to_text(v));
            if i % 4 == 0 || i % 4 == 3 {
                txt.push(if i % 8 < 4 { ' ' } else { '\n' });
            }
        }
        let refs: Vec<&V> = vals.iter().collect();
        check(ctx, txt, &refs, true);
    }
    // numbers with many digits (nearest double / exact integers), in and out of arrays
    if ctx.mine() {
        let mut lits: Vec<String> = Vec::new();
        for d in [15usize, 16, 17, 18, 19, 20, 21, 22, 25, 40, 100, 308, 309, 400] {
            lits.push("9".repeat(d));
            lits.push(format!("1{}", "0".repeat(d)));
            lits.push(format!("-{}", "123456789".repeat(d / 9 + 1)[..d].to_string()));
            lits.push(format!("0.{}", "123456789".repeat(d / 9 + 1)[..d].to_string()));
            lits.push(format!("0.{}1", "0".repeat(d)));
            lits.push(format!("{}.{}", "9".repeat(d.min(17)), "9".repeat(d)));
            lits.push(format!("1e{}", d.min(308)));
            lits.push(format!("1E-{}", d.min(323)));
            lits.push(format!("{}e-{}", "9".repeat(d), d));
        }
        for (a, b) in [("950223949682658.5", "12.380196114964559"), ("9007199254740993", "9007199254740992.5"), ("0.1", "0.30000000000000004"), ("5e-324", "2.2250738585072014e-308"), ("1.7976931348623157e308", "123456789012345678")] {
            lits.push(a.to_string());
            lits.push(b.to_string());
        }
        for l in lits {
            if l.parse::<f64>().map(|f| f.is_finite()).unwrap_or(false) {
                let v = json::parse_str(&l);
                let a = V::Arr(vec![v.clone()]);
                check(ctx, format!("{l} [{l}]"), &[&v, &a], true);
            }
        }
    }
    // counters that are narrower than what the input can reach: 2^16 of everything that is cheap to produce
    for n in [65535usize, 65536, 65537] {
        if !ctx.mine() {
            continue;
        }
        ctx.guard("sixty-five-thousand");
        let body = "a".repeat(n - 1);
        let sv = V::Str(format!("{body}\u{e9}"));
        check(ctx, format!("\"{body}\u{e9}\" 1"), &[&sv, &V::int(1)], true);
        let arr = V::Arr((0..n).map(|i| V::int((i % 10) as i128)).collect());
        let atxt = format!("[{}]", (0..n).map(|i| (i % 10).to_string()).collect::<Vec<_>>().join(","));
        check(ctx, format!("{atxt}\n[]"), &[&arr, &V::Arr(vec![])], true);
        let obj = V::Obj((0..n).map(|i| (format!("k{i}"), V::Null)).collect());
        let otxt = format!("{{{}}}", (0..n).map(|i| format!("\"k{i}\":null")).collect::<Vec<_>>().join(", "));
        check(ctx, otxt, &[&obj], true);
        // n values, one per line / all on one line
        for sep in ["\n", " "] {
            let vals: Vec<V> = (0..n).map(|i| V::int((i % 7) as i128)).collect();
            let txt = vals.iter().map(to_text).collect::<Vec<_>>().join(sep);
            let refs: Vec<&V> = vals.iter().collect();
            check(ctx, txt, &refs, true);
        }
        // a number of n digits (nearest double, finite only with a fraction point in front)
        let lit = format!("0.{}1", "0".repeat(n.min(70000)));
        if let Ok(f) = lit.parse::<f64>() {
            if f.is_finite() {
                let v = json::parse_str(&lit);
                check(ctx, format!("{lit} 2"), &[&v, &V::int(2)], true);
            }
        }
    }
    ctx.level_done("F:size-thresholds(strings,containers,streams-to-8193-and-around-65536;numbers-to-400-digits)");

    // level G: the decimal grid. Every mantissa of a fixed list (1..19 significant digits) at every power of ten the
    // double range knows, in two spellings, 128 numbers per run: "every other number as the nearest double".
    const MANTISSAS: [&str; 36] = [
        "1", "5", "9", "17", "25", "123", "4096", "65536", "99999", "123456", "1048577", "16777217", "123456789", "4294967297", "99999999999", "5099773314186",
        "123456789012", "9007199254740991", "9007199254740993", "3141592653589793", "2718281828459045", "1414213562373095", "6931471805599453", "4503599627370497",
        "7205759403792794", "1152921504606847", "95022394968265", "1238019611496455", "99999999999999999", "18014398509481985", "123456789012345678", "9223372036854775807",
        "9223372036854775809", "18446744073709551615", "1844674407370955161", "5764607523034234881",
    ];
    let mut mantissas: Vec<String> = MANTISSAS.iter().map(|m| m.to_string()).collect();
    if ctx.tier == Tier::Thorough {
        // every mantissa of 1..3 digits, and the neighbours of the powers of two and ten that sit on rounding boundaries
        mantissas.extend((1..1000u32).filter(|m| m % 10 != 0).map(|m| m.to_string()));
        for k in 24..=64u32 {
            let p = 1u128 << k;
            mantissas.extend([p - 1, p + 1, p + (p >> 1) / (1 << 20).max(1) + 1].iter().map(|x| x.to_string()));
        }
        for k in 15..=19u32 {
            let p = 10u128.pow(k);
            mantissas.extend([p - 1, p + 1, 5 * p / 10 + 1].iter().map(|x| x.to_string()));
        }
        mantissas.sort();
        mantissas.dedup();
    }
    let n_mantissas = mantissas.len();
    for (mi, m) in mantissas.iter().enumerate() {
        let m = m.as_str();
        if !ctx.mine() {
            continue;
        }
        ctx.guard("decimal-grid");
        let mut batch: Vec<String> = Vec::new();
        let mut flush = |ctx: &mut Ctx, batch: &mut Vec<String>| {
            if batch.is_empty() {
                return;
            }
            let vals: Vec<V> = batch.iter().map(|l| json::parse_str(l)).collect();
            let refs: Vec<&V> = vals.iter().collect();
            let text = batch.join(if mi % 2 == 0 { " " } else { "\n" });
            check(ctx, text, &refs, true);
            batch.clear();
        };
        for e in -345i32..=310 {
            let spellings = [format!("{m}e{e}"), if m.len() > 1 { format!("-{}.{}E{}{e}", &m[..1], &m[1..], if e >= 0 { "+" } else { "" }) } else { format!("-{m}.0E{e}") }];
            for l in spellings {
                if l.parse::<f64>().map(|f| f.is_finite()).unwrap_or(false) {
                    batch.push(l);
                    if batch.len() == 128 {
                        flush(ctx, &mut batch);
                    }
                }
            }
        }
        flush(ctx, &mut batch);
    }
    ctx.level_done(&format!("G:decimal-grid({n_mantissas}-mantissas-x-every-exponent--345..310-x-2-spellings)"));

    // level H: the position grid. An atom of every kind at every position (only / first / last / middle element or
    // member) of every nesting shape of depth <= 3 (thorough 4), the members named by each of ten names; each value in a
    // compact and in an indented spelling, and as the stream `value atom value` (the same value coming back).
    let gdepth = ctx.tier.pick(3, 4);
    let atoms = spell::grid_atoms();
    let names = spell::grid_names();
    let mut shapes: Vec<Vec<usize>> = Vec::new();
    for d in 1..=gdepth {
        crate::explore::seqs_exact(spell::GRID_WRAPPERS, d, |s| shapes.push(s.to_vec()));
    }
    for (si, shape) in shapes.iter().enumerate() {
        if !ctx.mine() {
            continue;
        }
        ctx.guard("position-grid");
        for (ai, atom) in atoms.iter().enumerate() {
            // every name for shapes of depth <= 2 (thorough 3), one name per (shape, atom) in rotation beyond
            let all_names = shape.len() <= gdepth - 1;
            for (ni, name) in names.iter().enumerate() {
                if !all_names && ni != (si + ai) % names.len() {
                    continue;
                }
                let v = spell::grid_value(shape, name, atom);
                let t = template(&v);
                let compact = t.default_text();
                let atxt = template(atom).default_text();
                check(ctx, format!("{compact} {atxt} {compact}"), &[&v, atom, &v], true);
                check(ctx, t.render_ws("\n  "), &[&v], true);
            }
        }
        if ctx.time_up() {
            ctx.cap("level H");
            return;
        }
    }
    ctx.level_done(&format!("H:position-grid(depth<={gdepth},8-wrappers,{}-atoms,{}-names)", atoms.len(), names.len()));
}
