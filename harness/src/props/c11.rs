//! C11 — stateless pipelines are record-local: out(A.B) = out(A).out(B).

use super::{Prop, COMMON_ASSUMPTIONS};
use crate::ctx::{Ctx, Tier};
use crate::drive::{Case, Obs};

pub fn prop() -> Prop {
    Prop {
        id: "C11",
        level: "model_checking",
        rule: "all sequences S of <=5 (thorough <=7) values over a 6-value universe (three records with per-record regex patterns incl. an invalid one, a record without the selected members, a scalar, an array with a nested cell longer than 64 bytes; two records share a pattern and a split element but differ in what a macro reads besides `.`) — i.e. every concatenation A.B with |A|+|B| <= 5 (thorough 7), every permutation and every duplication — x 29 pipelines made of --set, --split-by, --filter, --select (regex functions with cache sizes 0,1,2; variables; macros; previously selected names; ^ after split; --only-objects-and-arrays) x 6 output styles (one-line, consise, pretty, text, csv, one-line with --utf8-strings, consise with an empty row separator) plus text with --headers; a selection text taken from the record (valid, unparsable, valid, empty; directly and through a variable or macro bound per record); member names that are not ASCII reaching the row printer, the nested-cell printer and stringify in a record-dependent order; and sequences of 64, 257 and 1031 values; sequences of <=4 values mixing small records with rows of 1 KiB, 9 KiB and 20 KiB; every pipeline and style also on the real executable, every run a process of its own (singles, all pairs, all triples A B A; a fresh process must print what the used worker process prints); non-trivial = S holds two values with different rows; distinct by construction; a third of the sequences of <=3 values is also delivered as files, one value per file, a repeated value being the same file named again",
        explanation: "metamorphic: out(S) must be the header (out of the empty input) followed by the bodies of out([s]) for each s in S in order; this single relation over all S implies out(A.B)=out(A).out(B), permutation and duplication",
        assumptions: COMMON_ASSUMPTIONS.to_vec(),
        guards: vec!["every-run-a-process-of-its-own", "values-delivered-as-files", "same-file-named-twice", "row-beyond-every-buffer", "hundreds-of-records", "two-patterns-through-a-one-entry-cache", "header-printed-once", "split-produced-rows", "value-dropped-by-filter", "repeated-value"],
        budget_s: (100, 2400),
        single_worker: false,
        run,
        recheck: None,
    }
}

const U: [&str; 6] = [
    "{\"n\":1,\"s\":\"aab\",\"p\":\"^a+\",\"l\":[1,2],\"f\":\"%H:%M\",\"o\":{\"x\":1,\"y\":[2],\"\u{e9}\u{7f}\":0},\"e\":\"(len .l)\"}",
    "{\"n\":2,\"s\":\"bba\",\"p\":\"^a+\",\"l\":[2,3],\"f\":\"%Q\",\"o\":{\"y\":[2],\"\u{e9}\u{7f}\":0,\"x\":1},\"q\":{\"\u{e9}\u{7f}\":[1]},\"e\":\"(+ .n\"}",
    "{\"n\":1.5,\"s\":\"aab\",\"p\":\"(b)$\",\"l\":[],\"f\":\"%s|%\",\"e\":\".s\"}",
    "{\"s\":\"xyz\",\"p\":\"[\",\"l\":[2,2],\"e\":\"\"}",
    "5",
    "[\"xxxxxxxxxxxxxxxxxxxxxxxxxxxxxxxxxxxxxxxxxxxxxxxxxxxxxxxxxxxxxxxxxxxxxx\",{\"k\":[1,2]}]",
];
const PATTERN: [usize; 6] = [0, 0, 1, 2, 9, 9];

struct Pl {
    name: &'static str,
    args: Vec<&'static str>,
    selections: bool,
    cache1: bool,
}

fn pipelines() -> Vec<Pl> {
    let mut v = vec![
        Pl { name: "identity", args: vec![], selections: false, cache1: false },
        Pl { name: "ooa", args: vec!["--only-objects-and-arrays"], selections: false, cache1: false },
        Pl {
            name: "set-var-macro",
            args: vec!["--set=v=1", "--set=@m=(+ .n :v)", "--select=@m=x", "--filter=(number? .n)"],
            selections: true,
            cache1: false,
        },
        Pl { name: "split-parent", args: vec!["--split-by=.l", "--select=.=e", "--select=^.n=n"], selections: true, cache1: false },
        Pl { name: "split-filter", args: vec!["--split-by=.l", "--filter=(> . 1)", "--select=(* . 2)=d"], selections: true, cache1: false },
        Pl { name: "split-filter-reads-parent", args: vec!["--split-by=.l", "--filter=(= . ^.n)", "--select=.=e"], selections: true, cache1: false },
        Pl { name: "split-filter-unique-free", args: vec!["--split-by=.l", "--filter=(!= . ^.n)"], selections: false, cache1: false },
        Pl { name: "selected-name", args: vec!["--select=.n=n", "--select=(+ /n/ 1)=n1"], selections: true, cache1: false },
        Pl { name: "define-in-select", args: vec!["--select=(define \"d\" (.+ 1) (map .l @d))=x", "--select=(set \"q\" .n (+ :q :q))=y"], selections: true, cache1: false },
        Pl { name: "fold", args: vec!["--select=(fold .l 0 (+ .so_far .value))=sum"], selections: true, cache1: false },
        Pl {
            name: "rarely-used-functions",
            args: vec!["--select=(parse_selection \"(len .l)\")=a", "--select=(env \"JV_FIXED\")=b", "--select=(format_time .n \"%s|%H:%M\")=c", "--select=(\"+\" (stringify .n) \"0.5\")=d", "--select=(.len)=e", "--select=(order_by .l (- .))=f"],
            selections: true,
            cache1: false,
        },
        Pl { name: "nested-cells", args: vec!["--select=.l=l", "--select=.=whole", "--select=.s=s"], selections: true, cache1: false },
        Pl { name: "macro-reads-parent-after-split", args: vec!["--split-by=.l", "--set=@tag=(+ . ^.n)", "--select=@tag=t", "--select=.=e"], selections: true, cache1: false },
        Pl { name: "macro-reads-parent-in-pipe", args: vec!["--set=@full=(concat ^.s \"-\" .)", "--select=(| .p @full)=name"], selections: true, cache1: false },
        Pl { name: "macro-reads-variable", args: vec!["--set=@addq=(+ . :q)", "--select=(set \"q\" .n (| 10 @addq))=x", "--filter=(!= (set \"q\" .n (| 10 @addq)) 12)"], selections: true, cache1: false },
        // arguments that are usually constants (a time format, a selection text, a separator) taken from the record:
        // valid in one record, invalid in the next, then the same invalid one again
        Pl { name: "per-record-format-and-program", args: vec!["--select=(format_time .n .f)=t", "--select=(parse_selection .p)=ps", "--select=(join (push [] .s .s) .f)=j", "--select=(parse_time (format_time .n \"%Y %H\") .f)=pt", "--filter=(or (string? .f) (number? .))"], selections: true, cache1: false },
        // the same members in another order in consecutive rows (nested cells of text and csv rows); variables read
        // through the function spellings inside a set whose value comes from the record
        Pl { name: "member-order-and-function-spellings", args: vec!["--select=.o=o", "--select=(push [] .o .n)=po", "--select=(set \"q\" .n (push [] (get_variable \"q\") (: \"q\") :q))=z", "--select=(define \"d\" .s (push [] (@ \"d\") @d))=w"], selections: true, cache1: false },
        // --set variables whose expression reads `.` but has a value on the empty input (evaluated once, before any record);
        // and/or whose deciding argument differs from record to record
        Pl { name: "preset-with-fall-back-and-logic", args: vec!["--set=dflt=(default .n 100)", "--set=kind=(stringify .)", "--select=:dflt=d", "--select=:kind=k", "--select=(and (< .n 2) (= .p \"^a+\"))=an", "--select=(or (> .n 1.7) (= .p \"[\"))=orr", "--filter=(default (!= :dflt .n) true)"], selections: true, cache1: false },
        // functions that give up half way (a list whose second element is of the wrong type, a group key that is not a
        // string for a later element) next to records for which the same call succeeds; group order inside a record
        Pl { name: "functions-that-give-up-half-way", args: vec!["--select=(join (push [] .s .n .s) \"-\")=j", "--select=(group_by .l (? (> . 2) . \"le2\"))=g", "--select=(keys (group_by (push .l 9 8 7 6 5) (stringify .)))=k", "--select=(sum (push [] .n .s))=sm", "--select=(concat .s .n .s)=c"], selections: true, cache1: false },
        // scopes opened by set/define whose body gives nothing, next to a --set binding of the same name read by every record
        Pl { name: "set-scope-with-empty-body-over-preset", args: vec!["--set=k=\"n\"", "--select=(get . :k)=w", "--select=(set \"k\" \"s\" .zz)=v", "--select=(set \"k\" \"p\" (get . :k))=u"], selections: true, cache1: false },
        Pl { name: "define-scope-with-empty-body-over-preset", args: vec!["--set=@m=.n", "--select=@m=w", "--select=(define \"m\" .s .zz)=v", "--select=(define \"m\" .p @m)=u"], selections: true, cache1: false },
        Pl { name: "set-scope-with-empty-body-no-preset", args: vec!["--select=(default :k \"unbound\")=w", "--select=(set \"k\" .n .zz)=v", "--select=(default (@ \"m\") \"unbound\")=x", "--select=(define \"m\" .n .zz)=y"], selections: true, cache1: false },
        // a selection text taken from the record: valid, unparsable, valid again, empty - directly and through a variable
        // bound per record; the same text decides a filter and a split
        Pl { name: "per-record-selection-text", args: vec!["--select=(parse_selection .e)=pe", "--select=(set \"t\" .e (parse_selection :t))=pv", "--select=(define \"t\" .e (parse_selection @t))=pm"], selections: true, cache1: false },
        Pl { name: "per-record-selection-text-in-filter", args: vec!["--filter=(number? (parse_selection .e))", "--select=.n=n"], selections: true, cache1: false },
        Pl { name: "per-record-selection-text-in-split", args: vec!["--split-by=(push [] (parse_selection .e) .n)", "--select=.=item"], selections: true, cache1: false },
        // member names that are not ASCII reach the row printer, the nested-cell printer and stringify in an order that
        // depends on the record
        Pl { name: "non-ascii-member-names-through-several-printers", args: vec!["--select=(stringify .q)=sq", "--select=.o=o", "--select=.q=q"], selections: true, cache1: false },
        Pl { name: "set-scope-in-filter-and-split", args: vec!["--set=k=\"l\"", "--set=q=1", "--split-by=(default (set \"k\" \"zz\" .nothing) (get . :k))", "--filter=(default (set \"q\" 2 ^.zz) (>= . :q))", "--select=(+ . :q)=e"], selections: true, cache1: false },
    ];
    for (i, cs) in ["0", "1", "2"].iter().enumerate() {
        let c: &'static str = Box::leak(format!("--regular-expression-cache-size={cs}").into_boxed_str());
        v.push(Pl {
            name: Box::leak(format!("regex-select-cache{cs}").into_boxed_str()),
            args: vec![c, "--select=(match .s .p)=m", "--select=(extract_regex_group .s .p 0)=g", "--select=(match .s \"a\")=a"],
            selections: true,
            cache1: i == 1,
        });
        v.push(Pl { name: Box::leak(format!("regex-filter-cache{cs}").into_boxed_str()), args: vec![c, "--filter=(match .s .p)", "--select=.s=s"], selections: true, cache1: i == 1 });
    }
    v
}

const STYLES: [(&str, &[&str]); 8] = [
    ("one-line", &["--output-style=json", "--style=one-line"]),
    ("consise", &["--output-style=json", "--style=consise"]),
    ("pretty", &["--output-style=json", "--style=pretty"]),
    ("text", &["--output-style=text"]),
    ("text-headers", &["--output-style=text", "--headers"]),
    ("csv", &["--output-style=csv"]),
    ("one-line-utf8", &["--output-style=json", "--style=one-line", "--utf8-strings"]),
    // off-nominal: no row separator at all (the rows are glued; the relation is on bytes, so it still holds)
    ("consise-glued", &["--output-style=json", "--style=consise", "--row-seperator="]),
];

thread_local! {
    /// the real executable (built by ./check), when there is one
    static BIN: Option<String> = std::env::var("JAWK_BIN").ok().filter(|b| std::path::Path::new(b).exists());
}

fn input_of(idx: &[usize]) -> Vec<u8> {
    let mut s = String::new();
    for i in idx {
        s.push_str(U[*i]);
        s.push('\n');
    }
    s.into_bytes()
}

fn run(ctx: &mut Ctx) {
    let pls = pipelines();
    let maxlen = match ctx.tier {
        Tier::Quick => 5usize,
        Tier::Thorough => 7,
    };
    for pl in &pls {
        for (sname, sargs) in STYLES {
            if !pl.selections && (sname == "csv" || sname == "text-headers") {
                continue; // these styles require selections (rejected configurations are C18's subject)
            }
            if !ctx.mine() {
                continue;
            }
            let mut args: Vec<String> = pl.args.iter().map(|s| s.to_string()).collect();
            args.extend(sargs.iter().map(|s| s.to_string()));
            let sig = format!("{} {sname}", pl.name);
            // header = output for the empty input; singles = output for [u]
            let empty_case = Case::owned(args.clone(), vec![]);
            let header = ctx.run(&empty_case);
            if !header.res.is_ok() {
                ctx.violation("run-failed", &sig, &[empty_case.clone()], "Ok".into(), header.brief());
                continue;
            }
            let mut singles: Vec<Obs> = Vec::new();
            let mut bad = false;
            for u in 0..U.len() {
                let c = Case::owned(args.clone(), input_of(&[u]));
                let o = ctx.run(&c);
                if !o.res.is_ok() || !o.stdout.starts_with(&header.stdout) || !o.stderr.is_empty() {
                    ctx.violation("single-value-run-does-not-start-with-the-header", &sig, &[c.clone(), empty_case.clone()], format!("Ok, starting with {:?}", header.out_str()), o.brief());
                    bad = true;
                }
                singles.push(o);
            }
            if bad {
                continue;
            }
            if !header.stdout.is_empty() {
                ctx.guard("header-printed-once");
            }
            let hl = header.stdout.len();
            for len in 2..=maxlen {
                let mut todo: Vec<Vec<usize>> = Vec::new();
                crate::explore::seqs_exact(U.len(), len, |i| todo.push(i.to_vec()));
                for idx in todo {
                    let case = Case::owned(args.clone(), input_of(&idx));
                    let got = ctx.run(&case);
                    ctx.case_done();
                    ctx.trace_validated();
                    let mut expected = header.stdout.clone();
                    for i in &idx {
                        expected.extend_from_slice(&singles[*i].stdout[hl..]);
                    }
                    // the same sequence as FILES, one value per file, a repeated value being the same file named again
                    if len <= 3 && (idx[0] + 2 * idx[len - 1] + len) % 3 == 0 {
                        let files: Vec<(String, Vec<u8>)> = idx.iter().map(|i| (format!("v{i}.json"), input_of(&[*i]))).collect();
                        let fcase = Case { args: args.clone(), input: crate::drive::Input::Files(files), rplan: Default::default(), wplan: Default::default() };
                        let fgot = ctx.run(&fcase);
                        ctx.guard("values-delivered-as-files");
                        if idx.windows(2).any(|w| w[0] == w[1]) || (len == 3 && idx[0] == idx[2]) {
                            ctx.guard("same-file-named-twice");
                        }
                        if !fgot.res.is_ok() || fgot.stdout != expected || !fgot.stderr.is_empty() {
                            ctx.violation("output-of-a-sequence-is-not-the-concatenation-of-the-outputs-of-its-values", &format!("{sig} values delivered as files"), &[fcase.clone(), case.clone()], format!("{:?}", String::from_utf8_lossy(&expected)), fgot.brief());
                        }
                    }
                    let distinct_bodies = idx.iter().any(|i| singles[*i].stdout[hl..] != singles[idx[0]].stdout[hl..]);
                    if distinct_bodies {
                        ctx.nontrivial();
                    }
                    if pl.cache1 && idx.windows(2).any(|w| w[0] < 4 && w[1] < 4 && PATTERN[w[0]] != PATTERN[w[1]]) {
                        ctx.guard("two-patterns-through-a-one-entry-cache");
                    }
                    if pl.name.starts_with("split") && expected.len() > hl {
                        ctx.guard("split-produced-rows");
                    }
                    if idx.iter().any(|i| singles[*i].stdout.len() == hl) && expected.len() > hl {
                        ctx.guard("value-dropped-by-filter");
                    }
                    if idx.windows(2).any(|w| w[0] == w[1]) {
                        ctx.guard("repeated-value");
                    }
                    ctx.state(&(pl.name, sname, idx.last().copied()));
                    ctx.transition(&(pl.name, sname, idx[idx.len() - 2], idx[idx.len() - 1]));
                    if !got.res.is_ok() || got.stdout != expected || !got.stderr.is_empty() {
                        ctx.outcome("violation");
                        // which position is the first to differ
                        let pos = got.stdout.iter().zip(expected.iter()).position(|(a, b)| a != b).unwrap_or(got.stdout.len().min(expected.len()));
                        let mut acc = hl;
                        let mut which = idx.len();
                        for (k, i) in idx.iter().enumerate() {
                            acc += singles[*i].stdout.len() - hl;
                            if pos < acc {
                                which = k;
                                break;
                            }
                        }
                        ctx.violation(
                            "output-of-a-sequence-is-not-the-concatenation-of-the-outputs-of-its-values",
                            &format!("{sig} first-difference-in-row-of-value#{}", which.min(3)),
                            &[case.clone()],
                            format!("{:?}", String::from_utf8_lossy(&expected)),
                            got.brief(),
                        );
                    } else {
                        ctx.outcome(if expected.len() == hl { "ok-nothing-printed" } else { "ok" });
                    }
                    ctx.sample(|| serde_json::json!({"args": case.args, "input": idx.iter().map(|i| U[*i]).collect::<Vec<_>>(), "stdout": got.out_str()}));
                }
                if ctx.time_up() {
                    ctx.cap(&format!("sequences of length {len}"));
                    return;
                }
            }
            // the same relation on the real executable, every run a process of its own: state that outlives a run inside
            // one process (a static, a thread-local) looks like no state at all to the in-process runs above, which all
            // share the worker's process. Singles, all pairs and all triples A B A; the single runs must also print
            // what the in-process single runs print (a fresh process against a warm one).
            if let Some(bin) = BIN.with(|b| b.clone()) {
                use crate::drive::{run_child, OutMode};
                let mut psingles: Vec<Vec<u8>> = Vec::new();
                let mut ok = true;
                for u in 0..U.len() {
                    match run_child(&bin, &args, &input_of(&[u]), OutMode::Pipe) {
                        Ok(c) if c.code == Some(0) && c.stdout.starts_with(&header.stdout) => {
                            ctx.rep.evaluations += 1;
                            if c.stdout != singles[u].stdout {
                                let case = Case::owned(args.clone(), input_of(&[u]));
                                ctx.violation("a-fresh-process-prints-something-else-than-the-same-run-in-a-used-process", &sig, &[case], format!("{:?}", String::from_utf8_lossy(&c.stdout)), format!("in-process: {:?}", singles[u].out_str()));
                            }
                            psingles.push(c.stdout);
                        }
                        Ok(c) => {
                            let case = Case::owned(args.clone(), input_of(&[u]));
                            ctx.violation("run-failed", &format!("{sig} (executable)"), &[case], "exit 0".into(), format!("exit={:?} stderr={:?}", c.code, String::from_utf8_lossy(&c.stderr)));
                            ok = false;
                            break;
                        }
                        Err(e) => {
                            ctx.machinery_error(format!("cannot run child: {e}"));
                            ok = false;
                            break;
                        }
                    }
                }
                if ok {
                    let mut todo: Vec<Vec<usize>> = Vec::new();
                    crate::explore::seqs_exact(U.len(), 2, |i| todo.push(i.to_vec()));
                    for a in 0..U.len() {
                        for b in 0..U.len() {
                            if a != b {
                                todo.push(vec![a, b, a]);
                            }
                        }
                    }
                    for idx in todo {
                        let Ok(c) = run_child(&bin, &args, &input_of(&idx), OutMode::Pipe) else { continue };
                        ctx.rep.evaluations += 1;
                        ctx.case_done();
                        ctx.trace_validated();
                        ctx.guard("every-run-a-process-of-its-own");
                        let mut expected = header.stdout.clone();
                        for i in &idx {
                            expected.extend_from_slice(&psingles[*i][hl..]);
                        }
                        if c.code != Some(0) || c.stdout != expected {
                            let case = Case::owned(args.clone(), input_of(&idx));
                            ctx.violation("output-of-a-sequence-is-not-the-concatenation-of-the-outputs-of-its-values", &format!("{sig} every run a process of its own"), &[case], format!("{:?}", String::from_utf8_lossy(&expected)), format!("exit={:?} stdout={:?}", c.code, String::from_utf8_lossy(&c.stdout)));
                        }
                    }
                }
            }
            // size thresholds: rows far beyond any output buffer between small ones (a writer that batches small
            // rows but passes big ones through must not reorder them)
            {
                let big = ["{\"n\":1,\"s\":\"aab\",\"p\":\"^a+\",\"l\":[1,2]}".to_string(), format!("{{\"n\":7,\"s\":\"{}\",\"p\":\"x\",\"l\":[5]}}", "b".repeat(1100)), format!("{{\"n\":8,\"s\":\"{}\",\"p\":\"y\",\"l\":[6,7]}}", "c".repeat(9000)), format!("[\"{}\"]", "d".repeat(20000))];
                let single: Vec<Obs> = big.iter().map(|t| ctx.run(&Case::owned(args.clone(), format!("{t}\n").into_bytes()))).collect();
                if single.iter().all(|o| o.res.is_ok() && o.stdout.starts_with(&header.stdout)) {
                    let mut todo: Vec<Vec<usize>> = Vec::new();
                    for l in 2..=4 {
                        crate::explore::seqs_exact(big.len(), l, |i| todo.push(i.to_vec()));
                    }
                    for idx in todo {
                        if !idx.iter().any(|i| *i >= 2) {
                            continue;
                        }
                        let input: String = idx.iter().map(|i| format!("{}\n", big[*i])).collect();
                        let case = Case::owned(args.clone(), input.into_bytes());
                        let got = ctx.run(&case);
                        ctx.case_done();
                        ctx.trace_validated();
                        ctx.nontrivial();
                        ctx.guard("row-beyond-every-buffer");
                        let mut expected = header.stdout.clone();
                        for i in &idx {
                            expected.extend_from_slice(&single[*i].stdout[hl..]);
                        }
                        if !got.res.is_ok() || got.stdout != expected {
                            let pos = got.stdout.iter().zip(expected.iter()).position(|(a, b)| a != b).unwrap_or(got.stdout.len().min(expected.len()));
                            ctx.violation(
                                "output-of-a-sequence-is-not-the-concatenation-of-the-outputs-of-its-values",
                                &format!("{sig} rows of 1 KiB / 9 KiB / 20 KiB between small ones"),
                                &[case.clone()],
                                format!("{} bytes", expected.len()),
                                format!("{} bytes, first difference at byte {pos}: {}", got.stdout.len(), got.res.short()),
                            );
                        }
                    }
                }
            }
            // size thresholds: hundreds of records in one run (counters, buffers and caches that only wrap or grow late)
            for total in [64usize, 257, 1031] {
                let idx: Vec<usize> = (0..total).map(|i| (i * 5 + i / 7) % U.len()).collect();
                let case = Case::owned(args.clone(), input_of(&idx));
                let got = ctx.run(&case);
                ctx.case_done();
                ctx.trace_validated();
                ctx.nontrivial();
                ctx.guard("hundreds-of-records");
                let mut expected = header.stdout.clone();
                for i in &idx {
                    expected.extend_from_slice(&singles[*i].stdout[hl..]);
                }
                if !got.res.is_ok() || got.stdout != expected {
                    let pos = got.stdout.iter().zip(expected.iter()).position(|(a, b)| a != b).unwrap_or(got.stdout.len().min(expected.len()));
                    ctx.violation(
                        "output-of-a-sequence-is-not-the-concatenation-of-the-outputs-of-its-values",
                        &format!("{sig} {total} records"),
                        &[case.clone()],
                        format!("{} bytes", expected.len()),
                        format!("{} bytes, first difference at byte {pos}: {}", got.stdout.len(), got.res.short()),
                    );
                }
            }
        }
    }
    ctx.level_done(&format!("all-sequences-of-<={maxlen}-values-x-{}-pipelines-x-{}-styles", pls.len(), STYLES.len()));
}
