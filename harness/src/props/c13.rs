//! C13 — an expression means the same in every position, alias, spelling and cache size.

use super::{Prop, COMMON_ASSUMPTIONS};
use crate::ctx::{Ctx, Tier};
use crate::drive::Case;
use crate::refmodel::eval;
use crate::refmodel::expr::{self, p, Style, E};
use crate::refmodel::json::{self, V};
use crate::refmodel::selfcheck::DOCS;
use std::cmp::Ordering;

pub fn prop() -> Prop {
    Prop {
        id: "C13",
        level: "model_checking",
        rule: "(a) every alias of every function against the canonical name on every documented example and on every argument tuple (arity <=3) over 6 atoms of all types; (b) 48 expressions (a third reading :v, @m, a selected name or ^ after --split-by) as --select (first and later), --filter, --sort-by (both directions), --group-by, --split-by, --set macro and --set variable, the late positions also behind another --select over all sequences of <=3 (thorough <=5) values over 5 records, and over 700 records for the expressions reading variables and macros; (c) 40 expressions, and 22 big ones (nesting depth 9..65, 9..130 arguments, literals and names of 31..300 characters), in 14 spellings (separators blank, comma, comma-blank, two blanks, tab, newline; padding before the closing parenthesis; leading-dot sugar; a comma directly after a variable, macro, key, number, string) (d) --regular-expression-cache-size in {0,1,2,64} x all sequences of <=2 (thorough <=3) (subject, pattern) pairs over 4 subjects x 6 patterns and of <=4 (thorough <=6) over a 12-pair core (one invalid pattern; two pairs whose pattern+subject texts glue to the same string) through match and extract_regex_group, and sequences with 0/1/2/7 more distinct patterns than a cache of 2/3/16/64 holds, each revisited; five big patterns (\\w{30}, \\p{L}{60}, ..) under cache sizes 0/1/3/64; (f) the documented example call of every function with each literal argument in turn spelled as a variable (sigil and function spelling) or macro bound to a member that changes from record to record and from element to element (A B A A / B A B B), against the call that reads the member directly; non-trivial = the compared forms differ textually and the value is not nothing; distinct by construction; (e) 12 expressions that use one macro body (given with --set) under different bindings of the names it mentions (define/set around the use, shadowing a --set binding), each alone against the reference evaluator and all ordered pairs (thorough: all triples) as selections of one run; in (b) sort and group positions are also tried next to a second --sort-by that ties every row; 27 patterns covering the constructs of the pattern syntax (counted repetition with braces, lone braces, alternation, anchors, classes, flags, escapes, optional groups, the empty pattern) x 15 subjects (some with CR, CR LF, LF) x cache sizes 0,1,2,64 against the regex crate, each with a regex call whose subject is the result of another regex call",
        explanation: "differential inside the implementation (same run, several selections; or the rows kept / ordered / grouped / produced versus the values the same expression has as a selection) and, for the regex cache, against the regex crate called directly",
        assumptions: COMMON_ASSUMPTIONS.to_vec(),
        guards: vec!["function-argument-bound-anew-for-every-record", "pattern-syntax-under-every-cache-size", "one-macro-body-under-two-bindings", "position-next-to-another-sort", "big-patterns", "hundreds-of-rows-in-every-position", "more-patterns-than-the-cache-holds", "alias-with-value", "filter-kept-and-dropped", "sort-reordered", "group-two-keys", "split-produced-rows", "comma-after-variable", "dot-sugar", "cache-eviction", "invalid-pattern", "macro-position", "variable-position"],
        budget_s: (100, 1800),
        single_worker: false,
        run,
        recheck: None,
    }
}

// ------------------------------------------------------------------ (a) aliases

fn alias_part(ctx: &mut Ctx) {
    let docs: serde_json::Value = serde_json::from_str(DOCS).unwrap();
    let atoms = ["null", "1", "\"a\"", "[1, 2]", "{\"a\": 1}", "true"];
    for f in docs.as_array().unwrap() {
        let name = f["name"].as_str().unwrap();
        if crate::refmodel::ftable::EXCLUDED.contains(&name) {
            continue;
        }
        let aliases: Vec<&str> = f["aliases"].as_array().unwrap().iter().map(|a| a.as_str().unwrap()).collect();
        if aliases.is_empty() {
            continue;
        }
        if !ctx.mine() {
            continue;
        }
        let (min, max) = (f["min"].as_u64().unwrap() as usize, f["max"].as_u64().unwrap() as usize);
        // argument tuples: documented examples, then atoms
        let mut tuples: Vec<(String, Vec<String>)> = Vec::new();
        for ex in f["examples"].as_array().unwrap() {
            let args: Vec<String> = ex["args"].as_array().unwrap().iter().map(|a| a.as_str().unwrap().to_string()).collect();
            tuples.push((ex["input"].as_str().unwrap_or("null").to_string(), args));
        }
        for arity in min..=max.min(3) {
            crate::explore::seqs_exact(atoms.len(), arity, |ix| {
                tuples.push(("[1, {\"a\": \"x\"}]".to_string(), ix.iter().map(|i| atoms[*i].to_string()).collect()));
            });
        }
        for (input, args) in tuples {
            if args.iter().any(|a| a.contains('\n')) {
                continue;
            }
            let mut sel = vec![format!("--select=({name} {})=c", args.join(" "))];
            for (i, a) in aliases.iter().enumerate() {
                sel.push(format!("--select=({a} {})=a{i}", args.join(" ")));
            }
            let case = Case::owned(sel, input.clone().into_bytes());
            let obs = ctx.run(&case);
            ctx.case_done();
            ctx.trace_validated();
            let rows = json::parse_rows(&obs.stdout, b"\n").unwrap_or_default();
            if !obs.res.is_ok() || rows.len() != 1 {
                ctx.violation("alias-run-failed", name, &[case.clone()], "Ok, one row".into(), obs.brief());
                continue;
            }
            let c = rows[0].get("c").cloned();
            if c.is_some() {
                ctx.guard("alias-with-value");
                ctx.nontrivial();
            }
            ctx.transition(&(name, args.len(), c.is_some()));
            for (i, a) in aliases.iter().enumerate() {
                if rows[0].get(&format!("a{i}")).cloned() != c {
                    ctx.outcome("violation");
                    ctx.violation("alias-differs-from-canonical-name", &format!("{a} vs {name}"), &[case.clone()], eval::show_opt(&c), obs.brief());
                }
            }
            ctx.outcome(if c.is_some() { "alias-ok-value" } else { "alias-ok-nothing" });
        }
    }
    ctx.level_done("a:every-alias-on-documented-examples-and-atom-tuples");
}

// ------------------------------------------------------------------ (b) positions

const RECS: [&str; 5] = [
    "{\"k\":\"a\",\"n\":1,\"l\":[1,2],\"t\":true}",
    "{\"k\":\"b\",\"n\":2,\"l\":[],\"t\":false}",
    "{\"k\":\"a\",\"n\":1.5,\"l\":[3,\"x\"],\"t\":true}",
    "{\"n\":0,\"l\":\"x\"}",
    "7",
];

const EXPRS: [&str; 48] = [
    ".k", ".n", ".t", ".l", "(= .k \"a\")", "(> .n 1)", "(string? .k)", "(len .l)", "(concat .k \"x\")", "(get . \"k\")", "(.get \"k\")", "(map .l (+ . 1))",
    "(filter .l (number? .))", "(not .t)", "(and .t (= .k \"a\"))", "(? .t \"yes\" \"no\")", "(default .k \"none\")", "(range .n)", "(keys .)", "(take .l 1)", "(first .l)",
    "(sort .l)", "(as_string .k)", "(array? .l)", "(empty? .k)", "(values .)", "(match .k \"a\")", "(extract_regex_group .k \"(a)\" 1)", "(| .l (len .))",
    "(set \"q\" .n (* :q :q))", "(define \"d\" (.+ 1) (map .l @d))", "(stringify .k)", ":v", "(+ .n :v)", "(push .l :v)", "(= :w .k)", "@m2", "(= @m2 \"a\")", "(concat @m2 :w)",
    "(map .l (push [] . :v ^.k))", "(? @m3 .k .n)", "(< .n :v)", "(>= (len .l) :v)", "(join (filter .l (string? .)) :w)", "(number? .)", "(fold .l :v (+ .so_far 1))",
    "(\"+\" (stringify .n) \"1\")", "(null? .k)",
];

const SETS: [&str; 5] = ["--set=v=1", "--set=w=\"a\"", "--set=@m2=.k", "--set=@m3=(= .k :w)", "--set=@m4=(len .l)"];

fn seq_input(idx: &[usize], wrap: bool) -> Vec<u8> {
    let mut s = String::new();
    for i in idx {
        if wrap {
            s.push_str(&format!("{{\"k\":\"outer\",\"rows\":[{}]}}\n", RECS[*i]));
        } else {
            s.push_str(RECS[*i]);
            s.push('\n');
        }
    }
    s.into_bytes()
}

fn stable_order(vals: &[Option<V>], desc: bool) -> Option<Vec<usize>> {
    let mut out: Vec<usize> = Vec::new();
    for (i, v) in vals.iter().enumerate() {
        let Some(v) = v else { continue };
        let mut pos = out.len();
        while pos > 0 {
            let o = eval::vcmp(vals[out[pos - 1]].as_ref().unwrap(), v)?;
            let o = if desc { o.reverse() } else { o };
            if o == Ordering::Greater {
                pos -= 1;
            } else {
                break;
            }
        }
        out.insert(pos, i);
    }
    Some(out)
}

fn position_part(ctx: &mut Ctx) {
    let maxlen = ctx.tier.pick(3usize, 5);
    let mut seqs: Vec<Vec<usize>> = Vec::new();
    crate::explore::seqs_upto(RECS.len(), maxlen, |i| seqs.push(i.to_vec()));
    for (ei, e) in EXPRS.iter().enumerate() {
        for after_split in [false, true] {
            if !ctx.mine() {
                continue;
            }
            // after --split-by=.rows the same records arrive as rows with a parent; `^.k` is then meaningful
            let etext: String = if after_split && ei % 3 == 0 { format!("(push [] {e} ^.k)") } else { e.to_string() };
            let mut base: Vec<String> = SETS.iter().map(|s| s.to_string()).collect();
            if after_split {
                base.push("--split-by=.rows".into());
            }
            // hundreds of records for the expressions that go through variables and macros (state kept between
            // records in those rarely used paths); most records make the macro yield nothing
            let long: Vec<Vec<usize>> = if [32usize, 36, 37, 38, 40].contains(&ei) { vec![(0..700).map(|i| if i % 9 == 4 { i % 3 } else { 3 + i % 2 }).collect()] } else { vec![] };
            if !long.is_empty() {
                ctx.guard("hundreds-of-rows-in-every-position");
            }
            for idx in seqs.iter().chain(long.iter()) {
                let input = seq_input(idx, after_split);
                let recs: Vec<V> = idx.iter().map(|i| json::parse_str(RECS[*i])).collect();
                // values of the expression as a selection
                let mut a = base.clone();
                a.push(format!("--select={etext}=v"));
                let sel_case = Case::owned(a, input.clone());
                let sel = ctx.run(&sel_case);
                ctx.case_done();
                let rows = json::parse_rows(&sel.stdout, b"\n").unwrap_or_default();
                let sig0 = format!("expr#{ei}{}", if after_split { " after-split" } else { "" });
                if !sel.res.is_ok() || rows.len() != idx.len() {
                    ctx.violation("select-run-failed", &sig0, &[sel_case.clone()], format!("{} rows", idx.len()), sel.brief());
                    continue;
                }
                let vals: Vec<Option<V>> = rows.iter().map(|r| r.get("v").cloned()).collect();
                if vals.iter().any(|v| v.is_some()) && (etext.contains(':') || etext.contains('@') || etext.contains('^')) {
                    ctx.nontrivial();
                }
                ctx.state(&(ei, after_split, vals.iter().map(|v| v.is_some()).collect::<Vec<_>>()));
                let run_pos = |ctx: &mut Ctx, extra: Vec<String>| -> (Case, Option<Vec<V>>) {
                    let mut a = base.clone();
                    // --split-by is the position under test in one case: it replaces the wrapper split
                    a.extend(extra);
                    let c = Case::owned(a, input.clone());
                    let o = ctx.run(&c);
                    ctx.case_done();
                    ctx.trace_validated();
                    let r = if o.res.is_ok() { json::parse_rows(&o.stdout, b"\n").ok() } else { None };
                    (c, r)
                };
                let report = |ctx: &mut Ctx, clause: &str, pos: &str, c: &Case, exp: String, got: &Option<Vec<V>>| {
                    ctx.outcome("violation");
                    ctx.violation(
                        clause,
                        &format!("{pos} {sig0}"),
                        &[c.clone(), sel_case.clone()],
                        exp,
                        match got {
                            Some(g) => super::pipe::texts(g),
                            None => "run failed".into(),
                        },
                    );
                };
                // --filter keeps exactly the rows for which the selection is true
                {
                    let (c, got) = run_pos(ctx, vec![format!("--filter={etext}")]);
                    let exp: Vec<V> = recs.iter().zip(&vals).filter(|(_, v)| **v == Some(V::Bool(true))).map(|(r, _)| r.clone()).collect();
                    if !exp.is_empty() && exp.len() < recs.len() {
                        ctx.guard("filter-kept-and-dropped");
                    }
                    if got.as_ref() != Some(&exp) {
                        report(ctx, "filter-keeps-other-rows-than-the-selection-says", "filter", &c, super::pipe::texts(&exp), &got);
                    }
                }
                // the positions that run after the selections: once bare, once behind another --select
                for presel in [0usize, 1, 2] {
                    // 1: the whole row is selected; 2: only `.k` is selected, so rows that differ elsewhere share their selected values
                    let pre: Vec<String> = match presel {
                        0 => vec![],
                        1 => vec!["--select=.=row".into()],
                        _ => vec![if after_split { "--select=^.k=kk".to_string() } else { "--select=.k=kk".to_string() }, "--select=.t=tt".into()],
                    };
                    let wrap = |r: &V| match presel {
                        0 => r.clone(),
                        1 => V::Obj(vec![("row".into(), r.clone())]),
                        _ => {
                            let mut m = Vec::new();
                            if after_split {
                                m.push(("kk".to_string(), V::s("outer")));
                            } else if let Some(k) = r.get("k") {
                                m.push(("kk".to_string(), k.clone()));
                            }
                            if let Some(t) = r.get("t") {
                                m.push(("tt".to_string(), t.clone()));
                            }
                            V::Obj(m)
                        }
                    };
                    let tag = |pos: &str| match presel {
                        0 => pos.to_string(),
                        1 => format!("{pos}-after-a-select"),
                        _ => format!("{pos}-after-a-collapsing-select"),
                    };
                    // --sort-by orders by the selected values
                    for desc in [false, true] {
                        if let Some(order) = stable_order(&vals, desc) {
                            let mut extra = pre.clone();
                            extra.push(format!("--sort-by={etext}{}", if desc { "=DESC" } else { "" }));
                            let (c, got) = run_pos(ctx, extra);
                            let exp: Vec<V> = order.iter().map(|i| wrap(&recs[*i])).collect();
                            if order.windows(2).any(|w| w[0] > w[1]) {
                                ctx.guard("sort-reordered");
                            }
                            if got.as_ref() != Some(&exp) {
                                report(ctx, "sort-order-differs-from-the-order-of-the-selected-values", &tag("sort"), &c, super::pipe::texts(&exp), &got);
                            }
                            // the same key listed before a second sort key that ties every row (the stable sort leaves the order as it is)
                            let mut extra = pre.clone();
                            extra.push(format!("--sort-by={etext}{}", if desc { "=DESC" } else { "" }));
                            extra.push("--sort-by=(len \"\")".into());
                            let (c, got) = run_pos(ctx, extra);
                            ctx.guard("position-next-to-another-sort");
                            if got.as_ref() != Some(&exp) {
                                report(ctx, "sort-order-differs-from-the-order-of-the-selected-values", &tag("sort-before-a-tying-sort"), &c, super::pipe::texts(&exp), &got);
                            }
                        }
                    }
                    // --group-by groups by the selected values
                    {
                        let mut extra = pre.clone();
                        extra.push(format!("--group-by={etext}"));
                        let (c, got) = run_pos(ctx, extra);
                        let mut groups: Vec<(String, Vec<V>)> = Vec::new();
                        for (r, v) in recs.iter().zip(&vals) {
                            if let Some(V::Str(k)) = v {
                                match groups.iter_mut().find(|(kk, _)| kk == k) {
                                    Some((_, g)) => g.push(wrap(r)),
                                    None => groups.push((k.clone(), vec![wrap(r)])),
                                }
                            }
                        }
                        if groups.len() >= 2 {
                            ctx.guard("group-two-keys");
                        }
                        let exp = vec![V::Obj(groups.into_iter().map(|(k, g)| (k, V::Arr(g))).collect())];
                        if got.as_ref() != Some(&exp) {
                            report(ctx, "groups-differ-from-the-selected-values", &tag("group"), &c, super::pipe::texts(&exp), &got);
                        }
                        // the same grouping behind a sort that ties every row
                        let mut extra = pre.clone();
                        extra.push("--sort-by=(len \"\")".into());
                        extra.push(format!("--group-by={etext}"));
                        let (c, got) = run_pos(ctx, extra);
                        if got.as_ref() != Some(&exp) {
                            report(ctx, "groups-differ-from-the-selected-values", &tag("group-after-a-tying-sort"), &c, super::pipe::texts(&exp), &got);
                        }
                    }
                    // --set macro (and a second --select): same values
                    {
                        let mut extra = pre.clone();
                        // every second expression with a blank between the `=` of --set and the expression
                        extra.push(if etext.len() % 2 == 0 { format!("--set=@pos= {etext}") } else { format!("--set=@pos={etext}") });
                        extra.push("--select=@pos=v".into());
                        extra.push(format!("--select={etext}=v2"));
                        let (c, got) = run_pos(ctx, extra);
                        ctx.guard("macro-position");
                        let gv: Option<Vec<Option<V>>> = got.as_ref().map(|g| g.iter().map(|r| r.get("v").cloned()).collect());
                        let gv2: Option<Vec<Option<V>>> = got.as_ref().map(|g| g.iter().map(|r| r.get("v2").cloned()).collect());
                        if gv.as_ref() != Some(&vals) {
                            report(ctx, "macro-differs-from-the-selection", &tag("macro"), &c, super::pipe::texts(&rows), &got);
                        }
                        if gv2.as_ref() != Some(&vals) {
                            report(ctx, "later-selection-differs-from-the-first", &tag("select"), &c, super::pipe::texts(&rows), &got);
                        }
                    }
                }
                // --split-by: rows are the elements of the selected arrays (only without the wrapper split: one split per run)
                if !after_split {
                    let (c, got) = run_pos(ctx, vec![format!("--split-by={etext}")]);
                    let mut exp: Vec<V> = Vec::new();
                    for v in &vals {
                        if let Some(V::Arr(items)) = v {
                            exp.extend(items.iter().cloned());
                        }
                    }
                    if !exp.is_empty() {
                        ctx.guard("split-produced-rows");
                    }
                    if got.as_ref() != Some(&exp) {
                        report(ctx, "split-rows-differ-from-the-selected-arrays", "split", &c, super::pipe::texts(&exp), &got);
                    }
                }
                ctx.outcome("positions-ok");
            }
            if ctx.time_up() {
                ctx.cap("b: expressions");
                return;
            }
        }
    }
    // --set variable: the value the expression has on the empty context
    for (ei, e) in EXPRS.iter().enumerate() {
        if e.contains(':') || e.contains('@') || !ctx.mine() {
            continue;
        }
        let sel_case = Case::owned(vec![format!("--select={e}=v")], b"null\n".to_vec());
        let sel = ctx.run(&sel_case);
        let v = json::parse_rows(&sel.stdout, b"\n").ok().and_then(|r| r.first().and_then(|x| x.get("v").cloned()));
        let var_case = Case::owned(vec![if e.len() % 2 == 0 { format!("--set=pos= {e}") } else { format!("--set=pos={e}") }, "--select=:pos=v".into()], b"null\n".to_vec());
        let var = ctx.run(&var_case);
        ctx.case_done();
        ctx.trace_validated();
        match &v {
            Some(val) => {
                ctx.guard("variable-position");
                let got = json::parse_rows(&var.stdout, b"\n").ok().and_then(|r| r.first().and_then(|x| x.get("v").cloned()));
                if got.as_ref() != Some(val) || !var.res.is_ok() {
                    ctx.violation("variable-differs-from-the-selection", &format!("variable expr#{ei}"), &[var_case.clone(), sel_case.clone()], eval::show_opt(&v), var.brief());
                }
            }
            None => {
                // nothing to bind: the configuration is rejected (or the variable is absent) — never a different value
                let got = json::parse_rows(&var.stdout, b"\n").ok().and_then(|r| r.first().and_then(|x| x.get("v").cloned()));
                if got.is_some() {
                    ctx.violation("variable-differs-from-the-selection", &format!("variable expr#{ei}"), &[var_case.clone(), sel_case.clone()], "nothing".into(), var.brief());
                }
            }
        }
    }
    ctx.level_done("b:every-expression-in-every-option-position");
}

// ------------------------------------------------------------------ (c) spellings

const SPELL: [&str; 47] = [
    "(+ .n :v)", "(+ :v :v)", "(concat .k :w)", "(concat :w .k)", "(push .l @m2 :v)", "(push [] @m2 .k)", "(get . \"k\")", "(take .l 1)", "(sub .l 0 1)", "(? .t 1 2)",
    "(? .t \"a\" \"b\")", "(default .zz 4)", "(map .l (+ . :v))", "(filter .l (> . :v))", "(and .t true)", "(or false .t)", "(= .k :w)", "(< 1 .n)", "(len .)", "(keys .)",
    "(concat \"a\" \"b\" .k)", "(+ 1 2 .n)", "(* .n 2.5)", "(- .n)", "(push .l [1, 2] {\"a\": 1})", "(push [] null true false)", "(set \"q\" .n (+ :q 1))", "(define \"d\" .k (concat @d @d))",
    "(| .l (len .))", "(join (push [] .k :w) \"-\")", "(extract_regex_group .k \"(a)\" 1)", "(fold .l 0 (+ .so_far .value))", "(zip .l .l)", "(put {} .k .n)", "(push [] .n#0 .l#0)",
    "(sort_by .l (len .))", "(range 3)", "(push [] -1 1.5 1e2)", "(stringify .l)", "(group_by .l (stringify .))",
    // pipes that start at `.` (the dot sugar writes them `(.| f g)`): the parents of the later stages must not move
    "(take . 2)", "(size .)", "(map . (len .))",
    "(| . .l (push [] ^^.k ^))", "(| . .n (+ . ^^.n))", "(| . (+ .n 1) (push [] . ^ ^^.k))", "(map .l (| . (+ . 1) (push [] . ^ ^^ ^^^.k)))",
];

fn styles() -> Vec<(&'static str, Style)> {
    vec![
        ("blank", Style { sep: " ", pad: "", dot_sugar: false }),
        ("comma", Style { sep: ",", pad: "", dot_sugar: false }),
        ("comma-blank", Style { sep: ", ", pad: "", dot_sugar: false }),
        ("blank-comma", Style { sep: " ,", pad: "", dot_sugar: false }),
        ("two-blanks", Style { sep: "  ", pad: "", dot_sugar: false }),
        ("tab", Style { sep: "\t", pad: "", dot_sugar: false }),
        ("newline", Style { sep: "\n", pad: "", dot_sugar: false }),
        ("padded", Style { sep: " ", pad: " ", dot_sugar: false }),
        ("padded-comma", Style { sep: ",", pad: " ", dot_sugar: false }),
        ("padded-newline", Style { sep: " ", pad: "\n", dot_sugar: false }),
        ("dot-sugar", Style { sep: " ", pad: "", dot_sugar: true }),
        ("dot-sugar-comma", Style { sep: ",", pad: "", dot_sugar: true }),
        ("comma-comma", Style { sep: ",,", pad: "", dot_sugar: false }),
        ("dot-sugar-padded", Style { sep: " , ", pad: "  ", dot_sugar: true }),
    ]
}

/// expressions beyond the usual sizes: deep nesting, many arguments, long literals, long names
fn big_exprs() -> Vec<String> {
    let mut v = Vec::new();
    for depth in [9usize, 17, 33, 65] {
        let mut e = ".n".to_string();
        for i in 0..depth {
            e = if i % 2 == 0 { format!("(+ 1 {e})") } else { format!("(| {e} (+ . 1))") };
        }
        v.push(e);
    }
    for n in [9usize, 33, 130] {
        v.push(format!("(+ {} .n)", (1..=n).map(|i| i.to_string()).collect::<Vec<_>>().join(" ")));
        v.push(format!("(push [] {} :v)", (0..n).map(|i| format!("\"s{i}\"")).collect::<Vec<_>>().join(" ")));
    }
    for n in [31usize, 32, 33, 64, 300] {
        v.push(format!("(concat \"{}\" .k)", "q".repeat(n)));
        v.push(format!("(len \"{}\u{e9}\")", "q".repeat(n)));
        v.push(format!("(get (put {{}} \"{}\" :v) \"{}\")", "k".repeat(n), "k".repeat(n)));
    }
    v.push("(set \"a-rather-long-variable-name-0123456789-0123456789\" .n (+ :a-rather-long-variable-name-0123456789-0123456789 :v))".to_string());
    v
}

fn spelling_part(ctx: &mut Ctx) {
    let sts = styles();
    let big = big_exprs();
    let all: Vec<&str> = SPELL.iter().copied().chain(big.iter().map(|s| s.as_str())).collect();
    for (ei, t) in all.iter().enumerate() {
        if !ctx.mine() {
            continue;
        }
        let e: E = p(t);
        // besides the records: inputs that are themselves a non-ASCII string / a list of such (what `.` is matters for
        // the spellings that start at `.`)
        const MORE_INPUTS: [&str; 2] = ["\"h\u{e9}llo\u{1f603}\"", "[\"\u{e9}\", {\"k\": \"\u{20ac}\"}]"];
        for (ri, rec) in RECS.iter().chain(MORE_INPUTS.iter()).enumerate() {
            let mut args: Vec<String> = SETS.iter().map(|s| s.to_string()).collect();
            args.push("--utf8-strings".into());
            args.push(format!("--select={}=c", expr::show(&e)));
            for (i, (_, st)) in sts.iter().enumerate() {
                args.push(format!("--select={}=s{i}", expr::show_with(&e, st)));
            }
            let case = Case::owned(args, format!("{rec}\n").into_bytes());
            let obs = ctx.run(&case);
            ctx.case_done();
            ctx.trace_validated();
            let rows = json::parse_rows(&obs.stdout, b"\n").unwrap_or_default();
            if !obs.res.is_ok() || rows.len() != 1 {
                ctx.violation("spelling-rejected", &format!("spelling of expr#{ei}"), &[case.clone()], "every documented spelling is accepted".into(), obs.brief());
                continue;
            }
            let c = rows[0].get("c").cloned();
            if c.is_some() {
                ctx.nontrivial();
                if t.contains(':') || t.contains('@') {
                    ctx.guard("comma-after-variable");
                }
                if expr::show_with(&e, &sts[10].1).starts_with("(.") {
                    ctx.guard("dot-sugar");
                }
            }
            ctx.transition(&(ei, ri));
            for (i, (sname, _)) in sts.iter().enumerate() {
                if rows[0].get(&format!("s{i}")).cloned() != c {
                    ctx.outcome("violation");
                    ctx.violation(
                        "spelling-changes-the-value",
                        &format!("{sname} expr#{ei}"),
                        &[case.clone()],
                        format!("{} for every spelling", eval::show_opt(&c)),
                        format!("{} for {:?}", eval::show_opt(&rows[0].get(&format!("s{i}")).cloned()), expr::show_with(&e, &sts[i].1)),
                    );
                }
            }
            ctx.outcome("spellings-ok");
        }
    }
    ctx.level_done("c:every-expression-in-14-spellings");
}

// ------------------------------------------------------------------ (d) regex cache

fn cache_part(ctx: &mut Ctx) {
    // "ab"/"a" and "b"/"aa" glue to the same text (a cache keyed on pattern+subject without a separator confuses them)
    let subjects = ["aab", "xyz", "ab", "b"];
    let patterns = ["a+", "(a)(b)?", "[", "(x|b)y?", "a", "aa"];
    let all_pairs: Vec<(usize, usize)> = (0..subjects.len()).flat_map(|s| (0..patterns.len()).map(move |p| (s, p))).collect();
    // core: the 8 pairs of the first two subjects x first four patterns, plus the four gluing pairs
    let core: Vec<(usize, usize)> = all_pairs.iter().copied().filter(|(s, p)| (*s < 2 && *p < 4) || (*s >= 2 && *p >= 4)).collect();
    let maxlen = ctx.tier.pick(4usize, 6);
    let full_len = ctx.tier.pick(2usize, 3);
    for len in 1..=maxlen {
        let pairs: &Vec<(usize, usize)> = if len <= full_len { &all_pairs } else { &core };
        let mut todo: Vec<Vec<usize>> = Vec::new();
        crate::explore::seqs_exact(pairs.len(), len, |i| todo.push(i.to_vec()));
        for idx in todo {
            if !ctx.mine() {
                continue;
            }
            let mut input = String::new();
            let mut expected: Vec<V> = Vec::new();
            for i in &idx {
                let (s, pt) = pairs[*i];
                input.push_str(&format!("{{\"s\":\"{}\",\"p\":\"{}\"}}\n", subjects[s], patterns[pt]));
                let mut m: Vec<(String, V)> = Vec::new();
                if let Ok(re) = regex::Regex::new(patterns[pt]) {
                    m.push(("m".into(), V::Bool(re.is_match(subjects[s]))));
                    if let Some(g) = re.captures(subjects[s]).and_then(|c| c.get(1)) {
                        m.push(("g".into(), V::s(g.as_str())));
                    }
                    if let Some(g) = re.captures(subjects[s]).and_then(|c| c.get(0)) {
                        m.push(("w".into(), V::s(g.as_str())));
                    }
                } else {
                    ctx.guard("invalid-pattern");
                }
                expected.push(V::Obj(m));
            }
            let distinct: std::collections::HashSet<usize> = idx.iter().map(|i| pairs[*i].1).collect();
            for size in ["0", "1", "2", "64"] {
                let case = Case::owned(
                    vec![
                        format!("--regular-expression-cache-size={size}"),
                        "--select=(match .s .p)=m".into(),
                        "--select=(extract_regex_group .s .p 1)=g".into(),
                        "--select=(extract_regex_group .s .p 0)=w".into(),
                    ],
                    input.clone().into_bytes(),
                );
                let obs = ctx.run(&case);
                ctx.case_done();
                ctx.trace_validated();
                if distinct.len() >= 2 {
                    ctx.nontrivial();
                    if size == "1" || (size == "2" && distinct.len() >= 3) {
                        ctx.guard("cache-eviction");
                    }
                }
                ctx.state(&(size, idx.iter().map(|i| pairs[*i].1).collect::<Vec<_>>()));
                let rows = json::parse_rows(&obs.stdout, b"\n").unwrap_or_default();
                if !obs.res.is_ok() || rows != expected {
                    ctx.outcome("violation");
                    ctx.violation(
                        "regex-result-depends-on-the-cache",
                        &format!("cache-size {size} {} distinct patterns", distinct.len()),
                        &[case.clone()],
                        super::pipe::texts(&expected),
                        obs.brief(),
                    );
                } else {
                    ctx.outcome("cache-ok");
                }
            }
            if ctx.time_up() {
                ctx.cap("d: cache sequences");
                return;
            }
        }
        ctx.level_done(&format!("d:all-sequences-of-{len}-(subject,pattern)-pairs-x-4-cache-sizes"));
    }
}

/// more distinct patterns than the cache holds, then the early ones again (eviction at the size limit, not at size 1)
fn cache_threshold_part(ctx: &mut Ctx) {
    for size in [2usize, 3, 16, 64] {
        for extra in [0usize, 1, 2, 7] {
            if !ctx.mine() {
                continue;
            }
            let n = size + extra;
            // pattern i matches exactly the subjects that hold the digit string of i between two x
            let mut order: Vec<usize> = (0..n).collect();
            order.extend(0..n);
            order.extend((0..n).rev());
            let mut input = String::new();
            let mut expected: Vec<V> = Vec::new();
            for (step, i) in order.iter().enumerate() {
                let subject = format!("x{}x", (i + step) % n);
                let pattern = format!("x({i})x");
                input.push_str(&format!("{{\"s\":\"{subject}\",\"p\":\"{pattern}\"}}\n"));
                let re = regex::Regex::new(&pattern).unwrap();
                let mut m: Vec<(String, V)> = vec![("m".into(), V::Bool(re.is_match(&subject)))];
                if let Some(g) = re.captures(&subject).and_then(|c| c.get(1)) {
                    m.push(("g".into(), V::s(g.as_str())));
                }
                expected.push(V::Obj(m));
            }
            let case = Case::owned(
                vec![format!("--regular-expression-cache-size={size}"), "--select=(match .s .p)=m".into(), "--select=(extract_regex_group .s .p 1)=g".into()],
                input.into_bytes(),
            );
            let obs = ctx.run(&case);
            ctx.case_done();
            ctx.trace_validated();
            ctx.nontrivial();
            ctx.guard("more-patterns-than-the-cache-holds");
            let rows = json::parse_rows(&obs.stdout, b"\n").unwrap_or_default();
            if !obs.res.is_ok() || rows != expected {
                let first = rows.iter().zip(expected.iter()).position(|(a, b)| a != b).unwrap_or(rows.len().min(expected.len()));
                ctx.violation(
                    "regex-result-depends-on-the-cache",
                    &format!("cache-size {size} with {n} distinct patterns"),
                    &[case.clone()],
                    format!("row {first} = {}", expected.get(first).map(json::to_text).unwrap_or_default()),
                    format!("row {first} = {}", rows.get(first).map(json::to_text).unwrap_or_default()),
                );
            }
        }
    }
    // big patterns (compiled size well above a megabyte is legal: the default limit of the regex crate is 10 MiB):
    // the answer must not depend on whether the pattern went through the cache
    if ctx.mine() {
        let pats = ["\\\\w{30}", "\\\\p{L}{60}", "[\\\\w.]{1,64}@\\\\w{1,40}", "(\\\\d{1,50}[a-z]{1,50}){3}", "\\\\w{300}"];
        let subjects: Vec<String> = vec!["abcdefghijklmnopqrstuvwxyzabcdefgh".to_string(), "\u{e9}".repeat(70), "first.last@example".to_string(), "12ab34cd56ef".to_string(), "w".repeat(299)];
        let mut input = String::new();
        let mut expected: Vec<V> = Vec::new();
        for (pi, pt) in pats.iter().enumerate() {
            for s in subjects.iter().cloned().chain([String::new()]) {
                let real = pt.replace("\\\\", "\\");
                input.push_str(&format!("{{\"s\":\"{s}\",\"p\":\"{pt}\"}}\n"));
                let mut m: Vec<(String, V)> = Vec::new();
                if let Ok(re) = regex::Regex::new(&real) {
                    m.push(("m".into(), V::Bool(re.is_match(&s))));
                    if let Some(g) = re.captures(&s).and_then(|c| c.get(0)) {
                        m.push(("w".into(), V::s(g.as_str())));
                    }
                }
                let _ = pi;
                expected.push(V::Obj(m));
            }
        }
        for size in ["0", "1", "3", "64"] {
            let case = Case::owned(vec![format!("--regular-expression-cache-size={size}"), "--utf8-strings".into(), "--select=(match .s .p)=m".into(), "--select=(extract_regex_group .s .p 0)=w".into()], input.clone().into_bytes());
            let obs = ctx.run(&case);
            ctx.case_done();
            ctx.trace_validated();
            ctx.nontrivial();
            ctx.guard("big-patterns");
            let rows = json::parse_rows(&obs.stdout, b"\n").unwrap_or_default();
            if !obs.res.is_ok() || rows != expected {
                let first = rows.iter().zip(expected.iter()).position(|(a, b)| a != b).unwrap_or(rows.len().min(expected.len()));
                ctx.violation("regex-result-depends-on-the-cache", &format!("cache-size {size} big patterns"), &[case.clone()], format!("row {first} = {}", expected.get(first).map(json::to_text).unwrap_or_default()), format!("row {first} = {}", rows.get(first).map(json::to_text).unwrap_or_default()));
            }
        }
    }
    ctx.level_done("d:more-distinct-patterns-than-the-cache-holds(sizes-2,3,16,64)");
}

/// every construct of the pattern syntax under every cache size (one pattern per run, met twice), and a regex call
/// whose subject is itself the result of a regex call
fn pattern_syntax_part(ctx: &mut Ctx) {
    let patterns = ["a{2}", "xy{2,3}z", "q{", "a{2,}", "{", "}", "a}", "a|b", "^a", "b$", "a.b", "a*", "a?b", "[a-b]+", "(?i)AB", "\\d", "\\.", "\\{", "(a)|(b)", "(x)?(y+)", "ab", "", " ", "(?m)^b$", "(?s)a.b", "a.+b", "a$"];
    let subjects = ["caab", "xyyz", "q{", "ab", "a.b", "AB", "7", "}", "a}", "", "a b", "a\rb", "a\r\nb", "a\nb", "a\r"];
    for (pi, pt) in patterns.iter().enumerate() {
        if !ctx.mine() {
            continue;
        }
        for subj in subjects {
            let rec = to_text_obj(subj, pt);
            let input = format!("{rec}\n{rec}\n");
            let mut m: Vec<(String, V)> = Vec::new();
            if let Ok(re) = regex::Regex::new(pt) {
                m.push(("m".into(), V::Bool(re.is_match(subj))));
                if let Some(g) = re.captures(subj).and_then(|c| c.get(1)) {
                    m.push(("g".into(), V::s(g.as_str())));
                }
                if let Some(g) = re.captures(subj).and_then(|c| c.get(2)) {
                    m.push(("g2".into(), V::s(g.as_str())));
                }
                if let Some(w) = re.captures(subj).and_then(|c| c.get(0)) {
                    m.push(("w".into(), V::s(w.as_str())));
                    m.push(("n".into(), V::Bool(re.is_match(w.as_str()))));
                }
            } else {
                ctx.guard("invalid-pattern");
            }
            let expected = vec![V::Obj(m.clone()), V::Obj(m)];
            for size in ["0", "1", "2", "64"] {
                let case = Case::owned(
                    vec![
                        format!("--regular-expression-cache-size={size}"),
                        "--select=(match .s .p)=m".into(),
                        "--select=(extract_regex_group .s .p 1)=g".into(),
                        "--select=(extract_regex_group .s .p 2)=g2".into(),
                        "--select=(extract_regex_group .s .p 0)=w".into(),
                        "--select=(match (extract_regex_group .s .p 0) .p)=n".into(),
                    ],
                    input.clone().into_bytes(),
                );
                let obs = ctx.run(&case);
                ctx.case_done();
                ctx.trace_validated();
                ctx.nontrivial();
                ctx.guard("pattern-syntax-under-every-cache-size");
                ctx.transition(&("syntax", pi, size));
                let rows = json::parse_rows(&obs.stdout, b"\n").unwrap_or_default();
                if !obs.res.is_ok() || rows != expected {
                    ctx.outcome("violation");
                    ctx.violation("regex-result-depends-on-the-cache", &format!("cache-size {size} pattern#{pi} {pt:?}"), &[case.clone()], super::pipe::texts(&expected), obs.brief());
                } else {
                    ctx.outcome("cache-ok");
                }
            }
        }
    }
    ctx.level_done("d:pattern-syntax(27-patterns-x-15-subjects-x-4-cache-sizes,nested-call)");
}

fn to_text_obj(s: &str, p: &str) -> String {
    json::to_text(&V::Obj(vec![("s".into(), V::s(s)), ("p".into(), V::s(p))]))
}

// ------------------------------------------------------------------ (e) one macro body used under several bindings

const SHARED_SETS: [(&str, &str); 5] = [("@twice", "(| @f @f)"), ("@f", "(- . 1)"), ("@g", "@f"), ("@addv", "(+ . :v)"), ("v", "3")];
const SHARED: [&str; 12] = [
    "(define \"f\" (+ . 1) @twice)",
    "(define \"f\" (* . 10) @twice)",
    "@twice",
    "(define \"f\" (* . 10) @g)",
    "@g",
    "(set \"v\" 5 @addv)",
    "@addv",
    "(define \"g\" @f (+ (define \"f\" 1 @g) (define \"f\" 2 @g)))",
    "(push [] (define \"f\" 1 @g) @g (define \"f\" 2 @g))",
    "(push [] (set \"v\" 1 @addv) @addv (set \"v\" 2 @addv))",
    "(map (range 3) (define \"f\" (+ . ^) @g))",
    "(define \"f\" (define \"f\" (+ . 2) @twice) @twice)",
];

/// A macro body is one parsed node that is evaluated under whatever bindings are in scope where the macro is used:
/// every expression alone against the reference evaluator, then every ordered pair and triple of them as
/// selections of one run (each column must keep the value it has alone).
fn shared_site_part(ctx: &mut Ctx) {
    let inputs = ["3", "4", "10"];
    let base: Vec<String> = SHARED_SETS.iter().map(|(n, b)| format!("--set={n}={b}")).collect();
    let input: Vec<u8> = inputs.join("\n").into_bytes();
    let mut alone: Vec<Option<Vec<Option<V>>>> = Vec::new();
    for (ei, e) in SHARED.iter().enumerate() {
        let mut a = base.clone();
        a.push(format!("--select={e}=c0"));
        a.push("--select=.=row".into());
        let case = Case::owned(a, input.clone());
        let o = ctx.run(&case);
        let rows = json::parse_rows(&o.stdout, b"\n").ok().filter(|r| o.res.is_ok() && r.len() == inputs.len());
        let vals: Option<Vec<Option<V>>> = rows.map(|r| r.iter().map(|x| x.get("c0").cloned()).collect());
        if ctx.mine() {
            ctx.case_done();
            ctx.trace_validated();
            match &vals {
                None => ctx.violation("select-run-failed", &format!("shared#{ei}"), &[case.clone()], "3 rows".into(), o.brief()),
                Some(vs) => {
                    for (i, inp) in inputs.iter().enumerate() {
                        let mut env = eval::Env::of(json::parse_str(inp));
                        for (n, b) in SHARED_SETS {
                            match n.strip_prefix('@') {
                                Some(m) => env.macros.push((m.to_string(), p(b))),
                                None => env.vars.push((n.to_string(), json::parse_str(b))),
                            }
                        }
                        if let Ok(model) = eval::eval(&p(e), &env) {
                            ctx.nontrivial();
                            if !eval::agrees_opt(&model, &vs[i], false) {
                                ctx.violation("value-differs-from-the-reference-evaluator", &format!("shared#{ei} input {inp}"), &[case.clone()], eval::show_opt(&model), eval::show_opt(&vs[i]));
                            }
                        }
                    }
                }
            }
        }
        alone.push(vals);
    }
    let n = SHARED.len();
    let mut tuples: Vec<Vec<usize>> = Vec::new();
    for a in 0..n {
        for b in 0..n {
            tuples.push(vec![a, b]);
            if ctx.tier == Tier::Thorough || (a + b) % 3 == 0 {
                for c in 0..n {
                    tuples.push(vec![a, b, c]);
                }
            }
        }
    }
    for t in tuples {
        if !ctx.mine() {
            continue;
        }
        let mut a = base.clone();
        for (k, ei) in t.iter().enumerate() {
            a.push(format!("--select={}=c{k}", SHARED[*ei]));
        }
        a.push("--select=.=row".into());
        let case = Case::owned(a, input.clone());
        let o = ctx.run(&case);
        ctx.case_done();
        ctx.trace_validated();
        ctx.transition(&("shared", t.clone()));
        ctx.guard("one-macro-body-under-two-bindings");
        let rows = json::parse_rows(&o.stdout, b"\n").ok().filter(|r| o.res.is_ok() && r.len() == inputs.len());
        let Some(rows) = rows else {
            ctx.violation("select-run-failed", &format!("shared {t:?}"), &[case.clone()], "3 rows".into(), o.brief());
            continue;
        };
        for (k, ei) in t.iter().enumerate() {
            let Some(want) = &alone[*ei] else { continue };
            let got: Vec<Option<V>> = rows.iter().map(|r| r.get(&format!("c{k}")).cloned()).collect();
            if &got != want {
                ctx.violation(
                    "value-depends-on-the-other-selections-of-the-run",
                    &format!("shared#{ei} as column {k} of {t:?}"),
                    &[case.clone()],
                    want.iter().map(eval::show_opt).collect::<Vec<_>>().join(" | "),
                    got.iter().map(eval::show_opt).collect::<Vec<_>>().join(" | "),
                );
                break;
            }
        }
    }
    ctx.level_done("e:one-macro-body-under-several-bindings(alone,pairs,triples)");
}

fn run(ctx: &mut Ctx) {
    alias_part(ctx);
    position_part(ctx);
    spelling_part(ctx);
    cache_part(ctx);
    cache_threshold_part(ctx);
    pattern_syntax_part(ctx);
    shared_site_part(ctx);
    // (f) an argument spelled as a variable or macro that is bound anew for every record / element means what the
    // argument itself means, for every function (shared with C12, where it is the binding that is under test)
    super::c12::rebinding_around_every_function(ctx);
    let _ = Tier::Quick;
}
