//! C06 — noise between values never changes them; --on-error policies do what they say.

use super::{Prop, COMMON_ASSUMPTIONS};
use crate::ctx::{Ctx, Tier};
use crate::drive::{Case, Obs};

pub fn prop() -> Prop {
    Prop {
        id: "C06",
        level: "model_checking",
        rule: "clean streams of <=2 (thorough <=3) values over a 6-value core (a negative number with an exponent, a literal, an integer, a string, an array, a nested object) x 5 separator kinds (space, LF, tab, CRLF, touching) with k=0,1 (thorough 2) whitespace-delimited noise tokens (all 1- and 2-byte tokens over the 16 bytes } ] , : . e E + x * 0x80 0xff NUL and the UTF-8 lead bytes 0xc3 0xe2 0xf0 - so tokens ending in a truncated multi-byte character and complete 2-byte characters occur) in every gap (before/between/after) x 4 policies x 9 pipelines (none, select, sort, unique, group, take, only-objects-and-arrays, split+filter, csv output); 3-value streams with 1-byte tokens; streams of 10..300 values with a noise token in EVERY gap, all on one line or one per line; non-trivial = k>=1 and a value follows the noise; distinct by construction; every eighth single-noise case is also given as a file (same rows, same kind of result)",
        explanation: "differential against the run on the clean stream (and on the clean prefix for the panic policy), clause by clause as the property states; the reached-gap rule for --take follows the step-wise reference pipeline",
        assumptions: COMMON_ASSUMPTIONS.to_vec(),
        guards: vec!["noisy-stream-from-a-file", "many-noisy-regions-on-one-line", "noise-before-value", "panic-policy-prefix", "clean-crlf", "non-utf8-noise", "error-line-on-stdout", "error-line-on-stderr"],
        budget_s: (100, 2400),
        single_worker: false,
        run,
        recheck: None,
    }
}

const CORE: [&str; 6] = ["-2.5e1", "true", "12", "\"a\"", "[1,\"b\"]", "{\"a\":{}}"];
const SEPS: [(&str, &str); 5] = [("space", " "), ("lf", "\n"), ("tab", "\t"), ("crlf", "\r\n"), ("touch", "")];
const NOISE: [u8; 16] = [b'}', b']', b',', b':', b'.', b'e', b'E', b'+', b'x', b'*', 0x80, 0xff, 0x00, 0xc3, 0xe2, 0xf0];
const POLICIES: [&str; 4] = ["ignore", "stdout", "stderr", "panic"];

struct Pipe {
    name: &'static str,
    args: &'static [&'static str],
    streaming: bool,
    take: Option<usize>,
}
const PIPES: [Pipe; 9] = [
    Pipe { name: "none", args: &[], streaming: true, take: None },
    Pipe { name: "select", args: &["--select=.=v"], streaming: true, take: None },
    Pipe { name: "sort", args: &["--sort-by=."], streaming: false, take: None },
    Pipe { name: "unique", args: &["--unique"], streaming: true, take: None },
    Pipe { name: "group", args: &["--group-by=(stringify .)"], streaming: false, take: None },
    Pipe { name: "take", args: &["--take=2"], streaming: true, take: Some(2) },
    Pipe { name: "ooa", args: &["--only-objects-and-arrays"], streaming: true, take: None },
    Pipe { name: "split", args: &["--split-by=(? (array? .) . (push [] .))", "--filter=(!= . \"b\")"], streaming: true, take: None },
    Pipe { name: "csv", args: &["--output-style=csv", "--select=(stringify .)=v", "--select=.a=a"], streaming: true, take: None },
];

/// Build the stream text: values joined by `sep`; gap g (0 = before the first value,
/// n = after the last) optionally carries whitespace-delimited noise.
fn build(vals: &[&str], sepkind: usize, noise: &[(usize, Vec<u8>)]) -> Vec<u8> {
    let (_, sep) = SEPS[sepkind];
    let ws: &[u8] = if sep.is_empty() { b" " } else { sep.as_bytes() };
    let mut out = Vec::new();
    for g in 0..=vals.len() {
        let here: Vec<&Vec<u8>> = noise.iter().filter(|(gi, _)| *gi == g).map(|(_, t)| t).collect();
        if here.is_empty() {
            if g > 0 && g < vals.len() {
                let touch_ok = sep.is_empty() && crate::refmodel::spell::may_touch(vals[g - 1], vals[g]);
                if sep.is_empty() && !touch_ok {
                    out.extend_from_slice(b" ");
                } else {
                    out.extend_from_slice(sep.as_bytes());
                }
            }
        } else {
            if g > 0 {
                out.extend_from_slice(ws);
            }
            for (i, t) in here.iter().enumerate() {
                if i > 0 {
                    out.extend_from_slice(ws);
                }
                out.extend_from_slice(t);
            }
            if g < vals.len() {
                out.extend_from_slice(ws);
            }
        }
        if g < vals.len() {
            out.extend_from_slice(vals[g].as_bytes());
        }
    }
    out
}

fn split_error_lines(out: &[u8]) -> (Vec<u8>, usize, bool) {
    // returns (bytes without error lines, number of error lines, framing ok)
    let mut rest = Vec::new();
    let mut n = 0;
    let mut i = 0;
    while i < out.len() {
        if out[i..].starts_with(b"error:") && (i == 0 || out[i - 1] == b'\n') {
            match out[i..].iter().position(|b| *b == b'\n') {
                Some(p) => {
                    n += 1;
                    i += p + 1;
                }
                None => return (rest, n, false),
            }
        } else {
            match out[i..].iter().position(|b| *b == b'\n') {
                Some(p) => {
                    rest.extend_from_slice(&out[i..i + p + 1]);
                    i += p + 1;
                }
                None => {
                    rest.extend_from_slice(&out[i..]);
                    i = out.len();
                }
            }
        }
    }
    (rest, n, true)
}

struct Fail {
    clause: String,
    expected: String,
    actual: String,
}

fn oracle(policy: &str, pipe: &Pipe, nvals: usize, noisy_gaps: &[usize], clean: &Obs, prefix: Option<&Obs>, got: &Obs) -> Option<Fail> {
    // which noisy gaps are reached before the pipeline stops reading
    let reached: Vec<usize> = match pipe.take {
        Some(t) if nvals >= t => noisy_gaps.iter().copied().filter(|g| *g <= t - 1).collect(),
        _ => noisy_gaps.to_vec(),
    };
    let f = |clause: &str, e: String, a: String| Some(Fail { clause: clause.to_string(), expected: e, actual: a });
    if got.res.is_panic() {
        return f("panic", "no panic".into(), got.res.short());
    }
    match policy {
        "ignore" => {
            if !got.res.is_ok() {
                return f("ignore-result", "Ok".into(), got.res.short());
            }
            if got.stdout != clean.stdout {
                return f("ignore-stdout", format!("{:?}", clean.out_str()), format!("{:?}", got.out_str()));
            }
            if !got.stderr.is_empty() {
                return f("ignore-stderr", "empty".into(), got.err_str());
            }
        }
        "stdout" => {
            if !got.res.is_ok() {
                return f("stdout-result", "Ok".into(), got.res.short());
            }
            let (rest, n, ok) = split_error_lines(&got.stdout);
            if !ok || rest != clean.stdout {
                return f("stdout-rows", format!("{:?} (+ error: lines)", clean.out_str()), format!("{:?}", got.out_str()));
            }
            if n < reached.len() {
                return f("stdout-error-lines", format!(">= {} error: lines", reached.len()), format!("{n} in {:?}", got.out_str()));
            }
            if reached.is_empty() && n > 0 {
                return f("spurious-error", "no error: line (nothing malformed was read)".into(), format!("{:?}", got.out_str()));
            }
            if !got.stderr.is_empty() {
                return f("stdout-stderr", "empty stderr".into(), got.err_str());
            }
        }
        "stderr" => {
            if !got.res.is_ok() {
                return f("stderr-result", "Ok".into(), got.res.short());
            }
            if got.stdout != clean.stdout {
                return f("stderr-stdout", format!("{:?}", clean.out_str()), format!("{:?}", got.out_str()));
            }
            let (rest, n, ok) = split_error_lines(&got.stderr);
            if !ok || !rest.is_empty() {
                return f("stderr-content", "only error: lines on stderr".into(), format!("{:?}", got.err_str()));
            }
            if n < reached.len() {
                return f("stderr-error-lines", format!(">= {} error: lines", reached.len()), format!("{n} in {:?}", got.err_str()));
            }
            if reached.is_empty() && n > 0 {
                return f("spurious-error", "no error: line".into(), format!("{:?}", got.err_str()));
            }
        }
        "panic" => {
            if reached.is_empty() {
                if !got.res.is_ok() {
                    return f("panic-clean-result", "Ok (no malformed byte is read)".into(), got.res.short());
                }
                if got.stdout != clean.stdout {
                    return f("panic-clean-stdout", format!("{:?}", clean.out_str()), format!("{:?}", got.out_str()));
                }
            } else {
                if !got.res.is_err() {
                    return f("panic-result", "Err at the first malformed byte".into(), got.res.short());
                }
                if pipe.streaming {
                    let p = prefix.expect("prefix run");
                    if got.stdout != p.stdout {
                        return f("panic-prefix", format!("exactly the rows of the preceding values: {:?}", p.out_str()), format!("{:?}", got.out_str()));
                    }
                }
            }
            if !got.stderr.is_empty() {
                return f("panic-stderr", "empty stderr stream (the error is the Result)".into(), got.err_str());
            }
        }
        _ => unreachable!(),
    }
    None
}

/// the first four are always used, the whole list with the shortest streams
const WORDS: [&[u8]; 24] = [
    b"NaN", b"//", b"\xc2\xa0", b"\xed\xa0\x80", b"True", b"Null", b"NaNa", b"'a'", b"NULL", b"Ia", b"//x", b"/*", b"#", b";", b"\xc2\xa0\xc2\xa0", b"\x0c", b"\x0b", b"\xe2\x80\xa8", b"\xe2\x80\x83",
    b"\xed\xbf\xbf", b"\xf4\x90\x80\x80", b"\xc0\xaf", b"\xe0\x80\xaf", b"\xf8\x88\x80\x80\x80",
];

fn tokens(two: bool, words: bool) -> Vec<Vec<u8>> {
    let mut v: Vec<Vec<u8>> = NOISE.iter().map(|b| vec![*b]).collect();
    // words that are values in other notations, comment openers of other notations and blank characters that are not JSON
    // white space (all made only of bytes that cannot start a JSON value), and byte sequences
    // that look like UTF-8 but denote no character (an encoded surrogate, a code point above U+10FFFF, an overlong form)
    let word_list: &[&[u8]] = if words { &WORDS } else { &WORDS[..4] };
    for w in word_list {
        v.push(w.to_vec());
    }
    if two {
        for a in NOISE {
            for b in NOISE {
                v.push(vec![a, b]);
            }
        }
    }
    v
}

fn args_for(policy: &str, pipe: &Pipe) -> Vec<String> {
    let mut a = vec![format!("--on-error={policy}")];
    a.extend(pipe.args.iter().map(|s| s.to_string()));
    a
}

fn explore_stream(ctx: &mut Ctx, idx: &[usize], toks: &[Vec<u8>], kmax: usize) {
    let vals: Vec<&str> = idx.iter().map(|i| CORE[*i]).collect();
    let n = vals.len();
    for sk in 0..SEPS.len() {
        let clean_in = build(&vals, sk, &[]);
        for pipe in &PIPES {
            for policy in POLICIES {
                let args = args_for(policy, pipe);
                let clean_case = Case::owned(args.clone(), clean_in.clone());
                let clean = ctx.run(&clean_case);
                ctx.case_done();
                ctx.state(&(pipe.name, policy, n, 0usize));
                // k = 0: a clean stream produces no error report under any policy
                if SEPS[sk].0 == "crlf" && n >= 2 {
                    ctx.guard("clean-crlf");
                }
                let has_err = |b: &[u8]| b.windows(6).any(|w| w == b"error:");
                if !clean.res.is_ok() || has_err(&clean.stderr) || (has_err(&clean.stdout) && !vals.iter().any(|v| v.contains("error:"))) {
                    ctx.violation(
                        "clean-stream-reports-error",
                        &format!("policy {policy} pipeline {} separator {}", pipe.name, SEPS[sk].0),
                        &[clean_case.clone()],
                        "Ok and no error: line".into(),
                        clean.brief(),
                    );
                    continue;
                }
                if kmax == 0 {
                    continue;
                }
                // prefix runs for the panic policy (values before gap g), streaming pipelines only
                let mut prefix_obs: Vec<Option<Obs>> = vec![None; n + 1];
                if policy == "panic" && pipe.streaming {
                    for g in 0..=n {
                        let pin = build(&vals[..g], sk, &[]);
                        prefix_obs[g] = Some(ctx.run(&Case::owned(args.clone(), pin)));
                    }
                }
                // k = 1
                for g in 0..=n {
                    for t in toks {
                        let input = build(&vals, sk, &[(g, t.clone())]);
                        let case = Case::owned(args.clone(), input.clone());
                        let got = ctx.run(&case);
                        ctx.case_done();
                        // the same bytes given as a FILE: the same rows and the same kind of result (diagnostics name the file)
                        if (g + sk + t.len() + n) % 8 == 0 {
                            let fcase = Case { args: args.clone(), input: crate::drive::Input::Files(vec![("noisy.json".to_string(), input.clone())]), rplan: Default::default(), wplan: Default::default() };
                            let fgot = ctx.run(&fcase);
                            ctx.guard("noisy-stream-from-a-file");
                            let rows_only = |b: &[u8]| -> Vec<u8> { b.split(|c| *c == b'\n').filter(|l| !l.starts_with(b"error:")).flat_map(|l| l.iter().copied().chain(std::iter::once(b'\n'))).collect() };
                            if fgot.res.is_ok() != got.res.is_ok() || fgot.res.is_panic() || rows_only(&fgot.stdout) != rows_only(&got.stdout) {
                                let tok: String = t.iter().map(|b| format!("{b:02x}")).collect();
                                ctx.violation("rows-differ-between-stdin-and-file", &format!("pipeline {} policy {policy} noise 0x{tok}", pipe.name), &[fcase.clone(), case.clone()], got.brief(), fgot.brief());
                            }
                        }
                        ctx.trace_validated();
                        ctx.transition(&(pipe.name, policy, n, g, t.len()));
                        if g < n {
                            ctx.nontrivial();
                            ctx.guard("noise-before-value");
                        }
                        if t.iter().any(|b| *b >= 0x80) {
                            ctx.guard("non-utf8-noise");
                        }
                        if policy == "panic" && pipe.streaming && g > 0 {
                            ctx.guard("panic-policy-prefix");
                        }
                        if policy == "stdout" && got.stdout.starts_with(b"error:") {
                            ctx.guard("error-line-on-stdout");
                        }
                        if policy == "stderr" && got.stderr.starts_with(b"error:") {
                            ctx.guard("error-line-on-stderr");
                        }
                        match oracle(policy, pipe, n, &[g], &clean, prefix_obs[g].as_ref(), &got) {
                            None => ctx.outcome(&format!("ok-{policy}")),
                            Some(fl) => {
                                ctx.outcome(&fl.clause);
                                let tok: String = t.iter().map(|b| format!("{b:02x}")).collect();
                                ctx.violation(
                                    &fl.clause,
                                    &format!("pipeline {} separator {} gap {}/{} noise 0x{}", pipe.name, SEPS[sk].0, g, n, tok),
                                    &[case.clone(), clean_case.clone()],
                                    fl.expected,
                                    fl.actual,
                                );
                            }
                        }
                        ctx.sample(|| serde_json::json!({"args": args, "input": String::from_utf8_lossy(&case_input(&case)), "stdout": got.out_str(), "stderr": got.err_str(), "result": got.res.short()}));
                    }
                }
                // k = 2 (two tokens, same or different gaps), 1-byte tokens
                if kmax >= 2 {
                    let one: Vec<&Vec<u8>> = toks.iter().filter(|t| t.len() == 1).collect();
                    for g1 in 0..=n {
                        for g2 in g1..=n {
                            for t1 in &one {
                                for t2 in &one {
                                    let input = build(&vals, sk, &[(g1, (*t1).clone()), (g2, (*t2).clone())]);
                                    let case = Case::owned(args.clone(), input);
                                    let got = ctx.run(&case);
                                    ctx.case_done();
                                    ctx.trace_validated();
                                    ctx.nontrivial();
                                    let gaps: Vec<usize> = if g1 == g2 { vec![g1] } else { vec![g1, g2] };
                                    if let Some(fl) = oracle(policy, pipe, n, &gaps, &clean, prefix_obs[g1].as_ref(), &got) {
                                        ctx.outcome(&fl.clause);
                                        ctx.violation(
                                            &fl.clause,
                                            &format!("pipeline {} separator {} gaps {g1},{g2}/{n} noise 0x{:02x} 0x{:02x}", pipe.name, SEPS[sk].0, t1[0], t2[0]),
                                            &[case.clone(), clean_case.clone()],
                                            fl.expected,
                                            fl.actual,
                                        );
                                    } else {
                                        ctx.outcome(&format!("ok-{policy}"));
                                    }
                                }
                            }
                        }
                    }
                }
            }
        }
    }
}

fn case_input(c: &Case) -> Vec<u8> {
    match &c.input {
        crate::drive::Input::Stdin(b) => b.clone(),
        _ => vec![],
    }
}

/// many noisy gaps on ONE physical line (and on separate lines): every region still gets its report
fn many_regions(ctx: &mut Ctx) {
    for n in [10usize, 33, 64, 65, 66, 130, 300] {
        for sk in [0usize, 1] {
            if !ctx.mine() {
                continue;
            }
            let vals: Vec<&str> = (0..n).map(|i| CORE[i % CORE.len()]).collect();
            let noise: Vec<(usize, Vec<u8>)> = (0..=n).map(|g| (g, vec![NOISE[g % 10], NOISE[(g / 10) % 10]])).collect();
            let clean_in = build(&vals, sk, &[]);
            let input = build(&vals, sk, &noise);
            let gaps: Vec<usize> = (0..=n).collect();
            for pipe in [&PIPES[0], &PIPES[1], &PIPES[3]] {
                for policy in POLICIES {
                    let args = args_for(policy, pipe);
                    let clean_case = Case::owned(args.clone(), clean_in.clone());
                    let clean = ctx.run(&clean_case);
                    let prefix = ctx.run(&Case::owned(args.clone(), Vec::new()));
                    let case = Case::owned(args.clone(), input.clone());
                    let got = ctx.run(&case);
                    ctx.case_done();
                    ctx.trace_validated();
                    ctx.nontrivial();
                    ctx.guard("many-noisy-regions-on-one-line");
                    if let Some(fl) = oracle(policy, pipe, n, &gaps, &clean, Some(&prefix), &got) {
                        ctx.outcome(&fl.clause);
                        ctx.violation(&fl.clause, &format!("pipeline {} separator {} {} noisy gaps in one stream", pipe.name, SEPS[sk].0, n + 1), &[case.clone(), clean_case.clone()], crate::drive::trunc(&fl.expected, 200), crate::drive::trunc(&fl.actual, 300));
                    } else {
                        ctx.outcome(&format!("ok-{policy}"));
                    }
                }
            }
        }
    }
    ctx.level_done("many-noisy-regions(10..301)-on-one-line-and-on-separate-lines");
}

fn run(ctx: &mut Ctx) {
    many_regions(ctx);
    let t2 = tokens(true, false);
    let t2w = tokens(true, true);
    let t1 = tokens(false, false);
    let (full_len, short_len, kmax) = match ctx.tier {
        Tier::Quick => (2usize, 3usize, 1usize),
        Tier::Thorough => (3, 4, 2),
    };
    for len in 0..=short_len {
        let mut todo: Vec<Vec<usize>> = Vec::new();
        crate::explore::seqs_exact(CORE.len(), len, |i| todo.push(i.to_vec()));
        for idx in todo {
            if !ctx.mine() {
                continue;
            }
            if len + 1 <= full_len {
                // the long list of lookalike words with the shortest streams only
                explore_stream(ctx, &idx, &t2w, kmax);
            } else if len <= full_len {
                explore_stream(ctx, &idx, &t2, kmax);
            } else {
                explore_stream(ctx, &idx, &t1, 1);
            }
            if ctx.time_up() {
                ctx.cap(&format!("streams of length {len}"));
                return;
            }
        }
        ctx.level_done(&format!("streams-of-{len}-values"));
    }
}
