//! C18 — invalid configurations are rejected before any input is read or output written.

use super::{Prop, COMMON_ASSUMPTIONS};
use crate::ctx::{Ctx, Tier};
use crate::drive::Case;
use crate::refmodel::ftable;

pub fn prop() -> Prop {
    Prop {
        id: "C18",
        level: "model_checking",
        rule: "(8 base expressions and 3 big ones: nesting depth 33, a 300-character literal, 130 arguments) paths ending in a separator (.a. / .a.b# / (len .a.)) in every position; every foreign output option next to every option of the style's own group; every corrupted configuration alone and next to each of 8 valid neighbour options (--take 0/1, --skip, --unique, --merge, --only-objects-and-arrays, a regex cache, --on-error=panic), and - for the repeatable --select and --sort-by - after a valid occurrence of the same option with the uncorrupted expression (directly, and with another occurrence in between); valid configurations = 7 option positions (--select, --filter, --split-by, --group-by, --sort-by, --set variable, --set macro) x 8 base expressions x 6 output styles (+ every pure function with a canonical argument list in every position, json style); corruptions (one fault each): truncation at EVERY byte offset that lies inside parentheses or a string, one '(' or ')' too many, unknown function name, arity min-1 / max+1 for every function (in the function form and in the dotted form, where the input counts as an argument), trailing garbage of 4 kinds, bad sort directions, malformed --set (no '=', empty name, empty macro name, duplicate, empty value), output options of another style, csv without selections / with grouping / with merge, --headers without selections, invalid enum and numeric option values; non-trivial = the uncorrupted configuration runs Ok and prints >= 1 byte; distinct by construction; every arrangement of <=4 --set options over {a=1, a=2, @a=1, @a=.x, b=1} that binds the same variable or the same macro twice; references /K/ and /Full name/ to a selected name cut anywhere before their closing slash (bare, inside a call, last argument, pipe stage) in 8 option positions; unparsable expressions given as a separate word behind every long, second long and short name of the five expression options, with the input in files named before or after the option, under three --on-error policies",
        explanation: "each corrupted configuration is executed on a non-empty input; oracle: Err (or clap usage error), zero bytes on stdout, the stdin factory is never invoked",
        assumptions: COMMON_ASSUMPTIONS.to_vec(),
        guards: vec!["after-a-valid-occurrence-of-the-same-option", "trailing-blank-that-is-not-white-space", "bad-expression-as-a-separate-word-after-file-names", "truncated-selected-name-reference", "duplicate-set-with-another-binding-in-between", "dangling-path-separator", "with-a-neighbour-option", "truncation", "arity", "trailing-garbage", "set-malformed", "style-mismatch", "csv-without-selection", "valid-config-prints"],
        budget_s: (100, 900),
        single_worker: false,
        run,
        recheck: Some(recheck),
    }
}

const INPUT: &[u8] = b"{\"a\":[1],\"k\":\"x y\",\"s\":\"str\",\"n\":2,\"arr\":[1,2]}\n{\"a\":[],\"k\":\"z\",\"s\":\"t\",\"n\":0,\"arr\":[]}\n";

const BASES: [&str; 8] = [
    "(len .a)",
    "(= .k \"x y\")",
    "(concat \"a(b\" .s)",
    "(? (> .n 1) \"big\" .s)",
    "(map .arr (+ . 1))",
    "(| .a (len .))",
    "(stringify (put {} \"k\" [1, 2]))",
    "(.len)",
];

const STYLES: [(&str, &[&str], bool); 6] = [
    ("json", &[], false),
    ("json-pretty", &["--style=pretty", "--utf8-strings"], false),
    ("text", &["--output-style=text"], false),
    ("text-headers", &["--output-style=text", "--headers", "--items-seperator=;"], true),
    ("csv", &["--output-style=csv"], true),
    ("text-keywords", &["--output-style=text", "--null-keyword=NIL", "--missing-value-keyword=-"], false),
];

const POSITIONS: [&str; 7] = ["select", "filter", "split", "group", "sort", "setvar", "setmacro"];

fn with_expr(pos: &str, e: &str, style: usize) -> Vec<String> {
    let (_, sargs, needs_sel) = STYLES[style];
    let mut a: Vec<String> = sargs.iter().map(|s| s.to_string()).collect();
    let csvlike = needs_sel;
    match pos {
        "select" => a.push(format!("--select={e}=col")),
        "filter" => a.push(format!("--filter={e}")),
        "split" => a.push(format!("--split-by={e}")),
        "group" => {
            if csvlike {
                // grouping is not valid with csv / headers: use the expression as a second selection instead
                a.push(format!("--select={e}"));
            } else {
                a.push(format!("--group-by={e}"));
            }
        }
        "sort" => a.push(format!("--sort-by={e}")),
        "setvar" => {
            a.push(format!("--set=v={}", e.replace(".arr", "[1,2]").replace(".a", "[1]").replace(".k", "\"x y\"").replace(".s", "\"s\"").replace(".n", "2").replace("(.len)", "(len [1])")));
            a.push("--select=:v=var".into());
        }
        "setmacro" => {
            a.push(format!("--set=@m={e}"));
            a.push("--select=@m=mac".into());
        }
        _ => unreachable!(),
    }
    if csvlike && !a.iter().any(|x| x.starts_with("--select=")) {
        a.push("--select=.k=K".into());
    }
    a
}

/// the 8 base expressions plus three big ones (depth 33, a 300-character literal, 130 arguments)
fn all_bases() -> Vec<&'static str> {
    let mut v: Vec<&'static str> = BASES.to_vec();
    let mut deep = ".n".to_string();
    for _ in 0..33 {
        deep = format!("(+ 1 {deep})");
    }
    v.push(Box::leak(deep.into_boxed_str()));
    v.push(Box::leak(format!("(concat \"{}\" .s)", "q".repeat(300)).into_boxed_str()));
    v.push(Box::leak(format!("(+ {} .n)", (1..=130).map(|i| i.to_string()).collect::<Vec<_>>().join(" ")).into_boxed_str()));
    v
}

/// byte offsets at which cutting the expression leaves it inside parentheses or inside a string
/// (for a long expression: the first and last 24 such offsets and those around 32, 64, 128, 256)
fn bad_cuts(e: &str) -> Vec<usize> {
    let all = bad_cuts_all(e);
    if e.len() <= 80 {
        return all;
    }
    let n = e.len();
    all.into_iter().filter(|c| *c < 24 || *c + 24 >= n || [31usize, 32, 33, 63, 64, 65, 127, 128, 129, 255, 256, 257].contains(c)).collect()
}

fn bad_cuts_all(e: &str) -> Vec<usize> {
    let b = e.as_bytes();
    let mut cuts = Vec::new();
    let mut depth = 0i32;
    let mut in_str = false;
    let mut esc = false;
    for i in 0..b.len() {
        // state BEFORE byte i = state after cutting at i (keeping b[..i])
        if i > 0 && (depth > 0 || in_str) && e.is_char_boundary(i) {
            cuts.push(i);
        }
        let c = b[i];
        if in_str {
            if esc {
                esc = false;
            } else if c == b'\\' {
                esc = true;
            } else if c == b'"' {
                in_str = false;
            }
        } else if c == b'"' {
            in_str = true;
        } else if c == b'(' {
            depth += 1;
        } else if c == b')' {
            depth -= 1;
        }
    }
    cuts
}

/// an invalid configuration stays invalid whatever valid options stand next to it: every case is also run
/// with each of these neighbours (validation that is skipped or reordered because of another option shows here)
const NEIGHBOURS: [&str; 10] = ["--take=0", "--take=1", "--skip=1", "--unique", "--merge", "--only-objects-and-arrays", "--regular-expression-cache-size=1", "--on-error=panic", "--on-error=stdout", "--on-error=stderr"];

thread_local! {
    /// (option prefix, a valid occurrence of that option with the uncorrupted expression) while the corruptions of a
    /// repeatable option are being tried
    static TWIN: std::cell::RefCell<Option<(&'static str, String)>> = const { std::cell::RefCell::new(None) };
}

fn judge(ctx: &mut Ctx, kind: &str, detail: &str, args: Vec<String>, nontrivial: bool) {
    judge_one(ctx, kind, detail, args.clone(), nontrivial);
    // a repeatable option: the faulty occurrence stays faulty when a valid occurrence with the same expression was given
    // before it (directly, or with another occurrence in between) - what was "seen already" must still be validated
    if let Some((prefix, valid)) = TWIN.with(|t| t.borrow().clone()) {
        if let Some(i) = args.iter().position(|a| a.starts_with(prefix)) {
            if args[i] != valid {
                let other = if prefix == "--sort-by=" { "--sort-by=.zz=DESC" } else { "--select=.zz=other" };
                for between in [false, true] {
                    let mut a = args.clone();
                    if between {
                        a.insert(i, other.to_string());
                    }
                    a.insert(i, valid.clone());
                    ctx.guard("after-a-valid-occurrence-of-the-same-option");
                    judge_one(ctx, &format!("{kind} after a valid occurrence of the same option"), detail, a, nontrivial);
                }
            }
        }
    }
    for n in NEIGHBOURS {
        let name = n.split('=').next().unwrap_or("");
        if args.iter().any(|a| a.starts_with(name)) || (n == "--merge" && args.iter().any(|a| a.starts_with("--group-by"))) {
            continue;
        }
        let mut a = args.clone();
        a.push(n.to_string());
        ctx.guard("with-a-neighbour-option");
        judge_one(ctx, &format!("{kind} next to {n}"), detail, a, nontrivial);
    }
}

fn judge_one(ctx: &mut Ctx, kind: &str, detail: &str, args: Vec<String>, nontrivial: bool) {
    let case = Case::owned(args, INPUT.to_vec());
    let o = ctx.run(&case);
    ctx.case_done();
    ctx.trace_validated();
    if nontrivial {
        ctx.nontrivial();
    }
    ctx.state(&(kind, o.res.is_err()));
    ctx.transition(&(kind, detail.len() % 7, o.res.is_err()));
    let sig = format!("{kind}: {detail}");
    if o.res.is_panic() {
        ctx.outcome("panic");
        ctx.violation("panic", &sig, &[case.clone()], "an error".into(), o.brief());
    } else if !o.res.is_err() {
        ctx.outcome("accepted");
        ctx.violation("invalid-configuration-accepted", &sig, &[case.clone()], "Err before anything is read or written".into(), o.brief());
    } else if !o.stdout.is_empty() {
        ctx.outcome("output-before-error");
        ctx.violation("output-written-before-rejection", &sig, &[case.clone()], "zero bytes on stdout".into(), o.brief());
    } else if o.factory_calls != 0 || o.bytes_pulled != 0 {
        ctx.outcome("input-read-before-error");
        ctx.violation("input-read-before-rejection", &sig, &[case.clone()], "stdin untouched".into(), o.brief());
    } else {
        ctx.outcome("rejected-early");
    }
    ctx.sample(|| serde_json::json!({"kind": kind, "args": case.args, "result": o.res.short(), "stdout_bytes": o.stdout.len(), "stdin_opened": o.factory_calls}));
}

fn recheck(cases: &[Case], _clause: &str) -> bool {
    cases.iter().any(|c| {
        let o = crate::drive::run(c);
        !o.res.is_err() || !o.stdout.is_empty() || o.factory_calls != 0
    })
}

fn canonical_args(f: &ftable::F) -> Vec<&'static str> {
    // a well-formed argument list of minimal arity (types need not fit: only the syntax matters here)
    let n = f.min.max(1).min(3);
    ["[1, 2]", "\"a\"", "1"][..n].to_vec()
}

fn run(ctx: &mut Ctx) {
    // 1. expression corruptions in every position and style
    for (pi, pos) in POSITIONS.iter().enumerate() {
        let mut bases: Vec<&'static str> = all_bases();
        let own = bases.len();
        if ctx.tier == Tier::Thorough {
            // thorough: the documented example call of every function is a base expression too
            for (_, text, _) in super::c04::canonical_calls() {
                if text.len() <= 120 && !text.contains('\n') {
                    bases.push(Box::leak(text.into_boxed_str()));
                }
            }
        }
        for (bi, base) in bases.iter().enumerate() {
            if bi >= own && *pos == "setvar" {
                continue; // a variable needs a value on the empty input; the examples are about other things
            }
            for style in 0..STYLES.len() {
                if !ctx.mine() {
                    continue;
                }
                let valid = with_expr(pos, base, style);
                TWIN.with(|t| {
                    *t.borrow_mut() = match *pos {
                        "sort" => Some(("--sort-by=", format!("--sort-by={base}"))),
                        "select" => Some(("--select=", format!("--select={base}=col"))),
                        _ => None,
                    }
                });
                let vo = ctx.run(&Case::owned(valid.clone(), INPUT.to_vec()));
                ctx.case_done();
                if !vo.res.is_ok() {
                    ctx.machinery_error(format!("base configuration is not valid: {valid:?}: {}", vo.res.short()));
                    continue;
                }
                let nt = !vo.stdout.is_empty();
                if nt {
                    ctx.guard("valid-config-prints");
                }
                let _ = (pi, bi);
                let where_ = format!("{pos}/{}", STYLES[style].0);
                // truncations
                for cut in bad_cuts(base) {
                    ctx.guard("truncation");
                    let e = &base[..cut];
                    judge(ctx, "truncation", &format!("{where_} {e:?}"), with_expr(pos, e, style), nt);
                }
                // one parenthesis too many
                judge(ctx, "extra-open-paren", &format!("{where_} ({base}"), with_expr(pos, &format!("({base}"), style), nt);
                if *pos == "select" {
                    // `<expr>)=col`
                    let mut a = with_expr(pos, base, style);
                    for x in a.iter_mut() {
                        if x.ends_with("=col") {
                            *x = format!("--select={base})=col");
                        }
                    }
                    judge(ctx, "extra-close-paren", &format!("{where_} {base})"), a, nt);
                } else {
                    judge(ctx, "extra-close-paren", &format!("{where_} {base})"), with_expr(pos, &format!("{base})"), style), nt);
                }
                // unknown function
                let unk = base.replacen("(len", "(nosuchfn", 1).replacen("(=", "(nosuchfn", 1).replacen("(concat", "(nosuchfn", 1).replacen("(?", "(nosuchfn", 1).replacen("(map", "(nosuchfn", 1).replacen("(|", "(nosuchfn", 1).replacen("(stringify", "(nosuchfn", 1).replacen("(.len", "(.nosuchfn", 1);
                if unk != *base {
                    judge(ctx, "unknown-function", &format!("{where_} {unk}"), with_expr(pos, &unk, style), nt);
                }
                // trailing garbage after a complete expression
                for g in [" garbage", " 1", " )", " (len .a)", "\u{0b}", "\u{0c}", "\u{a0}", "\u{2028}", "\u{85}", "\u{3000}", " \u{a0}", "=junk", " =x", "=))", "=DESC"] {
                    // what follows `=` is a name in --select, a direction in --sort-by and a value in --set; elsewhere garbage
                    if g.trim_start().starts_with('=') && (["select", "sort", "setvar", "setmacro"].contains(pos) || (*pos == "group" && STYLES[style].2)) {
                        continue;
                    }
                    // blanks that are not the grammar's white space (space, tab, LF, CR) are garbage like any other byte;
                    // --sort-by and --set strip them with the rest of the surrounding white space, so they are tried elsewhere
                    if !g.is_ascii() || g == "\u{0b}" || g == "\u{0c}" {
                        if ["sort", "setvar", "setmacro"].contains(pos) {
                            continue;
                        }
                        ctx.guard("trailing-blank-that-is-not-white-space");
                    }
                    ctx.guard("trailing-garbage");
                    if *pos == "select" {
                        let mut a = with_expr(pos, base, style);
                        for x in a.iter_mut() {
                            if x.ends_with("=col") {
                                *x = format!("--select={base}{g}");
                            }
                        }
                        judge(ctx, "trailing-garbage", &format!("{where_} {base}{g}"), a, nt);
                    } else {
                        judge(ctx, "trailing-garbage", &format!("{where_} {base}{g}"), with_expr(pos, &format!("{base}{g}"), style), nt);
                    }
                }
                if *pos == "sort" {
                    for d in ["=UP", "=ascending", " DESCENDING", "=DESC ASC", "=1"] {
                        judge(ctx, "bad-sort-direction", &format!("{where_} {d}"), with_expr(pos, &format!("{base}{d}"), style), nt);
                    }
                }
            }
        }
    }
    TWIN.with(|t| *t.borrow_mut() = None);
    ctx.level_done("expression-corruptions-in-every-position-and-style");

    // 2. arity and unknown-name for every function, in every position (json style)
    for f in ftable::FUNCTIONS {
        if ftable::EXCLUDED.contains(&f.name) && f.name != "now" {
            // exec/trigger are only parsed here, never evaluated: an invalid arity must still be rejected
        }
        for pos in POSITIONS {
            if !ctx.mine() {
                continue;
            }
            let mut names = vec![f.name];
            names.extend(f.aliases.iter());
            for name in names {
                ctx.guard("arity");
                if f.min >= 1 {
                    let args: Vec<&str> = canonical_args(f)[..(f.min - 1).min(3)].to_vec();
                    let e = format!("({} {})", name, args.join(" "));
                    if f.min - 1 <= 3 {
                        judge(ctx, "arity-too-few", &format!("{pos} {e}"), with_expr(pos, &e, 0), true);
                    }
                }
                if f.max < 99 {
                    let args: Vec<&str> = std::iter::repeat("1").take(f.max + 1).collect();
                    let e = format!("({} {})", name, args.join(" "));
                    judge(ctx, "arity-too-many", &format!("{pos} {e}"), with_expr(pos, &e, 0), true);
                    // the dotted form `(.f a b)` stands for `(f . a b)`: the input counts as the first argument, so
                    // max arguments written are one too many - and min-1 written are exactly enough, not too few
                    let args: Vec<&str> = std::iter::repeat("1").take(f.max).collect();
                    let e = if args.is_empty() { format!("(.{name})") } else { format!("(.{} {})", name, args.join(" ")) };
                    judge(ctx, "arity-too-many", &format!("{pos} {e} (dotted form)"), with_expr(pos, &e, 0), true);
                }
                if f.min >= 2 && f.min - 2 <= 3 {
                    let args: Vec<&str> = canonical_args(f)[1..][..(f.min - 2).min(3)].to_vec();
                    let e = if args.is_empty() { format!("(.{name})") } else { format!("(.{} {})", name, args.join(" ")) };
                    judge(ctx, "arity-too-few", &format!("{pos} {e} (dotted form)"), with_expr(pos, &e, 0), true);
                }
                let e = format!("({}x 1)", name);
                if ftable::FUNCTIONS.iter().all(|g| g.name != &e[1..e.len() - 3] && !g.aliases.contains(&&e[1..e.len() - 3])) {
                    judge(ctx, "unknown-function", &format!("{pos} {e}"), with_expr(pos, &e, 0), true);
                }
            }
        }
    }
    ctx.level_done("arity-of-every-function-and-alias");

    // 3. malformed --set, style mismatches, csv constraints, option values
    if ctx.mine() {
        let sets: Vec<(&str, Vec<&str>)> = vec![
            ("no-equals", vec!["--set=novalue"]),
            ("no-equals-macro", vec!["--set=@m"]),
            ("empty-name", vec!["--set==1"]),
            ("blank-name", vec!["--set=  =1"]),
            ("empty-macro-name", vec!["--set=@=1"]),
            ("duplicate-variable", vec!["--set=a=1", "--set=a=2"]),
            ("duplicate-variable-spaces", vec!["--set=a=1", "--set= a =2"]),
            ("duplicate-macro", vec!["--set=@m=1", "--set=@m=.x"]),
            ("empty-value", vec!["--set=a="]),
            ("value-is-nothing", vec!["--set=a=.x"]),
            ("value-unparsable", vec!["--set=a=(len"]),
            ("macro-unparsable", vec!["--set=@m=(len"]),
            ("value-trailing", vec!["--set=a=1 2"]),
            ("macro-trailing", vec!["--set=@m=(len .a) x"]),
            ("macro-trailing-paren", vec!["--set=@m=(len .a))"]),
            ("macro-unknown-function", vec!["--set=@m=(nosuch 1)"]),
        ];
        for (name, s) in &sets {
            for style in 0..STYLES.len() {
                ctx.guard("set-malformed");
                let (_, sargs, needs_sel) = STYLES[style];
                let mut a: Vec<String> = sargs.iter().map(|x| x.to_string()).collect();
                if needs_sel {
                    a.push("--select=.k=K".into());
                }
                // the malformed --set before and after the other options
                let mut a1: Vec<String> = s.iter().map(|x| x.to_string()).collect();
                a1.extend(a.clone());
                judge(ctx, "set-malformed", &format!("{name} first, {}", STYLES[style].0), a1, true);
                let mut a2 = a.clone();
                a2.extend(s.iter().map(|x| x.to_string()));
                judge(ctx, "set-malformed", &format!("{name} last, {}", STYLES[style].0), a2, true);
            }
        }
        // the same variable or the same macro given twice, in every arrangement of <=4 --set options (a variable and a
        // macro may share a name; whatever stands between the two duplicates, the configuration is invalid)
        {
            let items = ["a=1", "a=2", "@a=1", "@a=.x", "b=1"];
            let kind = |i: usize| ["var a", "var a", "mac a", "mac a", "var b"][i];
            let mut seqs: Vec<Vec<usize>> = Vec::new();
            crate::explore::seqs_upto(items.len(), 4, |s| seqs.push(s.to_vec()));
            for s in seqs {
                let dup = (0..s.len()).any(|i| (0..i).any(|j| kind(s[i]) == kind(s[j])));
                if !dup || s.len() < 2 {
                    continue;
                }
                if s.len() >= 3 && (1..s.len() - 1).any(|m| (0..m).any(|i| (m + 1..s.len()).any(|j| kind(s[i]) == kind(s[j]) && kind(s[m]) != kind(s[i])))) {
                    ctx.guard("duplicate-set-with-another-binding-in-between");
                }
                for style in [0usize, 4] {
                    let (_, sargs, needs_sel) = STYLES[style];
                    let mut a: Vec<String> = sargs.iter().map(|x| x.to_string()).collect();
                    if needs_sel {
                        a.push("--select=.k=K".into());
                    }
                    a.extend(s.iter().map(|i| format!("--set={}", items[*i])));
                    judge(ctx, "set-malformed", &format!("duplicate in {:?}, {}", s.iter().map(|i| items[*i]).collect::<Vec<_>>(), STYLES[style].0), a, true);
                }
            }
        }
        // a reference to a selected name that lost its closing slash, as the last token of the option and inside a call
        {
            let refs: [(&str, &str); 2] = [("K", ".k"), ("Full name", ".s")];
            for (name, src) in refs {
                let whole = format!("/{name}/");
                let hosts: Vec<(&str, String)> = vec![("bare", whole.clone()), ("in-call", format!("(concat {whole} \"x\")")), ("after-call-argument", format!("(concat \"x\" {whole})")), ("in-pipe", format!("(| {whole} (len .))"))];
                for (hname, host) in hosts {
                    let start = host.find('/').unwrap();
                    let end = start + whole.len();
                    for pos in ["select", "select-named", "sort", "sort-desc", "group", "filter", "split", "setmacro"] {
                        let build = |e: &str| -> Vec<String> {
                            let mut a = vec![format!("--select={src}={name}")];
                            match pos {
                                "select" => a.push(format!("--select={e}")),
                                "select-named" => a.push(format!("--select={e}=col")),
                                "sort" => a.push(format!("--sort-by={e}")),
                                "sort-desc" => a.push(format!("--sort-by={e}=DESC")),
                                "group" => a.push(format!("--group-by={e}")),
                                "filter" => a.push(format!("--filter={e}")),
                                "split" => a.push(format!("--split-by={e}")),
                                _ => {
                                    a.push(format!("--set=@m={e}"));
                                    a.push("--select=@m=mac".into());
                                }
                            }
                            a
                        };
                        let vo = ctx.run(&Case::owned(build(&host), INPUT.to_vec()));
                        ctx.case_done();
                        if !vo.res.is_ok() {
                            ctx.machinery_error(format!("base configuration is not valid: {:?}: {}", build(&host), vo.res.short()));
                            continue;
                        }
                        ctx.guard("truncated-selected-name-reference");
                        // cut inside the reference: at least the opening slash is kept, the closing one is lost
                        for cut in start + 1..end {
                            if !host.is_char_boundary(cut) {
                                continue;
                            }
                            // `select-named`/`sort-desc` keep their suffix: the reference then swallows it and never ends
                            let e = if hname == "bare" { host[..cut].to_string() } else { format!("{}{}", &host[..cut], &host[end..]) };
                            // inside a call the rest of the text may supply a later slash only if it contains one
                            if e[start + 1..].contains('/') {
                                continue;
                            }
                            judge(ctx, "truncation", &format!("{pos}/{hname} {e:?}"), build(&e), true);
                        }
                    }
                }
            }
        }
        // an unparsable expression given as a separate word (long name, second long name, short option), with the input
        // in FILES that are named before the option: still nothing may be read or written
        {
            let d = crate::drive::work_dir();
            let f1 = d.join("in1.json");
            let f2 = d.join("in2.json");
            std::fs::write(&f1, INPUT).unwrap();
            std::fs::write(&f2, b"{\"a\":[2]} oops\n").unwrap();
            let spellings: [(&str, &[&str]); 5] = [
                ("group", &["--group-by", "--combine", "--merge", "-g"]),
                ("sort", &["--sort-by", "--order-by", "-s"]),
                ("filter", &["--filter", "--where", "-f"]),
                ("select", &["--select", "--choose", "-c"]),
                ("split", &["--split-by", "--break-by", "-b"]),
            ];
            for (pos, opts) in spellings {
                for opt in opts {
                    for bad in ["(len", "(len .a))", "(nosuchfn 1)", "\"abc", "(len .a) x", ".a."] {
                        for policy in ["ignore", "stdout", "stderr"] {
                            for files_first in [true, false] {
                                let mut a: Vec<String> = Vec::new();
                                let files = [f1.to_string_lossy().into_owned(), f2.to_string_lossy().into_owned()];
                                if files_first {
                                    a.extend(files.iter().cloned());
                                }
                                a.push(format!("--on-error={policy}"));
                                a.push(opt.to_string());
                                a.push(bad.to_string());
                                if !files_first {
                                    a.push("--unique".into());
                                    a.extend(files.iter().cloned());
                                }
                                ctx.guard("bad-expression-as-a-separate-word-after-file-names");
                                judge_one(ctx, "separate-word", &format!("{pos} {opt} {bad:?} policy {policy} files-first {files_first}"), a, true);
                            }
                        }
                    }
                }
            }
            let _ = std::fs::remove_file(&f1);
            let _ = std::fs::remove_file(&f2);
        }
        let mismatches: Vec<(&str, Vec<&str>)> = vec![
            ("csv+style", vec!["--output-style=csv", "--select=.k=K", "--style=pretty"]),
            ("csv+utf8", vec!["--output-style=csv", "--select=.k=K", "--utf8-strings"]),
            ("csv+headers", vec!["--output-style=csv", "--select=.k=K", "--headers"]),
            ("csv+items-seperator", vec!["--output-style=csv", "--select=.k=K", "--items-seperator=;"]),
            ("csv+null-keyword", vec!["--output-style=csv", "--select=.k=K", "--null-keyword=x"]),
            ("csv+missing-value-keyword", vec!["--output-style=csv", "--select=.k=K", "--missing-value-keyword=x"]),
            ("csv+escape", vec!["--output-style=csv", "--select=.k=K", "--escape-sequance=ab"]),
            ("text+style", vec!["--output-style=text", "--style=consise"]),
            ("text+utf8", vec!["--output-style=text", "--utf8-strings"]),
            ("json+headers", vec!["--headers", "--select=.k=K"]),
            ("json+items-seperator", vec!["--items-seperator=;"]),
            ("json+string-prefix", vec!["--string-prefix=<"]),
            ("json+string-postfix", vec!["--string-postfix=>"]),
            ("json+null-keyword", vec!["--null-keyword=x"]),
            ("json+true-keyword", vec!["--true-keyword=x"]),
            ("json+false-keyword", vec!["--false-keyword=x"]),
            ("json+missing-value-keyword", vec!["--missing-value-keyword=x"]),
            ("json+escape", vec!["--escape-sequance=ab"]),
            ("json-explicit+headers", vec!["--output-style=json", "--headers"]),
        ];
        for (name, a) in &mismatches {
            ctx.guard("style-mismatch");
            for extra in [vec![], vec!["--filter=true"], vec!["--sort-by=.n"], vec!["--unique"]] {
                let mut x: Vec<String> = a.iter().map(|s| s.to_string()).collect();
                x.extend(extra.iter().map(|s: &&str| s.to_string()));
                judge(ctx, "style-mismatch", name, x, true);
            }
        }
        // a path that ends in a separator (cut exactly after `.` or `#`), bare and inside a call, in every position
        for e in [".a.", ".a#", ".a.b.", ".arr#0.", ".a.b#", "^.a.", "(len .a.)", "(len .arr#)", "(object? .a.b.)", "(+ .n. 1)", "(map .arr (+ .x. 1))", ".a..b", ".#.", ".a#x"] {
            for pos in POSITIONS {
                if pos == "setvar" {
                    continue;
                }
                for style in [0usize, STYLES.len() - 2] {
                    ctx.guard("dangling-path-separator");
                    judge(ctx, "dangling-path-separator", &format!("{pos} {e:?}"), with_expr(pos, e, style), true);
                }
            }
        }
        // a foreign option stays foreign whatever option of the style's own group stands next to it
        let jopts = ["--style=pretty", "--style=consise", "--utf8-strings"];
        let topts = ["--headers", "--items-seperator=;", "--string-prefix=<", "--string-postfix=>", "--null-keyword=x", "--true-keyword=x", "--false-keyword=x", "--missing-value-keyword=x", "--escape-sequance=ab"];
        for j in jopts {
            for t in std::iter::once("").chain(topts.iter().copied()) {
                let mut x: Vec<String> = vec!["--output-style=text".into(), "--select=.k=K".into(), j.to_string()];
                if !t.is_empty() {
                    x.push(t.to_string());
                }
                ctx.guard("style-mismatch");
                judge(ctx, "style-mismatch", &format!("text + {j} + {t}"), x.clone(), true);
                x.reverse();
                judge(ctx, "style-mismatch", &format!("reversed: text + {j} + {t}"), x, true);
                let mut y: Vec<String> = vec!["--output-style=csv".into(), "--select=.k=K".into(), j.to_string()];
                if !t.is_empty() {
                    y.push(t.to_string());
                }
                judge(ctx, "style-mismatch", &format!("csv + {j} + {t}"), y, true);
            }
        }
        for t in topts {
            for j in std::iter::once("").chain(jopts.iter().copied()) {
                for style in ["", "--output-style=json"] {
                    let mut x: Vec<String> = vec!["--select=.k=K".into(), t.to_string()];
                    if !j.is_empty() {
                        x.push(j.to_string());
                    }
                    if !style.is_empty() {
                        x.push(style.to_string());
                    }
                    judge(ctx, "style-mismatch", &format!("json + {t} + {j}"), x, true);
                }
            }
        }
        let csvs: Vec<(&str, Vec<&str>)> = vec![
            ("csv-without-selection", vec!["--output-style=csv"]),
            ("csv-without-selection+filter", vec!["--output-style=csv", "--filter=true"]),
            ("csv-with-group-by", vec!["--output-style=csv", "--select=.k=K", "--group-by=.k"]),
            ("csv-with-merge", vec!["--output-style=csv", "--select=.k=K", "--merge"]),
            ("csv-with-group-by-no-selection", vec!["--output-style=csv", "--group-by=.k"]),
            ("text-headers-without-selection", vec!["--output-style=text", "--headers"]),
            ("text-headers-with-group-by", vec!["--output-style=text", "--headers", "--select=.k=K", "--group-by=.k"]),
            ("text-headers-with-merge", vec!["--output-style=text", "--headers", "--select=.k=K", "--merge"]),
        ];
        for (name, a) in &csvs {
            ctx.guard("csv-without-selection");
            for extra in [vec![], vec!["--sort-by=.n"], vec!["--take=1"], vec!["--set=a=1"], vec!["--split-by=.arr"]] {
                let mut x: Vec<String> = a.iter().map(|s| s.to_string()).collect();
                x.extend(extra.iter().map(|s: &&str| s.to_string()));
                judge(ctx, "csv-constraint", &format!("{name} {extra:?}"), x, true);
            }
        }
        for a in [
            vec!["--output-style=xml"],
            vec!["--style=compact"],
            vec!["--on-error=abort"],
            vec!["--take=-1"],
            vec!["--take=x"],
            vec!["--skip=-1"],
            vec!["--skip=1.5"],
            vec!["--regular-expression-cache-size=-1"],
            vec!["--no-such-option"],
            vec!["--filter=true", "--filter=false"],
            vec!["--split-by=.a", "--split-by=.b"],
        ] {
            judge(ctx, "bad-option-value", &format!("{a:?}"), a.iter().map(|s| s.to_string()).collect(), true);
        }
    }
    ctx.level_done("set/style/csv/option-value-faults");
}
