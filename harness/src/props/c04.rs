//! C04 — expressions evaluate to what the function documentation prescribes.

use super::{Prop, COMMON_ASSUMPTIONS};
use crate::ctx::{Ctx, Tier};
use crate::drive::Case;
use crate::refmodel::eval::{self, Env};
use crate::refmodel::expr::{self, p, E};
use crate::refmodel::ftable;
use crate::refmodel::json::{self, V};
use crate::refmodel::selfcheck::{self, DOCS};

pub fn prop() -> Prop {
    Prop {
        id: "C04",
        level: "model_checking",
        rule: "depth 1: every one of the 108 pure functions on every argument tuple within its arity (variadic: 2 and 3 arguments) over 45 atoms of all types (absent; keys that are prefixes of one another and the empty key; empty collections inside collections; strings spelled like literals; 0 1 2 3 4 -1 1.5 -0.5 2^53 -2^63 2^64-1; empty, ASCII, non-ASCII, numeric-looking and JSON-looking strings; empty, singleton, sorted/unsorted, nested and mixed lists; empty and 1..3-member objects) plus per-function atoms (patterns, formats, instants, base64, environment names, decimal strings) and, for functional arguments, 12 bodies; the same atoms arriving as the input, a member, an element, a variable, a macro and a selected name; depth 2: every function with one argument replaced by every function applied to its documented well-typed arguments; depth 3..5: every nesting of <=3 (thorough <=4) context constructors (map, filter, flat_map, fold, sort_by, map_values, group_by, pipe, set, define over 6 sources) around 8 leaves reading ., ^, ^^, :x, @m; size thresholds: 45..65 string, list and object functions on strings (multi-byte character at either end), lists and objects of 15..1025 characters / items with counts around the size; the documented example call of every function with each literal argument in turn read from a member that changes from record to record and from element to element (A B A A / B A B B), against the same record alone; non-trivial = the reference result is a value; distinct by construction",
        explanation: "each expression is one --select run on a one-value input; the value of the selection (or its absence) is compared with the reference evaluator written from the function documentation (self-checked against every documented example before the run); cases the documentation leaves open are executed but not compared",
        assumptions: COMMON_ASSUMPTIONS.to_vec(),
        guards: vec!["binding-name-with-punctuation", "long-string-or-list", "n-equals-zero", "n-equals-size", "n-beyond-size", "non-ascii-string-argument", "absent-argument", "ill-typed-first-argument", "integral-result-from-fractions", "parent-read-under-two-context-constructors", "documentation-examples-agree-with-the-reference"],
        budget_s: (150, 3000),
        single_worker: false,
        run,
        recheck: None,
    }
}

const ATOMS: [&str; 47] = [
    ".nokey", "null", "true", "false", "0", "1", "2", "3", "4", "-1", "1.5", "-0.5", "9007199254740992", "-9223372036854775808", "18446744073709551615", "\"\"", "\"a\"", "\"ab\"", "\"é\"", "\"aé😃\"", "\"12\"", "\"1e3\"",
    "\"a,b\"", "\"[1]\"", "[]", "[1]", "[1, 2, 3]", "[3, 1, 2]", "[\"a\", \"b\"]", "[[1], [2]]", "[1, \"a\", null]", "[true, false]", "{}", "{\"a\": 1}", "{\"a\": 1, \"b\": 2, \"c\": 3}",
    "{\"b\": 2, \"a\": 1}", "[\"b\", \"a\", \"b\"]", "{\"k\": \"é\", \"l\": [1, 2]}", "[\"\", \"a\", \"\"]",
    "{\"a\": 1, \"ab\": 2, \"\": 3}", "[[], {}, \"\"]", "\"null\"", "\"true\"", "[{\"a\": []}, {\"a\": {}}]", "{\"a\": 1, \"b\": 2}",
    "[{\"a\": 1, \"b\": 2}, 3, {\"b\": 2, \"a\": 1}, 3.0, {\"a\": 1, \"b\": 2}]",
    "[1, \"a\", 2, [3], 4]",
];

const BODIES: [&str; 14] = ["(+ (default .so_far 100) (default .value .))", "(? (number? (default .value .)) (default .value .) .nokey)", ".", "(+ . 1)", "(len .)", "(string? .)", "true", "^", "(number? .)", ".nokey", "(stringify .)", "(> . 1)", "(concat . \"x\")", "null"];

/// additional atoms for particular functions (all positions)
pub fn extra_atoms(name: &str) -> Vec<&'static str> {
    match name {
        "match" | "extract_regex_group" => vec!["\"a+\"", "\"(a)(b)?\"", "\"[\"", "\"^$\"", "\"é\"", "\"(a)|(b)\"", "\"(x)?(a)\"", "\"(b)*a(é)?\"", "\"(?i)(B)|(?P<n>A)\"", "\"b\"", "\"xa\"", "\"a{2}\"", "\"b{1,3}a\"", "\"a{\"", "\"aab\"", "\"a{2}\""],
        "format_time" => vec!["\"%Y-%m-%d %H:%M:%S\"", "\"%s\"", "\"%.3f|%A\"", "\"%Q\"", "\"%\"", "0", "1701611515", "-1.5", "1e12", "1e18", "86399.5"],
        "parse_time" | "parse_time_with_zone" => {
            vec!["\"%Y-%m-%d %H:%M:%S\"", "\"%Y-%m-%d %H:%M:%S %z\"", "\"2023-12-03 13:51:55\"", "\"2023-12-03 13:51:55 +0500\"", "\"1970-01-01 00:00:00\"", "\"%Q\"", "\"1969-12-31 23:59:58 -0130\""]
        }
        "base63_decode" => vec!["\"dGVzdA==\"", "\"wyg=\"", "\"w6k=\"", "\"dGVzdA\""],
        "env" => vec!["\"JV_FIXED\"", "\"JV_UNSET\""],
        "parse" => vec!["\"{\\\"a\\\": [1, 2.50]}\"", "\" 7 \"", "\"\\\"x\\\"\""],
        "parse_selection" => vec!["\"(len .)\"", "\".a\"", "\"(+ 1 2)\"", "\"^.\""],
        "split" => vec!["\",\"", "\"é\"", "\"a\"", "\"aa\"", "\"aaa\"", "\"a--b---c\"", "\"--\"", "\"éé\"", "\"ééé\""],
        "join" => vec!["\"-\"", "\"\""],
        "range" => vec!["5"],
        "get" => vec!["\"a\"", "\"k\""],
        n if n.starts_with('"') => vec!["\"-1.50\"", "\"abc\"", "\"0\"", "\"1E2\"", "\"100\"", "\"\u{ff11}\u{ff12}\"", "\"\u{663}\"", "\"\u{b2}\"", "\"\u{bd}\"", "[{\"v\": \"10\"}, {\"v\": \"9\"}, {}, {\"v\": \"1e1\"}]"],
        _ => vec![],
    }
}

const LAMBDA_FNS: [&str; 12] = ["filter", "map", "flat_map", "fold", "group_by", "sort_by", "filter_keys", "filter_values", "map_keys", "map_values", "sort_by_values_by", "\"sort_by\""];

fn type_of(t: &str) -> &'static str {
    if t == ".nokey" {
        return "absent";
    }
    if t.starts_with('(') || t.starts_with('.') || t.starts_with('^') {
        return "expr";
    }
    json::parse_one(t.as_bytes()).map(|v| v.type_name()).unwrap_or("expr")
}

struct Setup {
    args: Vec<String>,
    input: String,
    env: Env,
}

fn plain_setup() -> Setup {
    Setup { args: vec![], input: "null".into(), env: Env::of(V::Null) }
}

fn check_expr(ctx: &mut Ctx, text: &str, setup: &Setup, sig: &str) {
    let e: E = match expr::parse(text) {
        Ok(e) => e,
        Err(err) => {
            ctx.machinery_error(format!("reference reader rejects generated expression {text:?}: {err}"));
            return;
        }
    };
    // the reference goes first: programs whose only point is to exhaust resources are not executed
    // (sizes beyond the property's bound of 10^4 items, macros that call themselves)
    let model = eval::eval(&e, &setup.env);
    if let Err(t) = &model {
        if t.0 == "range too large" || t.0 == "cross too large" || t.0 == "recursion" {
            ctx.outcome("not-executed-resource-bound");
            return;
        }
    }
    let mut args = setup.args.clone();
    // raw UTF-8 output: the \\u spelling of non-BMP characters is C02's subject (known finding there)
    args.push("--utf8-strings".into());
    // an option that must not change any value, in rotation
    match crate::ctx::h64(&text) % 3 {
        1 => args.push("--regular-expression-cache-size=1".into()),
        2 => args.push("--regular-expression-cache-size=16".into()),
        _ => {}
    }
    args.push(format!("--select={text}=x"));
    let case = Case::owned(args, format!("{}\n", setup.input).into_bytes());
    let obs = ctx.run(&case);
    ctx.case_done();
    ctx.trace_validated();
    let rows = json::parse_rows(&obs.stdout, b"\n");
    let got = match (&obs.res, rows) {
        (r, Ok(rows)) if r.is_ok() && rows.len() == 1 => rows[0].get("x").cloned(),
        _ => {
            ctx.outcome("run-failed");
            ctx.violation("expression-run-failed", sig, &[case.clone()], "Ok and one row".into(), obs.brief());
            return;
        }
    };
    match model {
        Err(t) => {
            ctx.outcome("not-compared");
            ctx.outcome(&format!("left-open: {}", t.0));
            ctx.transition(&("taint", t.0.clone()));
        }
        Ok(m) => {
            if m.is_some() {
                ctx.nontrivial();
            }
            if eval::agrees_opt(&m, &got, eval::creates_records(&e)) {
                ctx.outcome(if m.is_some() { "ok-value" } else { "ok-nothing" });
            } else {
                ctx.outcome("violation");
                // is the only difference the known spelling of characters outside the BMP in JSON text?
                let mut sig = sig.to_string();
                if let (Some(V::Str(ms)), Some(V::Str(gs))) = (&m, &got) {
                    if ms.starts_with(eval::JSON_MARK) {
                        if let Some(repaired) = eval::undo_long_escapes(gs) {
                            if eval::agrees(&V::Str(ms.clone()), &V::Str(repaired), true) {
                                sig.push_str(" [only difference: non-BMP character spelled \\u+5 hex digits]");
                            }
                        }
                    }
                }
                let sig = sig.as_str();
                ctx.violation(
                    "value-differs-from-the-documentation",
                    sig,
                    &[case.clone()],
                    eval::show_opt(&m),
                    eval::show_opt(&got),
                );
            }
        }
    }
    ctx.sample(|| serde_json::json!({"expression": text, "input": setup.input, "value": eval::show_opt(&got)}));
}

fn depth1(ctx: &mut Ctx) {
    let setup = plain_setup();
    for f in ftable::pure_functions() {
        let mut atoms: Vec<&str> = ATOMS.to_vec();
        atoms.extend(extra_atoms(f.name));
        let is_lambda = LAMBDA_FNS.contains(&f.name);
        let arities: Vec<usize> = (f.min..=f.max.min(3)).collect();
        for arity in arities {
            // slicing unit: (function, arity, first atom)
            for (ai, first) in atoms.iter().enumerate() {
                if !ctx.mine() {
                    continue;
                }
                let _ = ai;
                let rest = arity - 1;
                // argument menus per position
                let menus: Vec<Vec<&str>> = (0..rest)
                    .map(|pos| {
                        let is_body = is_lambda && pos + 1 == arity - 1 && (f.name != "fold" || arity == 3 || pos == 0);
                        if is_body {
                            BODIES.to_vec()
                        } else {
                            atoms.clone()
                        }
                    })
                    .collect();
                let radix: Vec<usize> = menus.iter().map(|m| m.len()).collect();
                let mut tuples: Vec<Vec<&str>> = Vec::new();
                if rest == 0 {
                    tuples.push(vec![]);
                } else {
                    crate::explore::product(&radix, |ix| tuples.push(ix.iter().enumerate().map(|(p2, i)| menus[p2][*i]).collect()));
                }
                for t in tuples {
                    let mut parts = vec![f.name.to_string(), first.to_string()];
                    parts.extend(t.iter().map(|s| s.to_string()));
                    let text = format!("({})", parts.join(" "));
                    let types: Vec<&str> = std::iter::once(*first).chain(t.iter().copied()).map(type_of).collect();
                    let sig = format!("{}({})", f.name, types.join(","));
                    ctx.state(&(f.name, types.clone()));
                    // guards
                    if ["take", "take_last", "head", "tail", "sub"].contains(&f.name) && arity >= 2 {
                        let n = t.last().copied().unwrap_or("");
                        if n == "0" {
                            ctx.guard("n-equals-zero");
                        }
                        if (*first == "[1, 2, 3]" || *first == "\"aé😃\"") && n == "3" {
                            ctx.guard("n-equals-size");
                        }
                        if n == "4" {
                            ctx.guard("n-beyond-size");
                        }
                    }
                    if first.contains('é') {
                        ctx.guard("non-ascii-string-argument");
                    }
                    if types.contains(&"absent") {
                        ctx.guard("absent-argument");
                    }
                    if f.group == "list" && types[0] == "number" {
                        ctx.guard("ill-typed-first-argument");
                    }
                    if (f.name == "+" || f.name == "-") && types.iter().all(|x| *x == "number") && text.contains("1.5") && text.contains("-0.5") {
                        ctx.guard("integral-result-from-fractions");
                    }
                    check_expr(ctx, &text, &setup, &sig);
                }
                if ctx.time_up() {
                    ctx.cap(&format!("depth 1 at {}", f.name));
                    return;
                }
            }
        }
    }
    ctx.level_done("depth1:every-function-x-every-argument-tuple");
}

/// the same atoms arriving through every kind of extractor (first argument), unary and binary functions
fn routes(ctx: &mut Ctx) {
    for (fi_route, f) in ftable::pure_functions().into_iter().enumerate() {
        if f.min > 2 || LAMBDA_FNS.contains(&f.name) || ["set", "define", ":", "@", "|", "?"].contains(&f.name) {
            continue;
        }
        if !ctx.mine() {
            continue;
        }
        let second: Vec<&str> = if f.min == 2 || (f.max >= 2 && f.min < 2) { vec!["1", "\"a\"", "2"] } else { vec![""] };
        for (ai_route, atom) in ATOMS.iter().enumerate().skip(1) {
            let v = json::parse_str(atom);
            for s2 in &second {
                let tail = if s2.is_empty() { String::new() } else { format!(" {s2}") };
                let lit = format!("({} {atom}{tail})", f.name);
                // names of variables and macros are free text up to white space, `)`, `,` or `=`
                const VNAMES: [&str; 6] = ["v", "cfg.max", "a#1", "x[0]", "\u{e9}{k}", "m(1"];
                let vname = VNAMES[(ai_route + fi_route) % VNAMES.len()];
                if vname != "v" {
                    ctx.guard("binding-name-with-punctuation");
                }
                let routes: Vec<(&str, String, Setup)> = vec![
                    ("input", format!("({} .{tail})", f.name), Setup { args: vec![], input: atom.to_string(), env: Env::of(v.clone()) }),
                    ("dot-sugar", format!("(.{}{tail})", f.name), Setup { args: vec![], input: atom.to_string(), env: Env::of(v.clone()) }),
                    (
                        "member",
                        format!("({} .m{tail})", f.name),
                        Setup { args: vec![], input: format!("{{\"m\": {atom}}}"), env: Env::of(V::Obj(vec![("m".into(), v.clone())])) },
                    ),
                    ("element", format!("({} #1{tail})", f.name), Setup { args: vec![], input: format!("[0, {atom}]"), env: Env::of(V::Arr(vec![V::int(0), v.clone()])) }),
                    ("variable", format!("({} :{vname}{tail})", f.name), {
                        let mut env = Env::of(V::Null);
                        env.vars.push((vname.to_string(), v.clone()));
                        Setup { args: vec![format!("--set={vname}={atom}")], input: "null".into(), env }
                    }),
                    ("macro", format!("({} @{vname}{tail})", f.name), {
                        let mut env = Env::of(V::Null);
                        env.macros.push((vname.to_string(), E::Const(v.clone())));
                        Setup { args: vec![format!("--set=@{vname}={atom}")], input: "null".into(), env }
                    }),
                    ("selected", format!("({} /s/{tail})", f.name), {
                        let mut env = Env::of(V::Null);
                        env.sel.push(("s".into(), Some(v.clone())));
                        Setup { args: vec![format!("--select={atom}=s")], input: "null".into(), env }
                    }),
                    ("parent", format!("(| 0 ({} ^.m{tail}))", f.name), Setup { args: vec![], input: format!("{{\"m\": {atom}}}"), env: Env::of(V::Obj(vec![("m".into(), v.clone())])) }),
                ];
                let _ = lit;
                for (rname, text, setup) in routes {
                    ctx.transition(&(f.name, rname));
                    check_expr(ctx, &text, &setup, &format!("{} via {rname} ({})", f.name, v.type_name()));
                }
            }
        }
        if ctx.time_up() {
            ctx.cap("routes");
            return;
        }
    }
    ctx.level_done("depth1:atoms-through-every-extractor-kind");
}

/// documented well-typed call of every function: (text, input)
pub fn canonical_calls() -> Vec<(String, String, String)> {
    let docs: serde_json::Value = serde_json::from_str(DOCS).unwrap();
    let mut out = Vec::new();
    for f in docs.as_array().unwrap() {
        let name = f["name"].as_str().unwrap();
        if ftable::EXCLUDED.contains(&name) {
            continue;
        }
        for ex in f["examples"].as_array().unwrap() {
            if ex["has_output"].as_bool().unwrap_or(false) && ex["input"].is_null() {
                let args: Vec<String> = ex["args"].as_array().unwrap().iter().map(|a| a.as_str().unwrap().split_whitespace().collect::<Vec<_>>().join(" ")).collect();
                out.push((name.to_string(), format!("({} {})", name, args.join(" ")), args.join("\u{0}")));
                break;
            }
        }
    }
    out
}

fn depth2(ctx: &mut Ctx) {
    let calls = canonical_calls();
    let setup = plain_setup();
    for (fname, _, fargs) in &calls {
        if !ctx.mine() {
            continue;
        }
        let fargs: Vec<&str> = fargs.split('\u{0}').collect();
        for pos in 0..fargs.len() {
            for (gname, gtext, _) in &calls {
                let mut a: Vec<String> = fargs.iter().map(|s| s.to_string()).collect();
                a[pos] = gtext.clone();
                let text = format!("({fname} {})", a.join(" "));
                ctx.transition(&(fname.clone(), gname.clone(), pos));
                check_expr(ctx, &text, &setup, &format!("{fname}(..{gname}(..) at #{pos}..)"));
            }
        }
        if ctx.time_up() {
            ctx.cap("depth 2");
            return;
        }
    }
    ctx.level_done("depth2:every-function-with-every-function-as-one-argument");
}

fn context_grammar(ctx: &mut Ctx) {
    let sources = [".", ".l", "^.l", ".ll", ":x", "@m"];
    let wrappers = [
        "(map S H)", "(filter S (= H H))", "(flat_map S (push [] H))", "(fold S 0 H)", "(sort_by S H)", "(map_values .o H)", "(| S H)", "(set \"x\" S H)", "(define \"m\" S H)",
        "(group_by S (? (number? H) \"n\" \"o\"))", "(first (map S H))", "(| (| S H) (push [] . ^ ^^))",
    ];
    let leaves = [".", "^", "^^", "^.n", ":x", "@m", "(len .)", "(push [] . ^.n)"];
    let input = "{\"n\": 2, \"l\": [1, [2, 3], \"s\"], \"ll\": [[1], [4, [5]]], \"o\": {\"p\": [1, 2], \"q\": 3}}";
    let mut env = Env::of(json::parse_str(input));
    env.vars.push(("x".into(), json::parse_str("[7, [8]]")));
    env.macros.push(("m".into(), p("(len .)")));
    let setup = Setup { args: vec!["--set=x=[7, [8]]".into(), "--set=@m=(len .)".into()], input: input.into(), env };
    let depth = ctx.tier.pick(3usize, 4);
    // all wrapper/source chains of length 1..=depth around every leaf
    // (define "m" @m ..) is a macro that calls itself: a program that loops because it was written to
    let per_level: Vec<String> = wrappers.iter().flat_map(|w| sources.iter().filter(move |s| !(w.starts_with("(define") && **s == "@m")).map(move |s| w.replace('S', s))).collect();
    fn build(level: usize, depth: usize, per_level: &[String], leaves: &[&str], prefix: &str, ctx: &mut Ctx, setup: &Setup, top: bool) {
        // prefix has one `H` hole
        for leaf in leaves {
            let text = prefix.replace('H', leaf);
            if level >= 2 && leaf.contains('^') {
                ctx.guard("parent-read-under-two-context-constructors");
            }
            check_expr(ctx, &text, setup, &format!("context depth {level} leaf {leaf}"));
        }
        if level < depth {
            for w in per_level {
                if top && !ctx.mine() {
                    continue;
                }
                let next = prefix.replace('H', w);
                build(level + 1, depth, per_level, leaves, &next, ctx, setup, false);
                if ctx.time_up() {
                    return;
                }
            }
        }
    }
    for w in &per_level {
        if !ctx.mine() {
            continue;
        }
        // first level is sliced here; deeper levels inside
        for leaf in leaves {
            check_expr(ctx, &w.replace('H', leaf), &setup, &format!("context depth 1 leaf {leaf}"));
        }
        for w2 in &per_level {
            let p2 = w.replace('H', w2);
            build(2, depth, &per_level, &leaves, &p2, ctx, &setup, false);
            if ctx.time_up() {
                ctx.cap("context grammar");
                return;
            }
        }
    }
    ctx.level_done(&format!("depth3-5:every-nesting-of-<={depth}-context-constructors"));
}

/// size thresholds: string and collection functions on inputs of 15..1025 characters / items with a
/// multi-byte character at either end, and counts around the size
fn long_inputs(ctx: &mut Ctx) {
    const SIZES: [usize; 15] = [15, 16, 17, 31, 32, 33, 63, 64, 65, 127, 128, 129, 1023, 1024, 1025];
    for n in SIZES {
        if !ctx.mine() {
            continue;
        }
        ctx.guard("long-string-or-list");
        let body = "a".repeat(n - 1);
        let strings = [format!("{body}\u{e9}"), format!("\u{1f603}{body}"), "ab".repeat(n / 2 + 1)[..n].to_string()];
        let list: Vec<String> = (0..n).map(|i| ((i * 7) % n + i % 3).to_string()).collect();
        let list_txt = format!("[{}]", list.join(", "));
        // member names of several kinds (plain integers, digits followed by text, text, non-ASCII), in no order at all
        let key_of = |j: usize| match j % 6 {
            0 => format!("{j}"),
            1 => format!("{j}a"),
            2 => format!("k{j}"),
            3 => format!("{j}.5"),
            4 => format!("{j}-"),
            _ => format!("\u{e9}{j}"),
        };
        let obj_txt = format!("{{{}}}", (0..n).map(|i| format!("\"{}\": {}", key_of(if i % 2 == 0 { i / 2 } else { n - 1 - i / 2 }), i)).collect::<Vec<_>>().join(", "));
        let counts: Vec<usize> = vec![0, 1, n - 1, n, n + 1, 31, 32, 33];
        let recs_txt = format!("[{}]", (0..n).map(|i| format!("{{\"k\": {}, \"id\": {i}}}", (i * 3 + i / 4) % 5)).collect::<Vec<_>>().join(", "));
        for (ii, input) in strings.iter().map(|s| format!("\"{s}\"")).chain([list_txt.clone(), obj_txt.clone(), recs_txt.clone()]).enumerate() {
            let v = json::parse_str(&input);
            let setup = Setup { args: vec![], input: input.clone(), env: Env::of(v) };
            let mut exprs: Vec<String> = vec!["(size .)".into(), "(stringify .)".into(), "(= . .)".into(), "(parse (stringify .))".into(), "(default .nokey .)".into()];
            for c in &counts {
                for f in ["take", "take_last"] {
                    exprs.push(format!("({f} . {c})"));
                }
                for c2 in [0usize, 1, n] {
                    exprs.push(format!("(sub . {c} {c2})"));
                }
                if ii < 3 {
                    exprs.push(format!("(head . {c})"));
                    exprs.push(format!("(tail . {c})"));
                }
            }
            if ii < 3 {
                exprs.extend(["(concat . .)", "(split . \"a\")", "(split . \"\u{e9}\")", "(match . \"a+.$\")", "(extract_regex_group . \"^(.)(a*)\" 2)", "(join (push [] . .) .)", "(< . (concat . \"a\"))", "(len (concat . . .))", "(base63_decode .)", "(put {} . 1)", "(get (put {} . 1) .)"].iter().map(|s| s.to_string()));
            } else if ii == 3 {
                exprs.extend(["(sort .)", "(sort_unique .)", "(reverese .)", "(first .)", "(last .)", "(pop .)", "(pop_first .)", "(sum .)", "(map . (+ . 1))", "(filter . (> . 30))", "(sort_by . (- .))", "(indexed .)", "(fold . 0 (+ .so_far .value))", "(group_by . (stringify (% . 3)))", "(zip . .)", "(push . 1 2)", "(push_front . 1 2)", "(join (map . (stringify .)))", "(flat_map . (push [] . .))", "(all (map . (number? .)))"].iter().map(|s| s.to_string()));
            } else if ii == 5 {
                exprs = ["(sort_by . .k)", "(sort_by . (- .k))", "(group_by . (stringify .k))", "(filter . (= .k 1))", "(map . .id)", "(sort_by (reverese .) .k)", "(sort_by . .nokey)", "(take (sort_by . .k) 3)", "(flat_map . (push [] .id))"].iter().map(|s| s.to_string()).collect();
            } else {
                exprs.extend(["(keys .)", "(values .)", "(entries .)", "(sort_by_keys .)", "(sort_by_values .)", "(filter_values . (> . 30))", "(filter_keys . (= (len .) 2))", "(map_values . (+ . 1))", "(map_keys . (concat . \"x\"))", "(put . \"k0\" -1)", "(put . \"new\" -1)", "(insert_if_absent . \"k1\" -1)", "(replace_if_exists . \"k1\" -1)", "(sort_by_values_by . (- .))", "(get . \"k1\")"].iter().map(|s| s.to_string()));
            }
            for e in exprs {
                let f = e.split(|c: char| c == ' ' || c == ')').next().unwrap_or("").trim_start_matches('(').to_string();
                check_expr(ctx, &e, &setup, &format!("{f} on {} of {n}", ["string ending in a 2-byte character", "string starting with a 4-byte character", "ascii string", "list", "object", "list of records with tied keys"][ii]));
            }
        }
    }
    ctx.level_done("size-thresholds:strings-lists-objects-of-15..1025");
}

fn run(ctx: &mut Ctx) {
    // oracle self-check: the documentation's own examples
    let s = selfcheck::run();
    if !s.mismatches.is_empty() {
        for m in s.mismatches.iter().take(5) {
            ctx.machinery_error(format!("reference evaluator disagrees with a documented example: {m}"));
        }
        return;
    }
    ctx.guard("documentation-examples-agree-with-the-reference");
    ctx.note("selfcheck", format!("{} documented examples: {} agree, {} left open, {} skipped", s.examples, s.agreed, s.tainted, s.skipped));
    depth1(ctx);
    routes(ctx);
    depth2(ctx);
    long_inputs(ctx);
    context_grammar(ctx);
    // what a call gives depends on its arguments only: the documented example call of every function with one argument
    // read from the record (directly, through a variable, through a macro), over records A B A A / B A B B, against the
    // same record alone (shared with C12/C13)
    super::c12::rebinding_around_every_function(ctx);
    let _ = Tier::Quick;
}
