//! C10 — --unique removes exactly the later duplicates, by the same equality as `=`.

use super::{Prop, COMMON_ASSUMPTIONS};
use crate::ctx::{Ctx, Tier};
use crate::drive::Case;
use crate::refmodel::eval;
use crate::refmodel::json::{self, V};

pub fn prop() -> Prop {
    Prop {
        id: "C10",
        level: "model_checking",
        rule: "all streams of <=3 (thorough <=4) values over a 49-text universe (numbers one unit in the last place apart; (objects with the same members in another order, which `=` calls equal; strings spelled like literals, keys that are prefixes of one another, the empty key, empty collections inside a collection; (incl. whole numbers >= 2^32 spelled with and without exponent / fraction, and two objects whose printed forms coincide under the \\u+5-hex-digit spelling of non-BMP characters) (incl. unequal nested objects that differ only in where a trailing member sits: {\"a\":{},\"b\":1} / {\"a\":{\"b\":1}}) with equal-by-value spellings (0 0.0 0e0, [0,\"x\"] [0.0,\"x\"], 1 1.0 1e0 10e-1, \"a\" \"\\u0061\", 1.5 15e-1, 100 1e2, [1,{\"a\":1}] [1.0,{\"a\":1e0}], {\"a\":1} {\"a\":1.0}) and near misses (\"1\", [1], [1.5], null, true), and <=5 (thorough <=7) over a 10-text core; the same through one and two selections (also two selections sharing a name) over all streams of <=4 (thorough <=6) records where the selected member is present, null or absent; growth families of 3..1000 distinct values each arriving in three spellings; rows whose input repeats while the selected values differ and the reverse (8 pipelines with --split-by and selections reading ^, over all streams of <=3 (thorough 4) records out of 6 whose lists share items); rows of two and three string columns whose texts concatenate alike under each of 14 joiners (none, U+001F, NUL, comma, bar, blank, tab, line feed, ..) although the columns differ; non-trivial = the stream holds a duplicate under `=` in a different spelling, or an absent-versus-null pair; distinct by construction; rows whose selected values are computed (round, floor, ceil, abs, arithmetic that returns to the same value, parse of stringify, containers built around them: 14 selection sets) over all streams of 2..3 (thorough 4) values out of 16 numbers and near-numbers",
        explanation: "the `=` table of the implementation is obtained exhaustively for the universe (one run per ordered pair) and checked against reference equality, symmetry and reflexivity; the output with --unique must be the output without it minus every row equal (under that table, selection by selection, absent only equal to absent) to an earlier row",
        assumptions: COMMON_ASSUMPTIONS.to_vec(),
        guards: vec!["columns-that-concatenate-alike", "equal-inputs-with-different-selected-values", "computed-duplicate-removed", "command-line-respelled", "duplicate-in-other-spelling-removed", "near-miss-kept", "absent-vs-null-kept", "nested-duplicate-removed", "table-growth", "eq-table-complete"],
        budget_s: (100, 2400),
        single_worker: false,
        run,
        recheck: None,
    }
}

const U: [&str; 49] = [
    "\"null\"", "\"true\"", "\"[1]\"", "{\"a\":1,\"ab\":2}", "{\"\":1}", "[[],{}]",
    "5000000000", "5e9", "9007199254740991", "9007199254740991.0", "{\"k\":\"\u{1f600}\"}", "{\"k\":\"\u{1f60}0\"}",
    "{\"a\":{},\"b\":1}", "{\"a\":{\"b\":1}}", "[{\"u\":{\"n\":\"x\"},\"id\":7}]", "[{\"u\":{\"n\":\"x\",\"id\":7}}]", "0", "0.0", "0e0", "[0,\"x\"]", "[0.0,\"x\"]", "1", "1.0", "1e0", "10e-1", "\"a\"", "\"\\u0061\"", "\"1\"", "1.5", "15e-1", "null", "[1,{\"a\":1}]", "[1.0,{\"a\":1e0}]", "[1]", "[1.5]", "{\"a\":1}",
    "{\"a\":1.0}", "true", "100", "1e2",
    // the same members in another order: `=` calls these equal
    "0.3", "0.30000000000000004", "[0.1,0.30000000000000004]",
    // two different objects whose member hashes add up to the same 64-bit sum under the (order-independent) hash of
    // the current tree - found by a sub-agent's collision search; they tell a set of values from a set of digests
    "{\"a2556178\":1,\"b3874581\":1}", "{\"c206783\":1,\"d2709478\":1}",
    "{\"ab\":2,\"a\":1}", "{\"b\":1,\"a\":{}}", "[1,{\"x\":{\"p\":1,\"q\":2.0}}]", "[1,{\"x\":{\"q\":2,\"p\":1}}]",
];
const CORE: [usize; 10] = [6, 7, 12, 13, 16, 17, 21, 22, 3, 40];

/// records for the selection configurations: member `a` (and `b`) present / null / absent
const RECS: [&str; 11] = [
    "{\"a\":1}", "{\"a\":1.0,\"b\":2}", "{\"a\":null}", "{}", "{\"b\":1}", "{\"a\":\"x\",\"b\":1.0}", "{\"b\":null}", "{\"a\":[1],\"b\":2.0}", "{\"a\":[1.0]}", "{\"a\":1,\"b\":null}",
    // a row whose selected values spell the names of their own columns
    "{\"a\":\"a\",\"b\":\"b\"}",
];

struct EqTable {
    /// eq[i][j] as the implementation's `=` answers for universe texts i, j
    eq: Vec<Vec<bool>>,
}

fn eq_table(ctx: &mut Ctx, texts: &[String]) -> Option<EqTable> {
    let n = texts.len();
    let mut eq = vec![vec![false; n]; n];
    for i in 0..n {
        for j in 0..n {
            let input = format!("[{},{}]", texts[i], texts[j]);
            let case = Case::owned(vec!["--select=(= #0 #1)=e".into(), "--select=(!= #0 #1)=n".into()], input.into_bytes());
            let obs = ctx.run(&case);
            let row = json::parse_rows(&obs.stdout, b"\n").ok().and_then(|r| r.into_iter().next());
            let (e, ne) = match &row {
                Some(r) => (r.get("e").cloned(), r.get("n").cloned()),
                None => (None, None),
            };
            let a = json::parse_str(&texts[i]);
            let b = json::parse_str(&texts[j]);
            let want = eval::veq(&a, &b);
            match (e, ne) {
                (Some(V::Bool(x)), Some(V::Bool(y))) if x != y => {
                    eq[i][j] = x;
                    if x != want {
                        ctx.violation(
                            "eq-differs-from-reference-equality",
                            &format!("(= {} {})", texts[i], texts[j]),
                            &[case.clone()],
                            format!("{want}"),
                            format!("{x}"),
                        );
                    }
                }
                _ => {
                    ctx.violation("eq-not-boolean", &format!("(= {} {})", texts[i], texts[j]), &[case.clone()], "e and n complementary booleans".into(), obs.brief());
                    return None;
                }
            }
        }
    }
    for i in 0..n {
        for j in 0..n {
            if eq[i][j] != eq[j][i] || !eq[i][i] {
                ctx.violation("eq-not-an-equivalence", &format!("{} vs {}", texts[i], texts[j]), &[], "symmetric and reflexive".into(), format!("{} / {}", eq[i][j], eq[j][i]));
            }
        }
    }
    ctx.guard("eq-table-complete");
    Some(EqTable { eq })
}

/// index of a value in the universe by its text
struct Universe {
    texts: Vec<String>,
    vals: Vec<V>,
    table: EqTable,
}

impl Universe {
    fn build(ctx: &mut Ctx, texts: Vec<String>) -> Option<Universe> {
        let vals = texts.iter().map(|t| json::parse_str(t)).collect();
        let table = eq_table(ctx, &texts)?;
        Some(Universe { texts, vals, table })
    }
    fn idx(&self, v: &V) -> Option<usize> {
        // values are looked up by reference equality on a representative; all spellings of a value behave alike in the table rows
        self.vals.iter().position(|x| x == v)
    }
    fn eq_impl(&self, a: &Option<V>, b: &Option<V>) -> Option<bool> {
        match (a, b) {
            (None, None) => Some(true),
            (Some(x), Some(y)) => Some(self.table.eq[self.idx(x)?][self.idx(y)?]),
            _ => Some(false),
        }
    }
}

struct Sel {
    name: &'static str,
    args: &'static [&'static str],
    members: &'static [&'static str],
}
const SELS: [Sel; 5] = [
    Sel { name: "no-selection", args: &[], members: &[] },
    Sel { name: "select-a", args: &["--select=.a=a"], members: &["a"] },
    Sel { name: "select-a-b", args: &["--select=.a=a", "--select=.b=b"], members: &["a", "b"] },
    Sel { name: "select-a-b-unnamed", args: &["--select=.a", "--select=.b"], members: &["a", "b"] },
    // two selections under ONE name: rows are still compared on their selected values, position by position
    Sel { name: "select-a-b-same-name", args: &["--select=.a=x", "--select=.b=x"], members: &["a", "b"] },
];

fn key_of(sel: &Sel, v: &V) -> Vec<Option<V>> {
    if sel.members.is_empty() {
        vec![Some(v.clone())]
    } else {
        sel.members.iter().map(|m| v.get(m).cloned()).collect()
    }
}

fn check_stream(ctx: &mut Ctx, uni: &Universe, sel: &Sel, texts: &[&str], sig_extra: &str) {
    let mut input = String::new();
    for t in texts {
        input.push_str(t);
        input.push('\n');
    }
    let plain_args: Vec<String> = sel.args.iter().map(|s| s.to_string()).collect();
    let mut uniq_args = plain_args.clone();
    uniq_args.push("--unique".into());
    let plain_case = Case::owned(plain_args, input.clone().into_bytes());
    let uniq_case = Case::owned(uniq_args, input.into_bytes());
    let plain = ctx.run(&plain_case);
    let uniq = ctx.run(&uniq_case);
    super::pipe::check_respelled(ctx, &uniq_case, &uniq, sel.name);
    ctx.case_done();
    ctx.trace_validated();
    let sig = format!("{} {sig_extra}", sel.name);
    let (Ok(prow), Ok(urow)) = (json::parse_rows(&plain.stdout, b"\n"), json::parse_rows(&uniq.stdout, b"\n")) else {
        ctx.violation("stdout-not-rows", &sig, &[uniq_case.clone()], "rows".into(), uniq.brief());
        return;
    };
    if !plain.res.is_ok() || !uniq.res.is_ok() || prow.len() != texts.len() {
        ctx.violation("run-failed", &sig, &[uniq_case.clone(), plain_case.clone()], format!("Ok and {} rows without --unique", texts.len()), format!("{} / {}", plain.brief(), uniq.brief()));
        return;
    }
    // expected: drop row i iff an earlier row j has an equal key (equality = the implementation's own `=`)
    let vals: Vec<V> = texts.iter().map(|t| json::parse_str(t)).collect();
    let keys: Vec<Vec<Option<V>>> = vals.iter().map(|v| key_of(sel, v)).collect();
    let mut expected = Vec::new();
    let mut kept_idx: Vec<usize> = Vec::new();
    let mut nontrivial = false;
    for i in 0..texts.len() {
        let mut dup = false;
        for j in 0..i {
            let mut all = true;
            for (a, b) in keys[i].iter().zip(keys[j].iter()) {
                match uni.eq_impl(a, b) {
                    Some(true) => {}
                    Some(false) => {
                        all = false;
                        if a.is_none() != b.is_none() && (a == &Some(V::Null) || b == &Some(V::Null)) {
                            ctx.guard("absent-vs-null-kept");
                            nontrivial = true;
                        }
                    }
                    None => {
                        ctx.machinery_error(format!("value outside the equality table: {:?} / {:?}", a, b));
                        return;
                    }
                }
            }
            if all {
                dup = true;
                if texts[i] != texts[j] {
                    nontrivial = true;
                    ctx.guard("duplicate-in-other-spelling-removed");
                    if texts[i].starts_with('[') || texts[i].contains(":[") {
                        ctx.guard("nested-duplicate-removed");
                    }
                }
            } else if sel.members.is_empty() && (texts[i].trim_matches('"') == texts[j].trim_matches('"') || (texts[i].starts_with("[1") && texts[j].starts_with("[1"))) {
                ctx.guard("near-miss-kept");
            }
        }
        if !dup {
            expected.push(prow[i].clone());
            kept_idx.push(i);
        }
    }
    if nontrivial {
        ctx.nontrivial();
    }
    ctx.state(&(sel.name, kept_idx.len(), texts.len()));
    ctx.transition(&(sel.name, kept_idx.clone()));
    if urow != expected {
        let kind = super::pipe::diff_kind(&expected, &urow);
        ctx.outcome("violation");
        ctx.violation(
            "unique-output-is-not-the-plain-output-minus-later-duplicates",
            &format!("{sig} {kind}"),
            &[uniq_case.clone(), plain_case.clone()],
            format!("rows {:?} of {}", kept_idx, super::pipe::texts(&prow)),
            super::pipe::texts(&urow),
        );
    } else {
        ctx.outcome(if expected.len() < prow.len() { "ok-removed" } else { "ok-nothing-to-remove" });
    }
    ctx.sample(|| serde_json::json!({"args": uniq_case.args, "input": texts, "with_unique": super::pipe::texts(&urow)}));
}

fn run(ctx: &mut Ctx) {
    // universe for the equality table: the value texts plus every member value of the records
    let mut texts: Vec<String> = U.iter().map(|s| s.to_string()).collect();
    for extra in ["2", "2.0", "\"x\"", "[1.0]", "\"b\""] {
        texts.push(extra.to_string());
    }
    let Some(uni) = Universe::build(ctx, texts) else { return };
    ctx.level_done("equality-table");
    let (full_len, core_len, rec_len) = match ctx.tier {
        Tier::Quick => (3usize, 5usize, 4usize),
        Tier::Thorough => (4, 7, 6),
    };
    // (a) no selection: all streams over the universe / the core
    for len in 0..=core_len {
        let k = if len <= full_len { U.len() } else { CORE.len() };
        let mut todo: Vec<Vec<usize>> = Vec::new();
        crate::explore::seqs_exact(k, len, |i| todo.push(i.to_vec()));
        for idx in todo {
            if !ctx.mine() {
                continue;
            }
            let texts: Vec<&str> = idx.iter().map(|i| if len <= full_len { U[*i] } else { U[CORE[*i]] }).collect();
            check_stream(ctx, &uni, &SELS[0], &texts, "");
            if ctx.time_up() {
                ctx.cap(&format!("value streams of length {len}"));
                return;
            }
        }
        ctx.level_done(&format!("value-streams-of-{len}"));
    }
    // (b) one and two selections over the records
    for len in 0..=rec_len {
        let mut todo: Vec<Vec<usize>> = Vec::new();
        crate::explore::seqs_exact(RECS.len(), len, |i| todo.push(i.to_vec()));
        for idx in todo {
            if !ctx.mine() {
                continue;
            }
            let texts: Vec<&str> = idx.iter().map(|i| RECS[*i]).collect();
            for sel in &SELS {
                if sel.members.is_empty() {
                    continue;
                }
                check_stream(ctx, &uni, sel, &texts, "");
            }
            if ctx.time_up() {
                ctx.cap(&format!("record streams of length {len}"));
                return;
            }
        }
        ctx.level_done(&format!("record-streams-of-{len}-through-selections"));
    }
    // (c) growth families: n distinct integers, each arriving as `i`, `i.0`, `ie0` in several interleavings
    for n in [3usize, 7, 14, 28, 57, 113, 300, 1000] {
        if !ctx.mine() {
            continue;
        }
        let a: Vec<String> = (0..n).map(|i| format!("{}", i)).collect();
        let b: Vec<String> = (0..n).map(|i| format!("{}.0", i)).collect();
        let c: Vec<String> = (0..n).map(|i| format!("{}e0", i)).collect();
        let orders: Vec<Vec<&String>> = vec![
            a.iter().chain(b.iter()).chain(c.iter()).collect(),
            b.iter().chain(c.iter()).chain(a.iter()).collect(),
            (0..n).flat_map(|i| vec![&c[i], &a[i], &b[i]]).collect(),
        ];
        for o in orders {
            let mut input = String::new();
            for t in &o {
                input.push_str(t);
                input.push(' ');
            }
            let case = Case::owned(vec!["--unique".into()], input.into_bytes());
            let obs = ctx.run(&case);
            ctx.case_done();
            ctx.trace_validated();
            ctx.nontrivial();
            ctx.guard("table-growth");
            let rows = json::parse_rows(&obs.stdout, b"\n").unwrap_or_default();
            let mut expected: Vec<V> = Vec::new();
            for t in &o {
                let v = json::parse_str(t);
                if !expected.contains(&v) {
                    expected.push(v);
                }
            }
            if rows != expected || !obs.res.is_ok() {
                ctx.violation(
                    "unique-output-is-not-the-plain-output-minus-later-duplicates",
                    &format!("growth family n={n}"),
                    &[case.clone()],
                    format!("{} rows", expected.len()),
                    format!("{} rows: {}", rows.len(), crate::drive::trunc(&obs.out_str(), 200)),
                );
            }
        }
    }
    ctx.level_done("growth-families");
    computed_selections(ctx);
    repeated_inputs(ctx);
    columns_that_concatenate_alike(ctx);
}

/// Rows whose selected values are COMPUTED (so that equal values reach the duplicate filter through different
/// arithmetic routes: 3 from (round 2.5), from 3.0, from (/ 6 2) ...). The rows printed without --unique are read
/// back and compared with the reference equality (numbers by value, objects regardless of member order).
fn computed_selections(ctx: &mut Ctx) {
    let nums = ["3", "3.0", "3e0", "2.5", "3.4", "3.5", "-0.5", "0", "-0.0", "0.5", "6", "7.0", "-3", "\"3\"", "[3]", "[3.0]"];
    let sels: [&[&str]; 14] = [
        &["(round .)=r"], &["(floor .)=r"], &["(ceil .)=r"], &["(abs .)=r"], &["(* . 1)=r"], &["(/ (* . 2) 2)=r"], &["(+ (- . 0.5) 0.5)=r"], &["(parse (stringify .))=r"], &["(% . 2)=r"],
        &["(first (push [] (round .)))=r"], &["(push [] (round .) .)=r"], &["(put {} \"v\" (floor .))=r"], &["(round .)=r", "(ceil .)=c"], &["(? (number? .) (- 0 (- 0 .)) .)=r"],
    ];
    let maxlen = ctx.tier.pick(3usize, 4);
    let mut seqs: Vec<Vec<usize>> = Vec::new();
    crate::explore::seqs_upto(nums.len(), maxlen, |s| seqs.push(s.to_vec()));
    for (si, sel) in sels.iter().enumerate() {
        for s in &seqs {
            if s.len() < 2 || !ctx.mine() {
                continue;
            }
            let input: String = s.iter().map(|i| format!("{}\n", nums[*i])).collect();
            let plain_args: Vec<String> = sel.iter().map(|e| format!("--select={e}")).collect();
            let mut uniq_args = plain_args.clone();
            uniq_args.insert(si % (plain_args.len() + 1), "--unique".into());
            let plain_case = Case::owned(plain_args, input.clone().into_bytes());
            let uniq_case = Case::owned(uniq_args, input.into_bytes());
            let plain = ctx.run(&plain_case);
            let uniq = ctx.run(&uniq_case);
            ctx.case_done();
            ctx.trace_validated();
            let sig = format!("computed {:?}", sel);
            let (Ok(prow), Ok(urow)) = (json::parse_rows(&plain.stdout, b"\n"), json::parse_rows(&uniq.stdout, b"\n")) else {
                ctx.violation("stdout-not-rows", &sig, &[uniq_case.clone()], "rows".into(), uniq.brief());
                continue;
            };
            if !plain.res.is_ok() || !uniq.res.is_ok() || prow.len() != s.len() {
                ctx.violation("run-failed", &sig, &[uniq_case.clone(), plain_case.clone()], format!("Ok and {} rows without --unique", s.len()), format!("{} / {}", plain.brief(), uniq.brief()));
                continue;
            }
            let mut expected: Vec<V> = Vec::new();
            for r in &prow {
                if !expected.iter().any(|e| eval::veq(e, r)) {
                    expected.push(r.clone());
                }
            }
            if expected.len() < prow.len() {
                ctx.nontrivial();
                ctx.guard("computed-duplicate-removed");
            }
            ctx.transition(&("computed", si, expected.len(), prow.len()));
            if urow != expected {
                ctx.outcome("violation");
                ctx.violation("unique-output-is-not-the-plain-output-minus-later-duplicates", &format!("{sig} {}", super::pipe::diff_kind(&expected, &urow)), &[uniq_case.clone(), plain_case.clone()], super::pipe::texts(&expected), super::pipe::texts(&urow));
            } else {
                ctx.outcome(if expected.len() < prow.len() { "ok-removed" } else { "ok-nothing-to-remove" });
            }
        }
    }
    ctx.level_done("computed-selections(14-selection-sets-x-all-streams-over-16-values)");
}

/// Rows whose INPUT repeats while their selected values differ, and rows with equal selected values made from different
/// inputs: after --split-by an item is a row's input, but a selection may read the record it came from (^), so what
/// --unique compares is the selected values, never the input alone.
fn repeated_inputs(ctx: &mut Ctx) {
    let recs = ["{\"id\":1,\"t\":[\"x\",\"y\"]}", "{\"id\":2,\"t\":[\"y\",\"x\"]}", "{\"id\":1,\"t\":[\"y\"]}", "{\"id\":2,\"t\":[]}", "{\"id\":1,\"t\":[\"x\",\"x\"]}", "{\"id\":3,\"t\":[1,1.0]}"];
    let pipelines: [&[&str]; 8] = [
        &["--split-by=.t", "--select=^.id=i", "--select=.=v"],
        &["--split-by=.t", "--select=.=v"],
        &["--split-by=.t", "--select=^.id=i"],
        &["--split-by=.t"],
        &["--split-by=.t", "--select=(push [] . ^.id)=p"],
        &["--select=.id=i"],
        &["--split-by=.t", "--select=.=v", "--select=(len ^.t)=n"],
        &["--split-by=(push .t .id)", "--select=.=v", "--select=(= . ^.id)=same"],
    ];
    let maxlen = ctx.tier.pick(3usize, 4);
    let mut seqs: Vec<Vec<usize>> = Vec::new();
    crate::explore::seqs_upto(recs.len(), maxlen, |s| seqs.push(s.to_vec()));
    for (pi, pl) in pipelines.iter().enumerate() {
        for s in &seqs {
            if s.is_empty() || !ctx.mine() {
                continue;
            }
            let input: String = s.iter().map(|i| format!("{}\n", recs[*i])).collect();
            let plain_args: Vec<String> = pl.iter().map(|e| e.to_string()).collect();
            let mut uniq_args = plain_args.clone();
            uniq_args.insert((pi + s.len()) % (plain_args.len() + 1), "--unique".into());
            let plain_case = Case::owned(plain_args, input.clone().into_bytes());
            let uniq_case = Case::owned(uniq_args, input.into_bytes());
            let plain = ctx.run(&plain_case);
            let uniq = ctx.run(&uniq_case);
            ctx.case_done();
            ctx.trace_validated();
            let sig = format!("repeated inputs {:?}", pl);
            let (Ok(prow), Ok(urow)) = (json::parse_rows(&plain.stdout, b"\n"), json::parse_rows(&uniq.stdout, b"\n")) else {
                ctx.violation("stdout-not-rows", &sig, &[uniq_case.clone()], "rows".into(), uniq.brief());
                continue;
            };
            if !plain.res.is_ok() || !uniq.res.is_ok() {
                ctx.violation("run-failed", &sig, &[uniq_case.clone(), plain_case.clone()], "Ok".into(), format!("{} / {}", plain.brief(), uniq.brief()));
                continue;
            }
            let mut expected: Vec<V> = Vec::new();
            for r in &prow {
                if !expected.iter().any(|e| eval::veq(e, r)) {
                    expected.push(r.clone());
                }
            }
            if expected.len() < prow.len() {
                ctx.nontrivial();
            }
            if pi == 0 && prow.windows(2).any(|w| w[0].get("v") == w[1].get("v") && w[0].get("i") != w[1].get("i")) {
                ctx.guard("equal-inputs-with-different-selected-values");
            }
            ctx.transition(&("repeated-inputs", pi, expected.len(), prow.len()));
            if urow != expected {
                ctx.outcome("violation");
                ctx.violation("unique-output-is-not-the-plain-output-minus-later-duplicates", &format!("{sig} {}", super::pipe::diff_kind(&expected, &urow)), &[uniq_case.clone(), plain_case.clone()], super::pipe::texts(&expected), super::pipe::texts(&urow));
            } else {
                ctx.outcome(if expected.len() < prow.len() { "ok-removed" } else { "ok-nothing-to-remove" });
            }
        }
    }
    ctx.level_done("rows-whose-input-repeats-with-other-selected-values(8-pipelines-with-split-and-^)");
}

/// Rows of several string columns whose texts, put one after the other, read the same although the columns differ:
/// ("x<j>y","z") and ("x","y<j>z") for every joiner j that an implementation might put between columns, and the rows
/// ("ab",""), ("a","b"), ("","ab") that collide under no joiner at all. --unique compares column by column.
fn columns_that_concatenate_alike(ctx: &mut Ctx) {
    let joiners = ["", "\u{1f}", "\u{0}", "\u{1e}", ",", "|", " ", "\t", "\n", "/", ":", "\u{ffff}", "\", \"", "\u{e9}"];
    let maxlen = ctx.tier.pick(3usize, 4);
    for (ji, j) in joiners.iter().enumerate() {
        if !ctx.mine() {
            continue;
        }
        let rows: Vec<Vec<String>> = vec![
            vec![format!("x{j}y"), "z".into(), "w".into()],
            vec!["x".into(), format!("y{j}z"), "w".into()],
            vec!["x".into(), "y".into(), format!("z{j}w")],
            vec![format!("x{j}y{j}z"), "w".into(), String::new()],
            vec!["x".into(), "y".into(), "z".into()],
        ];
        let recs: Vec<String> = rows.iter().map(|r| json::to_text(&V::Obj(vec![("a".into(), V::s(&r[0])), ("b".into(), V::s(&r[1])), ("c".into(), V::s(&r[2]))]))).collect();
        let mut seqs: Vec<Vec<usize>> = Vec::new();
        crate::explore::seqs_upto(recs.len(), maxlen, |s| seqs.push(s.to_vec()));
        for sel in [vec!["--select=.a=a", "--select=.b=b"], vec!["--select=.a=a", "--select=.b=b", "--select=.c=c"], vec!["--select=.b", "--select=.c"]] {
            for s in &seqs {
                if s.len() < 2 {
                    continue;
                }
                let input: String = s.iter().map(|i| format!("{}\n", recs[*i])).collect();
                let plain_args: Vec<String> = sel.iter().map(|e| e.to_string()).collect();
                let mut uniq_args = plain_args.clone();
                uniq_args.push("--unique".into());
                let plain_case = Case::owned(plain_args, input.clone().into_bytes());
                let uniq_case = Case::owned(uniq_args, input.into_bytes());
                let plain = ctx.run(&plain_case);
                let uniq = ctx.run(&uniq_case);
                ctx.case_done();
                ctx.trace_validated();
                ctx.guard("columns-that-concatenate-alike");
                let sig = format!("columns that concatenate alike, joiner #{ji} {:?}, {} columns", j, sel.len());
                let (Ok(prow), Ok(urow)) = (json::parse_rows(&plain.stdout, b"\n"), json::parse_rows(&uniq.stdout, b"\n")) else {
                    ctx.violation("stdout-not-rows", &sig, &[uniq_case.clone()], "rows".into(), uniq.brief());
                    continue;
                };
                let mut expected: Vec<V> = Vec::new();
                for r in &prow {
                    if !expected.iter().any(|e| eval::veq(e, r)) {
                        expected.push(r.clone());
                    }
                }
                if expected.len() == prow.len() {
                    ctx.nontrivial();
                }
                ctx.transition(&("concat-alike", ji, sel.len(), expected.len(), prow.len()));
                if !plain.res.is_ok() || !uniq.res.is_ok() || prow.len() != s.len() || urow != expected {
                    ctx.outcome("violation");
                    ctx.violation("unique-output-is-not-the-plain-output-minus-later-duplicates", &format!("{sig} {}", super::pipe::diff_kind(&expected, &urow)), &[uniq_case.clone(), plain_case.clone()], super::pipe::texts(&expected), super::pipe::texts(&urow));
                } else {
                    ctx.outcome(if expected.len() < prow.len() { "ok-removed" } else { "ok-nothing-to-remove" });
                }
            }
        }
    }
    ctx.level_done("string-columns-that-concatenate-alike(14-joiners-x-2..3-columns)");
}
