//! C14 — --take stops reading: jawk terminates on unbounded input when it can.

use super::{Prop, COMMON_ASSUMPTIONS};
use crate::ctx::{Ctx, Tier};
use crate::drive::{Case, Input, ReadPlan, WritePlan};
use crate::refmodel::json::{self, V};

pub fn prop() -> Prop {
    Prop {
        id: "C14",
        level: "model_checking",
        rule: "unbounded input = every prefix of <=2 (thorough <=4) values over a 7-value alphabet (qualifying object, scalar, empty split, duplicate rows, non-qualifying object, an object whose strings end in an escaped backslash or hold a bracket, a malformed region) followed by an endless counter stream of qualifying distinct objects (five kinds: every split item qualifies / every array ends in / starts with an item that --filter drops and --unique has seen; values separated by line breaks / by blanks only), served byte by byte with every byte pulled counted; T in 0..5, S in 0..3 (and (S,T) around 255/256/1000 for 6 option sets) x every subset of {--set, --split-by, --filter, --select, --unique, --only-objects-and-arrays}, each case with one of 8 options that change nothing on a clean stream (none, the four --on-error policies, cache size 0, --utf8-strings, --style=consise) in rotation; horizon 64 KiB; FIFO (file path) variant for a subset; non-trivial = T>=1 and the T-th row is not produced by the last value of the prefix; distinct by construction",
        explanation: "a step-wise reference pipeline says which input value produces row S+T and where that value ends; jawk must return Ok with exactly rows S..S+T, must not reach the horizon, and must not pull more than 16 bytes past that value (stdin) / one pipe + BufReader capacity (file)",
        assumptions: COMMON_ASSUMPTIONS.to_vec(),
        guards: vec!["malformed-region-before-the-stop", "error-policy-panic-with-take", "stop-decision-from-the-last-item-of-an-array", "endless-part-without-line-breaks", "hundreds-of-rows-before-the-stop", "tail-arrays-end-in-a-dropped-item", "stopped-inside-endless-tail", "stopped-inside-prefix", "take-zero", "split-stops-mid-array", "unique-drops-before-limit", "fifo"],
        budget_s: (100, 1200),
        single_worker: false,
        run,
        recheck: None,
    }
}

const HORIZON: usize = 64 * 1024;

/// value alphabet of the prefix (text, parsed)
fn alphabet() -> Vec<&'static str> {
    vec![
        "{\"i\":-5,\"l\":[70,71]}",  // qualifying object, splits in two
        "3",                          // top-level scalar
        "{\"i\":-6,\"l\":[]}",       // qualifying, splits into nothing
        "{\"i\":-5,\"l\":[70,71]}",  // duplicate of the first
        "{\"i\":0,\"l\":[8,8,9]}",   // not qualifying for the filter; duplicate rows when split
        "{\"i\":-7,\"d\":\"c:\\\\\",\"l\":[\"]\\\\\",72]}", // strings that end in an escaped backslash / hold a bracket
        "}",                          // a malformed region (skipped; reported under --on-error=stdout/stderr)
    ]
}

/// kind 0: every array item qualifies; kind 1: every array ends in an item that the filter drops
/// and --unique has seen before (so the stop decision has to come from an item that is not the last)
fn counter_tail_kind(kind: usize) -> Vec<u8> {
    // kinds 3 and 4 are kinds 0 and 2 without any line break in the endless part (values separated by blanks)
    let sep = if kind >= 3 { " " } else { "\n" };
    let mut s = String::new();
    let mut i = 1u64;
    while s.len() < HORIZON + 4096 {
        match kind {
            0 | 3 => s.push_str(&format!("{{\"i\":{i},\"l\":[{},{}]}}{sep}", 1000 + 2 * i, 1001 + 2 * i)),
            1 => s.push_str(&format!("{{\"i\":{i},\"l\":[{},8]}}{sep}", 1000 + i)),
            // the dropped item first, the qualifying one LAST (the stop decision comes from the last item of an array)
            _ => s.push_str(&format!("{{\"i\":{i},\"l\":[8,{}]}}{sep}", 1000 + i)),
        }
        i += 1;
    }
    s.into_bytes()
}

fn counter_tail() -> Vec<u8> {
    counter_tail_kind(0)
}

/// options that must not change what is read or printed for a clean stream
const NEUTRAL: [&str; 8] = ["", "--on-error=panic", "--on-error=stderr", "--on-error=stdout", "--on-error=ignore", "--regular-expression-cache-size=0", "--utf8-strings", "--style=consise"];

#[derive(Clone, Copy)]
struct Opts {
    set: bool,
    split: bool,
    filter: bool,
    select: bool,
    unique: bool,
    ooa: bool,
}

impl Opts {
    fn from_mask(m: u32) -> Opts {
        Opts { set: m & 1 != 0, split: m & 2 != 0, filter: m & 4 != 0, select: m & 8 != 0, unique: m & 16 != 0, ooa: m & 32 != 0 }
    }
    fn args(&self, s: usize, t: usize) -> Vec<String> {
        let mut a = Vec::new();
        if self.set {
            a.push("--set=z=0".to_string());
            // the macro form next to the variable form (an unused macro changes nothing)
            a.push("--set=@zm=(+ . 1)".to_string());
        }
        if self.split {
            a.push("--split-by=.l".to_string());
        }
        if self.filter {
            // qualifying: objects with i != 0 (before split) / numbers != 8 (after split)
            a.push(if self.set { "--filter=(? (object? .) (!= .i :z) (!= . 8))".to_string() } else { "--filter=(? (object? .) (!= .i 0) (!= . 8))".to_string() });
        }
        if self.select {
            a.push("--select=.=v".to_string());
            a.push("--select=(number? .)=n".to_string());
        }
        if self.unique {
            a.push("--unique".to_string());
        }
        if self.ooa {
            a.push("--only-objects-and-arrays".to_string());
        }
        if s > 0 {
            a.push(format!("--skip={s}"));
        }
        a.push(format!("--take={t}"));
        a
    }
    /// rows produced by one input value (before unique / limits)
    fn rows(&self, v: &V) -> Vec<V> {
        if self.ooa && !matches!(v, V::Obj(_) | V::Arr(_)) {
            return vec![];
        }
        let items: Vec<V> = if self.split {
            match v.get("l") {
                Some(V::Arr(a)) => a.clone(),
                _ => return vec![],
            }
        } else {
            vec![v.clone()]
        };
        let mut out = Vec::new();
        for it in items {
            if self.filter {
                // (? (object? .) (!= .i 0) (!= . 8))
                let keep = match &it {
                    V::Obj(_) => match it.get("i") {
                        Some(x) => *x != V::int(0),
                        None => false,
                    },
                    other => *other != V::int(8),
                };
                if !keep {
                    continue;
                }
            }
            out.push(if self.select {
                V::Obj(vec![("v".into(), it.clone()), ("n".into(), V::Bool(matches!(it, V::Num(_))))])
            } else {
                it
            });
        }
        out
    }
}

struct Expect {
    rows: Vec<V>,
    /// byte offset just past the value that lets jawk stop (None: it can never stop within the horizon)
    stop_after: Option<usize>,
    stop_in_tail: bool,
}

fn expectation(o: &Opts, s: usize, t: usize, stream: &[(V, usize)], prefix_len: usize) -> Expect {
    // stream: (value, end offset) in order
    let need = if t == 0 { s + 1 } else { s + t };
    let mut seen: Vec<V> = Vec::new();
    let mut produced: Vec<V> = Vec::new();
    for (idx, (v, end)) in stream.iter().enumerate() {
        for r in o.rows(v) {
            if o.unique {
                if seen.contains(&r) {
                    continue;
                }
                seen.push(r.clone());
            }
            produced.push(r);
            if produced.len() == need {
                let rows = if t == 0 { vec![] } else { produced[s..].to_vec() };
                return Expect { rows, stop_after: Some(*end), stop_in_tail: idx >= prefix_len };
            }
        }
    }
    Expect { rows: produced.iter().skip(s).cloned().collect(), stop_after: None, stop_in_tail: false }
}

fn run(ctx: &mut Ctx) {
    let alpha = alphabet();
    let tail = counter_tail();
    let tail_vals: Vec<(V, usize)> = json::parse_stream(&tail[..tail.iter().rposition(|b| *b == b'\n').unwrap() + 1])
        .unwrap()
        .into_iter()
        .map(|s| (s.v, s.end))
        .collect();
    let maxp = ctx.tier.pick(2, 4);
    let mut prefixes: Vec<Vec<usize>> = Vec::new();
    crate::explore::seqs_upto(alpha.len(), maxp, |i| prefixes.push(i.to_vec()));
    let (tmax, smax) = (5usize, 3usize);
    let more_tails: Vec<(Vec<u8>, Vec<(V, usize)>)> = (1..5usize)
        .map(|k| {
            let t = counter_tail_kind(k);
            let cut = t.iter().rposition(|b| *b == b'\n' || *b == b' ').unwrap() + 1;
            let vals = json::parse_stream(&t[..cut]).unwrap().into_iter().map(|s| (s.v, s.end)).collect();
            (t, vals)
        })
        .collect();
    for tk in 0..5usize {
    let (tail, tail_vals) = if tk == 0 { (&tail, &tail_vals) } else { (&more_tails[tk - 1].0, &more_tails[tk - 1].1) };
    for (pi, pidx) in prefixes.iter().enumerate() {
        // prefix text: values separated by single spaces, trailing newline
        let mut ptxt = String::new();
        let mut stream: Vec<(V, usize)> = Vec::new();
        let mut noisy = false;
        for i in pidx {
            ptxt.push_str(alpha[*i]);
            match json::parse_one(alpha[*i].as_bytes()) {
                Ok(v) => stream.push((v, ptxt.len())),
                Err(_) => noisy = true,
            }
            ptxt.push(' ');
        }
        let pbytes = ptxt.into_bytes();
        let plen = stream.len();
        for (v, e) in tail_vals.iter() {
            if pbytes.len() + e > HORIZON {
                break;
            }
            stream.push((v.clone(), pbytes.len() + e));
        }
        for mask in 0..64u32 {
            if !ctx.mine() {
                continue;
            }
            let o = Opts::from_mask(mask);
            if (tk == 1 || tk == 2 || tk == 4) && !o.split {
                continue; // without --split-by these tails are the same stream of qualifying objects
            }
            if tk == 1 {
                ctx.guard("tail-arrays-end-in-a-dropped-item");
            }
            if tk == 2 || tk == 4 {
                ctx.guard("stop-decision-from-the-last-item-of-an-array");
            }
            if tk >= 3 {
                ctx.guard("endless-part-without-line-breaks");
            }
            for s in 0..=smax {
                for t in 0..=tmax {
                    let exp = expectation(&o, s, t, &stream, plen);
                    // options that change nothing on a clean stream, one per case in rotation (over the prefixes every
                    // (options, S, T) meets every one of them)
                    let mut neutral = NEUTRAL[(pi + mask as usize + s + 2 * t) % NEUTRAL.len()];
                    if noisy {
                        ctx.guard("malformed-region-before-the-stop");
                        // a malformed region makes the run fail under `panic`: that policy is then replaced by the default
                        if neutral == "--on-error=panic" {
                            neutral = "";
                        }
                    }
                    let mut args = o.args(s, t);
                    if !neutral.is_empty() {
                        args.insert((pi + s) % (args.len() + 1), neutral.to_string());
                    }
                    if neutral == "--on-error=panic" {
                        ctx.guard("error-policy-panic-with-take");
                    }
                    let case = Case {
                        args,
                        input: Input::Stdin(pbytes.clone()),
                        rplan: ReadPlan { endless_tail: Some(tail.clone()), horizon: HORIZON, ..ReadPlan::default() },
                        wplan: WritePlan::default(),
                    };
                    let got = ctx.run(&case);
                    ctx.case_done();
                    ctx.trace_validated();
                    ctx.state(&(mask, s.min(1), t.min(2), exp.stop_in_tail, tk));
                    ctx.transition(&(mask, s, t, plen));
                    let sig = format!("options {:?} {neutral} S={s} T={t}", o.args(0, 0).iter().filter(|a| !a.starts_with("--take")).map(|a| a.split('=').next().unwrap().to_string()).collect::<Vec<_>>());
                    let Some(stop) = exp.stop_after else {
                        // cannot stop (no qualifying rows ever): only termination at the horizon is required
                        ctx.outcome("cannot-stop");
                        if got.res.is_panic() {
                            ctx.violation("panic", &sig, &[case.clone()], "no panic".into(), got.brief());
                        }
                        continue;
                    };
                    if t >= 1 && exp.stop_in_tail {
                        ctx.nontrivial();
                        ctx.guard("stopped-inside-endless-tail");
                    } else if t >= 1 {
                        ctx.guard("stopped-inside-prefix");
                        ctx.nontrivial();
                    }
                    if t == 0 {
                        ctx.guard("take-zero");
                    }
                    if o.split && t % 2 == 1 {
                        ctx.guard("split-stops-mid-array");
                    }
                    if o.unique && pidx.len() >= 2 {
                        ctx.guard("unique-drops-before-limit");
                    }
                    let mut bad: Option<(&str, String)> = None;
                    if got.res.is_panic() {
                        bad = Some(("panic", "Ok".into()));
                    } else if got.horizon_hit {
                        bad = Some(("never-stops-reading", format!("stop after byte {stop} (the value producing row S+T)")));
                    } else if !got.res.is_ok() {
                        bad = Some(("result", "Ok".into()));
                    } else {
                        // diagnostics of a malformed region go to the chosen stream; on stdout they are not rows
                        let rows_only: Vec<u8> = if noisy && neutral == "--on-error=stdout" {
                            got.stdout.split(|b| *b == b'\n').filter(|l| !l.is_empty() && !l.starts_with(b"error:")).flat_map(|l| l.iter().copied().chain(std::iter::once(b'\n'))).collect()
                        } else {
                            got.stdout.clone()
                        };
                        match json::parse_rows(&rows_only, b"\n") {
                            Ok(rows) if rows == exp.rows => {
                                if got.bytes_pulled > stop + 16 {
                                    bad = Some(("reads-too-far", format!("<= {} bytes pulled (value ends at {stop})", stop + 16)));
                                }
                            }
                            Ok(rows) => {
                                bad = Some(("rows", format!("{} rows: {}", exp.rows.len(), exp.rows.iter().map(json::to_text).collect::<Vec<_>>().join(" "))));
                                let _ = rows;
                            }
                            Err(e) => bad = Some(("rows-unreadable", e)),
                        }
                    }
                    match bad {
                        Some((clause, expd)) => {
                            ctx.outcome(clause);
                            ctx.violation(clause, &sig, &[case.clone()], expd, got.brief());
                        }
                        None => ctx.outcome("stopped-in-time"),
                    }
                    ctx.sample(|| serde_json::json!({"args": case.args, "prefix": String::from_utf8_lossy(&pbytes), "then": "endless counter objects", "bytes_pulled": got.bytes_pulled, "stop_after": stop, "stdout": got.out_str()}));
                }
            }
            if ctx.time_up() {
                ctx.cap("stdin sweep");
                return;
            }
        }
    }
    }
    // size thresholds: counters that only wrap late (S, T around 255/256 and 1000)
    for mask in [0u32, 2, 4 | 8, 16, 2 | 4 | 16, 63] {
        for (s, t) in [(0usize, 255usize), (0, 256), (255, 1), (256, 2), (3, 1000), (1000, 3)] {
            if !ctx.mine() {
                continue;
            }
            let o = Opts::from_mask(mask);
            let pbytes: Vec<u8> = Vec::new();
            let stream: Vec<(V, usize)> = tail_vals.iter().take_while(|(_, e)| *e <= HORIZON).cloned().collect();
            let exp = expectation(&o, s, t, &stream, 0);
            let case = Case { args: o.args(s, t), input: Input::Stdin(pbytes.clone()), rplan: ReadPlan { endless_tail: Some(tail.clone()), horizon: HORIZON, ..ReadPlan::default() }, wplan: WritePlan::default() };
            let got = ctx.run(&case);
            ctx.case_done();
            ctx.trace_validated();
            ctx.nontrivial();
            ctx.guard("hundreds-of-rows-before-the-stop");
            let sig = format!("options mask {mask} S={s} T={t}");
            let Some(stop) = exp.stop_after else { continue };
            let rows = json::parse_rows(&got.stdout, b"\n").unwrap_or_default();
            if got.horizon_hit || !got.res.is_ok() {
                ctx.violation("never-stops-reading", &sig, &[case.clone()], format!("stop after byte {stop}"), format!("horizon_hit={} {}", got.horizon_hit, got.res.short()));
            } else if rows != exp.rows {
                ctx.violation("rows", &sig, &[case.clone()], format!("{} rows", exp.rows.len()), format!("{} rows", rows.len()));
            } else if got.bytes_pulled > stop + 16 {
                ctx.violation("reads-too-far", &sig, &[case.clone()], format!("<= {} bytes", stop + 16), format!("{}", got.bytes_pulled));
            }
        }
    }
    ctx.level_done("stdin:all-prefixes-x-option-subsets-x-S-x-T");

    // ---- the file path: a FIFO fed by a writer thread
    let fifo_masks: Vec<u32> = match ctx.tier {
        Tier::Quick => vec![0, 2, 4 | 8, 16, 63],
        Tier::Thorough => (0..64).collect(),
    };
    for mask in fifo_masks {
        for t in [1usize, 3] {
            if !ctx.mine() {
                continue;
            }
            let o = Opts::from_mask(mask);
            let pbytes: Vec<u8> = format!("{} {} ", alpha[1], alpha[0]).into_bytes();
            let d = crate::drive::work_dir();
            let path = d.join(format!("fifo-{mask}-{t}"));
            let cpath = std::ffi::CString::new(path.to_string_lossy().as_bytes()).unwrap();
            let _ = std::fs::remove_file(&path);
            if unsafe { libc::mkfifo(cpath.as_ptr(), 0o600) } != 0 {
                ctx.machinery_error("mkfifo failed".into());
                continue;
            }
            let total: usize = 1 << 20;
            let wp = path.clone();
            let mut data = pbytes.clone();
            while data.len() < total {
                data.extend_from_slice(&tail);
            }
            data.truncate(total);
            unsafe { libc::signal(libc::SIGPIPE, libc::SIG_IGN) };
            let writer = std::thread::spawn(move || {
                use std::io::Write;
                let mut f = match std::fs::OpenOptions::new().write(true).open(&wp) {
                    Ok(f) => f,
                    Err(_) => return 0usize,
                };
                let mut written = 0usize;
                for chunk in data.chunks(512) {
                    match f.write(chunk) {
                        Ok(n) => written += n,
                        Err(_) => break,
                    }
                }
                written
            });
            let mut args = o.args(0, t);
            args.push(path.to_string_lossy().into_owned());
            let case = Case { args, input: Input::Stdin(b"\"stdin must not be read\"".to_vec()), rplan: ReadPlan::default(), wplan: WritePlan::default() };
            crate::crumb::set(&case);
            let got = crate::drive::run_with(&case.args, b"1".to_vec(), &case.rplan, &case.wplan);
            ctx.rep.evaluations += 1;
            let written = writer.join().unwrap_or(0);
            let _ = std::fs::remove_file(&path);
            ctx.case_done();
            ctx.guard("fifo");
            // expectation from the same model
            let mut stream: Vec<(V, usize)> = json::parse_stream(&pbytes).unwrap().into_iter().map(|s| (s.v, s.end)).collect();
            let plen = stream.len();
            for (v, e) in &tail_vals {
                stream.push((v.clone(), pbytes.len() + e));
            }
            let exp = expectation(&o, 0, t, &stream, plen);
            let sig = format!("fifo options mask {mask} T={t}");
            let Some(stop) = exp.stop_after else { continue };
            ctx.nontrivial();
            let limit = stop + 65536 + 8192 + 4096 + 512;
            if got.res.is_panic() || !got.res.is_ok() {
                ctx.violation("fifo-result", &sig, &[case.clone()], "Ok".into(), got.brief());
            } else if written >= total {
                ctx.violation("never-stops-reading", &sig, &[case.clone()], format!("the writer is cut off (EPIPE) after about {stop} bytes"), format!("all {written} bytes were consumed; {}", got.brief()));
            } else if written > limit {
                ctx.violation("reads-too-far", &sig, &[case.clone()], format!("<= {limit} bytes accepted from the writer"), format!("{written}"));
            } else {
                match json::parse_rows(&got.stdout, b"\n") {
                    Ok(rows) if rows == exp.rows => ctx.outcome("fifo-stopped-in-time"),
                    _ => ctx.violation("rows", &sig, &[case.clone()], format!("{:?}", exp.rows.iter().map(json::to_text).collect::<Vec<_>>()), got.brief()),
                }
            }
        }
    }
    ctx.level_done("fifo:file-path");
}
