//! jv — bounded-exhaustive explorer for the yift/jawk properties.
//!   jv check  <id> <tier>          orchestrator (spawns workers, merges, evidence, verdict)
//!   jv worker <id> <tier> <k> <n> <out.json>
//!   jv replay <file>               re-execute a recorded violation, twice, without the explorer
//! exit codes: 0 held, 1 violation(s), 2 machinery failure.

mod crumb;
mod ctx;
mod drive;
mod explore;
mod findings;
mod props;
mod refmodel;

use ctx::{Ctx, Report, Tier, Violation};
use std::collections::{BTreeMap, HashSet};
use std::process::{Command, Stdio};
use std::time::{Duration, Instant};

fn usage() -> ! {
    eprintln!("usage: jv check <id> <quick|thorough> | jv worker <id> <tier> <k> <n> <out> | jv replay <file> | jv list");
    std::process::exit(2)
}

fn tier_of(s: &str) -> Tier {
    match s {
        "quick" => Tier::Quick,
        "thorough" => Tier::Thorough,
        _ => usage(),
    }
}

fn main() {
    // the one environment variable the reference evaluator knows about (`env` / `$`)
    std::env::set_var("JV_FIXED", "fixed-value");
    // a locale other than C: nothing in jawk's documentation makes the order of strings depend on it
    std::env::set_var("LC_ALL", "en_US.UTF-8");
    std::env::set_var("LC_COLLATE", "en_US.UTF-8");
    std::env::set_var("LANG", "en_US.UTF-8");
    // the environment a process inherits need not be text: one variable whose value is not valid UTF-8 (reading any
    // OTHER variable must not care)
    {
        use std::os::unix::ffi::OsStrExt;
        std::env::set_var("JV_NOT_TEXT", std::ffi::OsStr::from_bytes(b"caf\xe9\xff"));
    }
    std::env::remove_var("JV_UNSET");
    let args: Vec<String> = std::env::args().collect();
    if args.len() < 2 {
        usage();
    }
    match args[1].as_str() {
        "check" if args.len() == 4 => std::process::exit(check(&args[2], tier_of(&args[3]))),
        "worker" if args.len() == 7 => worker(&args[2], tier_of(&args[3]), args[4].parse().unwrap(), args[5].parse().unwrap(), &args[6]),
        "replay" if args.len() == 3 => std::process::exit(replay(&args[2])),
        "observe" if args.len() == 3 => observe(&args[2]),
        "list" => {
            for p in props::registry() {
                println!("{}", p.id);
            }
        }
        _ => usage(),
    }
}

fn seed() -> u64 {
    std::env::var("VERIF_SEED").ok().and_then(|s| s.parse::<i64>().ok()).map(|v| v as u64).unwrap_or(0)
}

fn worker(id: &str, tier: Tier, k: u64, n: u64, out: &str) {
    let p = props::registry().into_iter().find(|p| p.id == id).unwrap_or_else(|| usage());
    drive::silence_panics();
    // the second attempt (every run on a thread of its own) is several times slower by construction
    let budget = tier.pick(p.budget_s.0, p.budget_s.1) * if drive::fresh_mode() { 10 } else { 1 };
    crumb::install(&format!("{out}.crumb"), tier.pick(10, 30));
    let mut c = Ctx::new(id, tier, k, n, seed(), budget);
    c.snapshot_path = Some(out.to_string());
    let r = std::panic::catch_unwind(std::panic::AssertUnwindSafe(|| (p.run)(&mut c)));
    if let Err(e) = r {
        let msg = if let Some(s) = e.downcast_ref::<String>() {
            s.clone()
        } else if let Some(s) = e.downcast_ref::<&str>() {
            s.to_string()
        } else {
            "?".into()
        };
        c.machinery_error(format!("harness panic in worker {k}: {msg}"));
    }
    let rep = c.finish();
    std::fs::write(out, serde_json::to_vec(&rep).unwrap()).expect("write worker report");
    let _ = std::fs::remove_dir_all(drive::work_dir());
    let _ = std::fs::remove_file(format!("{out}.crumb"));
}

fn check(id: &str, tier: Tier) -> i32 {
    let t0 = Instant::now();
    let Some(p) = props::registry().into_iter().find(|p| p.id == id) else {
        eprintln!("unknown property {id}");
        return 2;
    };
    let root = std::path::PathBuf::from("/verif");
    let work = root.join("work").join(format!("{}-{}-{}", id, tier.name(), std::process::id()));
    let _ = std::fs::create_dir_all(&work);
    let exe = std::env::current_exe().unwrap();
    let n: u64 = std::env::var("VERIF_WORKERS").ok().and_then(|s| s.parse().ok()).unwrap_or_else(|| {
        std::thread::available_parallelism().map(|n| n.get() as u64).unwrap_or(8).min(16)
    });
    let n = if p.single_worker { 1 } else { n };
    let budget = tier.pick(p.budget_s.0, p.budget_s.1) * if drive::fresh_mode() { 10 } else { 1 };
    let mut children = Vec::new();
    for k in 0..n {
        let out = work.join(format!("w{k}.json"));
        let ch = Command::new(&exe)
            .args(["worker", id, tier.name(), &k.to_string(), &n.to_string(), out.to_str().unwrap()])
            .stdin(Stdio::null())
            .stdout(Stdio::inherit())
            .stderr(Stdio::inherit())
            .spawn();
        match ch {
            Ok(c) => children.push((k, c, out)),
            Err(e) => {
                eprintln!("MACHINERY: cannot spawn worker: {e}");
                return 2;
            }
        }
    }
    let hard_deadline = Instant::now() + Duration::from_secs(budget + 120);
    let mut merged = Report::default();
    let mut states: HashSet<u64> = HashSet::new();
    let mut transitions: HashSet<u64> = HashSet::new();
    let mut vio: BTreeMap<String, Violation> = BTreeMap::new();
    let mut machinery: Vec<String> = Vec::new();
    let mut exhaustive = true;
    for (k, mut ch, out) in children {
        let status = loop {
            match ch.try_wait() {
                Ok(Some(s)) => break Some(s),
                Ok(None) => {
                    if Instant::now() > hard_deadline {
                        let _ = ch.kill();
                        let _ = ch.wait();
                        break None;
                    }
                    std::thread::sleep(Duration::from_millis(20));
                }
                Err(e) => {
                    machinery.push(format!("wait failed: {e}"));
                    break None;
                }
            }
        };
        let crumb_path = format!("{}.crumb", out.to_str().unwrap());
        let ok = matches!(status, Some(s) if s.success());
        if !ok {
            // crash or hang inside the subject: the breadcrumb names the case
            let crumb = std::fs::read(&crumb_path).unwrap_or_default();
            let mut parts = crumb.splitn(2, |b| *b == b'\n');
            let tag = String::from_utf8_lossy(parts.next().unwrap_or(b"")).to_string();
            let body = parts.next().unwrap_or(b"");
            match serde_json::from_slice::<drive::Case>(body) {
                Ok(case) if !tag.is_empty() => {
                    exhaustive = false;
                    let sig = format!("{tag} args={:?}", case.args);
                    vio.insert(
                        format!("abort|{sig}"),
                        Violation {
                            property: id.to_string(),
                            clause: "process-died-or-hung".into(),
                            sig,
                            cases: vec![case],
                            expected: "the run returns".into(),
                            actual: format!("worker {k} ended with {tag} ({status:?})"),
                            size: 0,
                            count: 1,
                        },
                    );
                    merged.violations_total += 1;
                }
                _ => {
                    machinery.push(format!("worker {k} failed ({status:?}) without a usable breadcrumb"));
                    continue;
                }
            }
            // fall through: merge the partial report the worker left behind, if any
            if !out.exists() {
                continue;
            }
        }
        let rep: Report = match std::fs::read(&out).ok().and_then(|b| serde_json::from_slice(&b).ok()) {
            Some(r) => r,
            None => {
                machinery.push(format!("worker {k}: unreadable report"));
                continue;
            }
        };
        merged.evaluations += rep.evaluations;
        merged.cases += rep.cases;
        merged.nontrivial += rep.nontrivial;
        merged.traces += rep.traces;
        merged.violations_total += rep.violations_total;
        states.extend(rep.states);
        transitions.extend(rep.transitions);
        for (k2, v) in rep.outcomes {
            *merged.outcomes.entry(k2).or_insert(0) += v;
        }
        for (k2, v) in rep.guards {
            *merged.guards.entry(k2).or_insert(0) += v;
        }
        for (k2, v) in rep.notes {
            merged.notes.entry(k2).or_insert(v);
        }
        if k == 0 {
            merged.levels_completed = rep.levels_completed.clone();
        } else {
            merged.levels_completed.retain(|l| rep.levels_completed.contains(l));
        }
        if let Some(c) = rep.capped {
            exhaustive = false;
            merged.capped.get_or_insert(c);
        }
        let take = 4usize.saturating_sub(merged.samples.len().min(4)).max(if merged.samples.len() < 12 { 1 } else { 0 });
        merged.samples.extend(rep.samples.into_iter().take(take));
        machinery.extend(rep.machinery_errors);
        for v in rep.violations {
            let key = format!("{}|{}", v.clause, v.sig);
            match vio.get_mut(&key) {
                Some(old) => {
                    old.count += v.count;
                    if v.size < old.size {
                        let c = old.count;
                        *old = v;
                        old.count = c;
                    }
                }
                None => {
                    vio.insert(key, v);
                }
            }
        }
    }
    let _ = std::fs::remove_dir_all(&work);

    // vacuity guards (not evaluated when a worker died inside the subject: its counters are lost,
    // and the crash itself is reported as a violation)
    // ... nor when violations were found: a broken subject may never reach the guarded situation,
    // and the violations are replayable evidence by themselves
    let crashed = vio.keys().any(|k| k.starts_with("abort|"));
    let kf0 = findings::load(&root.join("known_findings.json")).ok();
    let has_unknown = vio.values().any(|v| kf0.as_ref().map(|k| k.matching(id, v).is_none()).unwrap_or(true));
    for g in p.guards.iter().filter(|_| !crashed && !has_unknown) {
        if merged.guards.get(*g).copied().unwrap_or(0) == 0 {
            machinery.push(format!("vacuity guard '{g}' never witnessed"));
        }
    }
    if merged.evaluations == 0 && !crashed {
        machinery.push("no evaluations".into());
    }

    // known findings
    let kf = match findings::load(&root.join("known_findings.json")) {
        Ok(k) => k,
        Err(e) => {
            eprintln!("MACHINERY: known_findings.json: {e}");
            return 2;
        }
    };
    let mut unknown: Vec<Violation> = Vec::new();
    let mut known_lines: BTreeMap<String, u64> = BTreeMap::new();
    for v in vio.into_values() {
        match kf.matching(id, &v) {
            Some(what) => *known_lines.entry(what).or_insert(0) += v.count,
            None => unknown.push(v),
        }
    }
    unknown.sort_by_key(|v| (v.size, v.sig.clone()));

    // replays (re-validated: the smallest case of each signature is re-executed by `jv replay`)
    let rdir = std::env::var("VERIF_REPLAY_DIR").map(std::path::PathBuf::from).unwrap_or_else(|_| root.join("replays")).join(id);
    let _ = std::fs::remove_dir_all(&rdir);
    let mut lines = Vec::new();
    for v in unknown.iter().take(20) {
        let _ = std::fs::create_dir_all(&rdir);
        let name = format!("{:016x}.json", ctx::h64(&(v.clause.clone(), v.sig.clone())));
        let path = rdir.join(name);
        let shell: Vec<String> = v.cases.iter().map(|c| c.shell()).collect();
        let doc = serde_json::json!({
            "property": id, "clause": v.clause, "signature": v.sig, "occurrences": v.count,
            "expected": v.expected, "actual": v.actual, "shell": shell, "cases": v.cases,
        });
        let _ = std::fs::write(&path, serde_json::to_vec_pretty(&doc).unwrap());
        // what each case does today (hash of the full observation), so that `jv replay` can say whether it still does.
        // Done in a child process with a deadline: the case may be one that aborts or hangs the subject.
        if v.clause != "process-died-or-hung" && id != "C20" {
            if let Ok(mut ch) = Command::new(&exe).args(["observe", path.to_str().unwrap()]).stdin(Stdio::null()).stdout(Stdio::null()).stderr(Stdio::null()).spawn() {
                let dl = Instant::now() + Duration::from_secs(20);
                loop {
                    match ch.try_wait() {
                        Ok(Some(_)) => break,
                        Ok(None) if Instant::now() > dl => {
                            let _ = ch.kill();
                            let _ = ch.wait();
                            break;
                        }
                        Ok(None) => std::thread::sleep(Duration::from_millis(10)),
                        Err(_) => break,
                    }
                }
            }
        }
        lines.push(format!("VIOLATION property={} replay={}", id, path.display()));
    }

    for (what, cnt) in &known_lines {
        println!("KNOWN-FINDING: property={id} {what} (x{cnt})");
    }
    let wall = t0.elapsed().as_secs_f64();
    let n_unknown = unknown.len();
    // evidence
    let mut samples = merged.samples.clone();
    if samples.is_empty() {
        samples.push(serde_json::json!("no sample recorded"));
    }
    let nstates = states.len().max(if merged.evaluations > 0 { 1 } else { 0 });
    let ntrans = transitions.len().max(if merged.evaluations > 0 { 1 } else { 0 });
    let evidence = serde_json::json!({
        "property_id": id,
        "tier": tier.name(),
        "seed": seed() as i64,
        "level": p.level,
        "coverage": {
            "evaluations": merged.evaluations,
            "cases": merged.cases,
            "distinct_nontrivial": merged.nontrivial,
            "rule": p.rule,
            "samples": samples,
            "states": nstates,
            "transitions": ntrans,
            "traces_validated_against_impl": merged.traces,
            "exhaustive": exhaustive && machinery.is_empty(),
            "capped": merged.capped,
            "bound_levels_completed": merged.levels_completed,
            "outcome_classes": merged.outcomes.len(),
            "outcomes": merged.outcomes,
            "guards_witnessed": merged.guards,
            "workers": n,
            "notes": merged.notes,
            "known_findings_matched": known_lines,
            "violation_signatures": n_unknown,
            "violating_executions": merged.violations_total,
            "explanation": p.explanation,
        },
        "assumptions": p.assumptions,
        "wall_s": wall,
        "violations": n_unknown,
    });
    let edir = std::env::var("VERIF_EVIDENCE_DIR").map(std::path::PathBuf::from).unwrap_or_else(|_| root.join("evidence"));
    let _ = std::fs::create_dir_all(&edir);
    if let Err(e) = std::fs::write(edir.join(format!("{id}.json")), serde_json::to_vec_pretty(&evidence).unwrap()) {
        eprintln!("MACHINERY: cannot write evidence: {e}");
        return 2;
    }
    println!(
        "{id} {}: evaluations={} cases={} nontrivial={} states={} transitions={} traces={} outcomes={} levels={:?} capped={:?} wall={:.1}s",
        tier.name(), merged.evaluations, merged.cases, merged.nontrivial, nstates, ntrans, merged.traces,
        merged.outcomes.len(), merged.levels_completed, merged.capped, wall
    );
    // A probe diverged: the subject keeps state between the runs of one thread, so the runs of this attempt did not see
    // what a process per run sees. Start again with every run on a thread of its own; that attempt decides.
    if !drive::fresh_mode() && machinery.iter().any(|m| m.starts_with("nondeterministic observation (the repetition ran on a fresh thread)")) {
        eprintln!("NOTE: the subject keeps state between runs in one thread (e.g. {}); repeating the whole check with every run on a thread of its own", drive::trunc(&machinery[0], 240));
        let args: Vec<String> = std::env::args().skip(1).collect();
        return match Command::new(&exe).args(&args).env("JV_FRESH_THREAD", "1").status() {
            Ok(st) => st.code().unwrap_or(2),
            Err(e) => {
                eprintln!("MACHINERY: cannot start the second attempt: {e}");
                2
            }
        };
    }
    // The driver owns every source of nondeterminism, so two different observations of one case come from the
    // subject. Alone that cannot be attributed to the property (machinery exit); next to established violations
    // it is reported as a note and the violations stand.
    if n_unknown > 0 && !machinery.is_empty() && machinery.iter().all(|m| m.starts_with("nondeterministic observation")) {
        for m in machinery.iter().take(3) {
            eprintln!("NOTE: the subject is not deterministic under a fixed input: {}", drive::trunc(m, 300));
        }
        machinery.clear();
    }
    if !machinery.is_empty() {
        for m in machinery.iter().take(10) {
            eprintln!("MACHINERY: {m}");
        }
        // a machinery failure is never a verdict; but real violations found are still shown
        for l in &lines {
            println!("{l}");
        }
        return 2;
    }
    if n_unknown > 0 {
        for l in &lines {
            println!("{l}");
        }
        if n_unknown > lines.len() {
            println!("({} further violation signatures not listed)", n_unknown - lines.len());
        }
        return 1;
    }
    0
}

/// add `observed` (one hash of the full observation per case) to a replay file
fn observe(file: &str) {
    drive::silence_panics();
    let Some(mut doc) = std::fs::read(file).ok().and_then(|b| serde_json::from_slice::<serde_json::Value>(&b).ok()) else { return };
    let cases: Vec<drive::Case> = serde_json::from_value(doc["cases"].clone()).unwrap_or_default();
    let observed: Vec<String> = cases.iter().map(|c| format!("{:016x}", ctx::h64(&serde_json::to_string(&drive::on_fresh_threads(|| drive::run(c))).unwrap_or_default()))).collect();
    doc["observed"] = serde_json::json!(observed);
    let _ = std::fs::write(file, serde_json::to_vec_pretty(&doc).unwrap());
    let _ = std::fs::remove_dir_all(drive::work_dir());
}

fn replay(file: &str) -> i32 {
    drive::silence_panics();
    let doc: serde_json::Value = match std::fs::read(file).ok().and_then(|b| serde_json::from_slice(&b).ok()) {
        Some(d) => d,
        None => {
            eprintln!("cannot read {file}");
            return 2;
        }
    };
    println!("property : {}", doc["property"]);
    println!("clause   : {}", doc["clause"]);
    println!("signature: {}", doc["signature"]);
    println!("expected : {}", doc["expected"].as_str().unwrap_or(""));
    println!("recorded : {}", doc["actual"].as_str().unwrap_or(""));
    let cases: Vec<drive::Case> = serde_json::from_value(doc["cases"].clone()).unwrap_or_default();
    let mut stable = true;
    let recorded: Vec<String> = doc["observed"].as_array().map(|a| a.iter().map(|x| x.as_str().unwrap_or("").to_string()).collect()).unwrap_or_default();
    let mut same_as_recorded = !recorded.is_empty();
    for (i, c) in cases.iter().enumerate() {
        // every run on a thread of its own, as a real run is a process of its own
        let a = drive::on_fresh_threads(|| drive::run(c));
        let b = drive::on_fresh_threads(|| drive::run(c));
        println!("case {i}: {}", c.shell());
        println!("  run 1: {}", a.brief());
        println!("  run 2: {}", b.brief());
        if a != b {
            stable = false;
        }
        let h = format!("{:016x}", ctx::h64(&serde_json::to_string(&a).unwrap_or_default()));
        if recorded.get(i).map(|r| r.is_empty() || *r != h).unwrap_or(true) {
            same_as_recorded = false;
        }
    }
    let _ = std::fs::remove_dir_all(drive::work_dir());
    if !stable {
        eprintln!("MACHINERY: replay is not deterministic");
        return 2;
    }
    // verdict of a replay: re-run the property's own oracle on exactly these cases
    let id = doc["property"].as_str().unwrap_or("");
    if let Some(p) = props::registry().into_iter().find(|p| p.id == id) {
        if let Some(f) = p.recheck {
            let still = f(&cases, doc["clause"].as_str().unwrap_or(""));
            println!("oracle on replay: {}", if still { "VIOLATED" } else { "holds" });
            return if still { 1 } else { 0 };
        }
    }
    // no case-level oracle for this property: the replay holds iff the recorded cases behave exactly as recorded
    if same_as_recorded {
        println!("replay: every case behaves exactly as recorded (violation reproduces)");
        1
    } else {
        println!("replay: the recorded behaviour is no longer observed (re-run ./check {id} to get a current verdict)");
        0
    }
}
