//! Independent RFC 4180 reader, "skip initial space" dialect: one blank after a comma is not
//! part of the field. Records end at the given record separator. Written from the RFC.

#[derive(Clone, Debug, PartialEq)]
pub struct Field {
    pub quoted: bool,
    pub text: String,
}

/// Read `data` into records. Errors name the byte offset.
pub fn read(data: &str, record_sep: &str) -> Result<Vec<Vec<Field>>, String> {
    let b: Vec<char> = data.chars().collect();
    let sep: Vec<char> = record_sep.chars().collect();
    let at_sep = |i: usize| -> bool { !sep.is_empty() && i + sep.len() <= b.len() && b[i..i + sep.len()] == sep[..] };
    let mut records = Vec::new();
    let mut i = 0;
    while i < b.len() {
        let mut rec: Vec<Field> = Vec::new();
        loop {
            // one field
            if i < b.len() && b[i] == '"' {
                i += 1;
                let mut text = String::new();
                loop {
                    if i >= b.len() {
                        return Err(format!("unterminated quoted field in record {}", records.len()));
                    }
                    if b[i] == '"' {
                        if i + 1 < b.len() && b[i + 1] == '"' {
                            text.push('"');
                            i += 2;
                        } else {
                            i += 1;
                            break;
                        }
                    } else {
                        text.push(b[i]);
                        i += 1;
                    }
                }
                rec.push(Field { quoted: true, text });
                // after a quoted field only a comma, the record separator or the end may follow
                if i < b.len() && b[i] != ',' && !at_sep(i) {
                    return Err(format!("garbage after the closing quote at char {i} in record {}", records.len()));
                }
            } else {
                let mut text = String::new();
                while i < b.len() && b[i] != ',' && !at_sep(i) {
                    if b[i] == '"' {
                        return Err(format!("quote inside an unquoted field at char {i} in record {}", records.len()));
                    }
                    text.push(b[i]);
                    i += 1;
                }
                rec.push(Field { quoted: false, text });
            }
            if i < b.len() && b[i] == ',' {
                i += 1;
                if i < b.len() && b[i] == ' ' {
                    i += 1; // skip initial space
                }
                if i >= b.len() {
                    rec.push(Field { quoted: false, text: String::new() });
                    break;
                }
                continue;
            }
            break;
        }
        if at_sep(i) {
            i += sep.len();
        } else if i < b.len() {
            return Err(format!("record {} not terminated at char {i}", records.len()));
        } else {
            return Err(format!("last record {} lacks the record separator", records.len()));
        }
        records.push(rec);
    }
    Ok(records)
}

#[cfg(test)]
mod tests {
    use super::*;
    #[test]
    fn basics() {
        let r = read("\"a\", \"b\"\n1, \"x,\"\"y\"\"\nz\", \n", "\n").unwrap();
        assert_eq!(r.len(), 2);
        assert_eq!(r[0], vec![Field { quoted: true, text: "a".into() }, Field { quoted: true, text: "b".into() }]);
        assert_eq!(r[1][1].text, "x,\"y\"\nz");
        assert_eq!(r[1][2], Field { quoted: false, text: "".into() });
        assert!(read("\"a\"b\n", "\n").is_err());
        assert!(read("a\"b\n", "\n").is_err());
    }
}
