//! Reference JSON: strict RFC 8259 reader (with byte spans), value type,
//! printers. Written from the RFC, independent of /repo/src.

use std::fmt::Write as _;

#[derive(Clone, Debug, PartialEq)]
pub enum Num {
    /// exact integer (every integer literal in [-2^63, 2^64), and every double
    /// with zero fraction inside (-2^63, 2^64))
    Int(i128),
    /// anything else, as the nearest double
    F(f64),
}

#[derive(Clone, Debug, PartialEq)]
pub enum V {
    Null,
    Bool(bool),
    Num(Num),
    Str(String),
    Arr(Vec<V>),
    Obj(Vec<(String, V)>),
}

pub const I_MIN: i128 = -(1i128 << 63);
pub const U_MAX: i128 = (1i128 << 64) - 1;

impl Num {
    pub fn from_f64(f: f64) -> Num {
        if f.is_finite() && f.fract() == 0.0 && f > -9.3e18 && f < 1.85e19 {
            let i = f as i128;
            if i > I_MIN && i <= U_MAX && (i as f64) == f {
                return Num::Int(i);
            }
        }
        Num::F(f)
    }
    /// `text` must be a syntactically valid JSON number.
    pub fn from_literal(text: &str) -> Num {
        let pure_int = !text.bytes().any(|b| b == b'.' || b == b'e' || b == b'E');
        if pure_int {
            let digits = text.trim_start_matches('-');
            if digits.len() <= 20 {
                if let Ok(i) = text.parse::<i128>() {
                    if (I_MIN..=U_MAX).contains(&i) {
                        return Num::Int(i);
                    }
                }
            }
        }
        let f: f64 = text.parse().expect("valid number literal");
        Num::from_f64(f)
    }
    pub fn as_f64(&self) -> f64 {
        match self {
            Num::Int(i) => *i as f64,
            Num::F(f) => *f,
        }
    }
    pub fn is_finite(&self) -> bool {
        match self {
            Num::Int(_) => true,
            Num::F(f) => f.is_finite(),
        }
    }
    /// total order by numeric value (Int vs F compared exactly)
    pub fn cmp_value(&self, other: &Num) -> std::cmp::Ordering {
        use std::cmp::Ordering::*;
        match (self, other) {
            (Num::Int(a), Num::Int(b)) => a.cmp(b),
            (Num::F(a), Num::F(b)) => a.partial_cmp(b).unwrap_or(Equal),
            (Num::Int(a), Num::F(b)) => cmp_int_f(*a, *b),
            (Num::F(a), Num::Int(b)) => cmp_int_f(*b, *a).reverse(),
        }
    }
}

fn cmp_int_f(a: i128, b: f64) -> std::cmp::Ordering {
    use std::cmp::Ordering::*;
    if b >= 1.8446744073709552e19 {
        return Less;
    }
    if b <= -9.223372036854775808e18 {
        return if a == I_MIN && b == -9.223372036854775808e18 { Equal } else { Greater };
    }
    let fl = b.floor();
    let fi = fl as i128;
    match a.cmp(&fi) {
        Equal => {
            if b > fl {
                Less
            } else {
                Equal
            }
        }
        o => o,
    }
}

impl V {
    pub fn int(i: i128) -> V {
        V::Num(Num::Int(i))
    }
    pub fn s(x: &str) -> V {
        V::Str(x.to_string())
    }
    pub fn obj(members: Vec<(&str, V)>) -> V {
        V::Obj(members.into_iter().map(|(k, v)| (k.to_string(), v)).collect())
    }
    pub fn type_rank(&self) -> u8 {
        match self {
            V::Null => 0,
            V::Bool(false) => 1,
            V::Bool(true) => 2,
            V::Str(_) => 3,
            V::Num(_) => 4,
            V::Obj(_) => 5,
            V::Arr(_) => 6,
        }
    }
    pub fn type_name(&self) -> &'static str {
        match self {
            V::Null => "null",
            V::Bool(_) => "boolean",
            V::Num(_) => "number",
            V::Str(_) => "string",
            V::Arr(_) => "array",
            V::Obj(_) => "object",
        }
    }
    pub fn get(&self, key: &str) -> Option<&V> {
        match self {
            V::Obj(m) => m.iter().find(|(k, _)| k == key).map(|(_, v)| v),
            _ => None,
        }
    }
    pub fn depth(&self) -> usize {
        match self {
            V::Arr(a) => 1 + a.iter().map(|v| v.depth()).max().unwrap_or(0),
            V::Obj(o) => 1 + o.iter().map(|(_, v)| v.depth()).max().unwrap_or(0),
            _ => 0,
        }
    }
    /// equality where object member order is ignored (member sets equal)
    pub fn eq_unordered(&self, other: &V) -> bool {
        match (self, other) {
            (V::Arr(a), V::Arr(b)) => {
                a.len() == b.len() && a.iter().zip(b).all(|(x, y)| x.eq_unordered(y))
            }
            (V::Obj(a), V::Obj(b)) => {
                a.len() == b.len()
                    && a.iter().all(|(k, v)| match other.get(k) {
                        Some(w) => v.eq_unordered(w),
                        None => false,
                    })
            }
            _ => self == other,
        }
    }
}

// ------------------------------------------------------------------ printing

pub fn esc_str(out: &mut String, s: &str) {
    out.push('"');
    for ch in s.chars() {
        match ch {
            '"' => out.push_str("\\\""),
            '\\' => out.push_str("\\\\"),
            c if (c as u32) < 0x20 => {
                let _ = write!(out, "\\u{:04x}", c as u32);
            }
            c => out.push(c),
        }
    }
    out.push('"');
}

pub fn num_text(n: &Num) -> String {
    match n {
        Num::Int(i) => format!("{i}"),
        Num::F(f) => {
            // shortest round-trip representation; valid JSON for finite values
            let s = format!("{f:e}");
            s
        }
    }
}

/// canonical concise text (raw UTF-8, minimal escapes)
pub fn to_text(v: &V) -> String {
    let mut s = String::new();
    write_text(&mut s, v);
    s
}

pub fn write_text(out: &mut String, v: &V) {
    match v {
        V::Null => out.push_str("null"),
        V::Bool(true) => out.push_str("true"),
        V::Bool(false) => out.push_str("false"),
        V::Num(n) => out.push_str(&num_text(n)),
        V::Str(s) => esc_str(out, s),
        V::Arr(a) => {
            out.push('[');
            for (i, x) in a.iter().enumerate() {
                if i > 0 {
                    out.push(',');
                }
                write_text(out, x);
            }
            out.push(']');
        }
        V::Obj(o) => {
            out.push('{');
            for (i, (k, x)) in o.iter().enumerate() {
                if i > 0 {
                    out.push(',');
                }
                esc_str(out, k);
                out.push(':');
                write_text(out, x);
            }
            out.push('}');
        }
    }
}

// ------------------------------------------------------------------ strict reader

#[derive(Clone, Debug, PartialEq)]
pub struct PErr {
    pub at: usize,
    pub what: &'static str,
}

pub struct P<'a> {
    pub b: &'a [u8],
    pub i: usize,
    pub max_depth: usize,
    /// if set, every (state, byte) step is recorded: state = (mode, top of stack, depth<=3)
    pub trace: Option<&'a mut dyn FnMut(u32, u8)>,
}

const M_VALUE: u32 = 1;
const M_STR: u32 = 2;
const M_ESC: u32 = 3;
const M_HEX: u32 = 4;
const M_NUM: u32 = 5;
const M_LIT: u32 = 6;
const M_AFTER: u32 = 7;
const M_KEY: u32 = 8;
const M_COLON: u32 = 9;

impl<'a> P<'a> {
    pub fn new(b: &'a [u8]) -> Self {
        P { b, i: 0, max_depth: 512, trace: None }
    }
    #[inline]
    fn step(&mut self, mode: u32, ctx: u32) {
        if let Some(t) = self.trace.as_mut() {
            let byte = if self.i < self.b.len() { self.b[self.i] } else { 0 };
            t(mode | (ctx << 8), byte);
        }
    }
    pub fn ws(&mut self) {
        while self.i < self.b.len() && matches!(self.b[self.i], b' ' | b'\n' | b'\t' | b'\r') {
            self.i += 1;
        }
    }
    fn err<T>(&self, what: &'static str) -> Result<T, PErr> {
        Err(PErr { at: self.i, what })
    }
    pub fn value(&mut self, depth: usize, ctx: u32) -> Result<V, PErr> {
        if depth > self.max_depth {
            return self.err("too deep");
        }
        self.step(M_VALUE, ctx);
        if self.i >= self.b.len() {
            return self.err("eof");
        }
        match self.b[self.i] {
            b'n' => self.lit(b"null", V::Null, ctx),
            b't' => self.lit(b"true", V::Bool(true), ctx),
            b'f' => self.lit(b"false", V::Bool(false), ctx),
            b'"' => Ok(V::Str(self.string(ctx)?)),
            b'-' | b'0'..=b'9' => self.number(ctx),
            b'[' => {
                self.i += 1;
                self.ws();
                let mut items = Vec::new();
                if self.i < self.b.len() && self.b[self.i] == b']' {
                    self.i += 1;
                    return Ok(V::Arr(items));
                }
                let c2 = ((ctx << 2) | 1) & 0xffff;
                loop {
                    self.ws();
                    items.push(self.value(depth + 1, c2)?);
                    self.ws();
                    self.step(M_AFTER, c2);
                    if self.i >= self.b.len() {
                        return self.err("eof in array");
                    }
                    match self.b[self.i] {
                        b',' => self.i += 1,
                        b']' => {
                            self.i += 1;
                            return Ok(V::Arr(items));
                        }
                        _ => return self.err("expected , or ]"),
                    }
                }
            }
            b'{' => {
                self.i += 1;
                self.ws();
                let mut members: Vec<(String, V)> = Vec::new();
                if self.i < self.b.len() && self.b[self.i] == b'}' {
                    self.i += 1;
                    return Ok(V::Obj(members));
                }
                let c2 = ((ctx << 2) | 2) & 0xffff;
                loop {
                    self.ws();
                    self.step(M_KEY, c2);
                    if self.i >= self.b.len() {
                        return self.err("eof in object");
                    }
                    if self.b[self.i] != b'"' {
                        return self.err("expected string key");
                    }
                    let k = self.string(c2)?;
                    self.ws();
                    self.step(M_COLON, c2);
                    if self.i >= self.b.len() {
                        return self.err("eof in object");
                    }
                    if self.b[self.i] != b':' {
                        return self.err("expected :");
                    }
                    self.i += 1;
                    self.ws();
                    let v = self.value(depth + 1, c2)?;
                    members.push((k, v));
                    self.ws();
                    self.step(M_AFTER, c2);
                    if self.i >= self.b.len() {
                        return self.err("eof in object");
                    }
                    match self.b[self.i] {
                        b',' => self.i += 1,
                        b'}' => {
                            self.i += 1;
                            return Ok(V::Obj(members));
                        }
                        _ => return self.err("expected , or }"),
                    }
                }
            }
            _ => self.err("unexpected byte"),
        }
    }
    fn lit(&mut self, word: &[u8], v: V, ctx: u32) -> Result<V, PErr> {
        for w in word {
            self.step(M_LIT, ctx);
            if self.i >= self.b.len() {
                return self.err("eof in literal");
            }
            if self.b[self.i] != *w {
                return self.err("bad literal");
            }
            self.i += 1;
        }
        Ok(v)
    }
    fn digits(&mut self, ctx: u32) -> usize {
        let s = self.i;
        while self.i < self.b.len() && self.b[self.i].is_ascii_digit() {
            self.step(M_NUM, ctx);
            self.i += 1;
        }
        self.i - s
    }
    fn number(&mut self, ctx: u32) -> Result<V, PErr> {
        let s = self.i;
        if self.b[self.i] == b'-' {
            self.step(M_NUM, ctx);
            self.i += 1;
        }
        if self.i >= self.b.len() {
            return self.err("eof in number");
        }
        if self.b[self.i] == b'0' {
            self.step(M_NUM, ctx);
            self.i += 1;
        } else if self.b[self.i].is_ascii_digit() {
            self.digits(ctx);
        } else {
            return self.err("digit expected");
        }
        if self.i < self.b.len() && self.b[self.i] == b'.' {
            self.step(M_NUM, ctx);
            self.i += 1;
            if self.digits(ctx) == 0 {
                return self.err("fraction digits expected");
            }
        }
        if self.i < self.b.len() && (self.b[self.i] == b'e' || self.b[self.i] == b'E') {
            self.step(M_NUM, ctx);
            self.i += 1;
            if self.i < self.b.len() && (self.b[self.i] == b'+' || self.b[self.i] == b'-') {
                self.step(M_NUM, ctx);
                self.i += 1;
            }
            if self.digits(ctx) == 0 {
                return self.err("exponent digits expected");
            }
        }
        let text = std::str::from_utf8(&self.b[s..self.i]).unwrap();
        Ok(V::Num(Num::from_literal(text)))
    }
    fn hex4(&mut self, ctx: u32) -> Result<u32, PErr> {
        let mut x = 0u32;
        for _ in 0..4 {
            self.step(M_HEX, ctx);
            if self.i >= self.b.len() {
                return self.err("eof in \\u");
            }
            let c = self.b[self.i];
            let d = match c {
                b'0'..=b'9' => c - b'0',
                b'a'..=b'f' => c - b'a' + 10,
                b'A'..=b'F' => c - b'A' + 10,
                _ => return self.err("hex digit expected"),
            };
            x = x * 16 + d as u32;
            self.i += 1;
        }
        Ok(x)
    }
    fn string(&mut self, ctx: u32) -> Result<String, PErr> {
        // at opening quote
        self.i += 1;
        let mut out: Vec<u8> = Vec::new();
        loop {
            self.step(M_STR, ctx);
            if self.i >= self.b.len() {
                return self.err("eof in string");
            }
            let c = self.b[self.i];
            match c {
                b'"' => {
                    self.i += 1;
                    return match String::from_utf8(out) {
                        Ok(s) => Ok(s),
                        Err(_) => self.err("invalid utf-8 in string"),
                    };
                }
                b'\\' => {
                    self.i += 1;
                    self.step(M_ESC, ctx);
                    if self.i >= self.b.len() {
                        return self.err("eof in escape");
                    }
                    let e = self.b[self.i];
                    self.i += 1;
                    match e {
                        b'"' => out.push(b'"'),
                        b'\\' => out.push(b'\\'),
                        b'/' => out.push(b'/'),
                        b'b' => out.push(8),
                        b'f' => out.push(12),
                        b'n' => out.push(b'\n'),
                        b'r' => out.push(b'\r'),
                        b't' => out.push(b'\t'),
                        b'u' => {
                            let mut cp = self.hex4(ctx)?;
                            if (0xD800..0xDC00).contains(&cp) {
                                if self.i + 1 < self.b.len()
                                    && self.b[self.i] == b'\\'
                                    && self.b[self.i + 1] == b'u'
                                {
                                    self.i += 2;
                                    let lo = self.hex4(ctx)?;
                                    if !(0xDC00..0xE000).contains(&lo) {
                                        return self.err("lone surrogate");
                                    }
                                    cp = 0x10000 + ((cp - 0xD800) << 10) + (lo - 0xDC00);
                                } else {
                                    return self.err("lone surrogate");
                                }
                            } else if (0xDC00..0xE000).contains(&cp) {
                                return self.err("lone surrogate");
                            }
                            let ch = char::from_u32(cp).unwrap();
                            let mut buf = [0u8; 4];
                            out.extend_from_slice(ch.encode_utf8(&mut buf).as_bytes());
                        }
                        _ => {
                            self.i -= 1;
                            return self.err("bad escape");
                        }
                    }
                }
                c if c < 0x20 => return self.err("raw control character in string"),
                c => {
                    out.push(c);
                    self.i += 1;
                }
            }
        }
    }
}

/// Parse exactly one JSON text (surrounding whitespace allowed).
pub fn parse_one(b: &[u8]) -> Result<V, PErr> {
    let mut p = P::new(b);
    p.ws();
    let v = p.value(0, 0)?;
    p.ws();
    if p.i != b.len() {
        return p.err("trailing bytes");
    }
    Ok(v)
}

pub fn parse_str(s: &str) -> V {
    parse_one(s.as_bytes()).unwrap_or_else(|e| panic!("reference literal {s:?} invalid: {e:?}"))
}

#[derive(Clone, Debug)]
pub struct Spanned {
    pub v: V,
    pub start: usize,
    pub end: usize,
}

/// Parse a stream of JSON values separated by optional whitespace.
/// Ok(values) if the whole input is a clean stream, Err((values so far, error)).
pub fn parse_stream(b: &[u8]) -> Result<Vec<Spanned>, (Vec<Spanned>, PErr)> {
    let mut p = P::new(b);
    let mut out = Vec::new();
    loop {
        p.ws();
        if p.i >= b.len() {
            return Ok(out);
        }
        let start = p.i;
        match p.value(0, 0) {
            Ok(v) => {
                // two numbers / literals may not touch each other: `12` is one number, `truefalse` is an error
                let end = p.i;
                if end < b.len() {
                    let prev = b[end - 1];
                    let next = b[end];
                    let prev_closed = matches!(prev, b'}' | b']' | b'"');
                    // ... but a minus sign can only start a number, so it ends the token in front of it (`1e2-3`, `true-1`)
                    let next_opens = matches!(next, b'{' | b'[' | b'"' | b' ' | b'\n' | b'\t' | b'\r' | b'-');
                    if !prev_closed && !next_opens {
                        out.push(Spanned { v, start, end });
                        return Err((out, PErr { at: end, what: "tokens touch" }));
                    }
                }
                out.push(Spanned { v, start, end });
            }
            Err(e) => return Err((out, e)),
        }
    }
}

/// Parse `rows` separated by the exact separator string `sep` (each row one JSON text,
/// the separator after every row). Returns None if the framing is wrong.
pub fn parse_rows(out: &[u8], sep: &[u8]) -> Result<Vec<V>, String> {
    let mut rows = Vec::new();
    let mut i = 0;
    while i < out.len() {
        let mut p = P::new(&out[i..]);
        // a row may start with whitespace only in pretty style; not at top level
        match p.value(0, 0) {
            Ok(v) => {
                let end = i + p.i;
                if out.len() < end + sep.len() || &out[end..end + sep.len()] != sep {
                    return Err(format!("row {} not followed by the row separator at byte {}", rows.len(), end));
                }
                rows.push(v);
                i = end + sep.len();
            }
            Err(e) => {
                return Err(format!("row {} is not valid JSON: {} at byte {}", rows.len(), e.what, i + e.at));
            }
        }
    }
    Ok(rows)
}

#[cfg(test)]
mod tests {
    use super::*;
    #[test]
    fn basics() {
        assert_eq!(parse_str("1e2"), V::int(100));
        assert_eq!(parse_str("1.0"), V::int(1));
        assert_eq!(parse_str("18446744073709551615"), V::int(U_MAX));
        assert!(matches!(parse_str("18446744073709551616"), V::Num(Num::F(_))));
        assert!(parse_one(b"01").is_err());
        assert!(parse_one(b"\"\\ud83d\"").is_err());
        assert_eq!(parse_str("\"\\ud83d\\ude03\""), V::s("\u{1f603}"));
        assert!(parse_stream(b"1 2[3]\"x\"{}").is_ok());
        assert!(parse_stream(b"truefalse").is_err());
    }
}
