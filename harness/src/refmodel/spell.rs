//! Conforming spellings of a JSON value as a template of sites with menus
//! (alternative 0 is the default spelling), plus the shared value universes.

use super::json::{Num, V};

#[derive(Clone, Debug)]
pub struct Site {
    pub alts: Vec<String>,
}

#[derive(Clone, Debug, Default)]
pub struct Template {
    pub sites: Vec<Site>,
}

impl Template {
    fn fixed(&mut self, s: &str) {
        self.sites.push(Site { alts: vec![s.to_string()] });
    }
    fn menu(&mut self, alts: Vec<String>) {
        self.sites.push(Site { alts });
    }
    pub fn default_text(&self) -> String {
        self.sites.iter().map(|s| s.alts[0].as_str()).collect()
    }
    /// indices of sites that have alternatives
    pub fn open_sites(&self) -> Vec<usize> {
        self.sites.iter().enumerate().filter(|(_, s)| s.alts.len() > 1).map(|(i, _)| i).collect()
    }
    pub fn render(&self, choice: &[(usize, usize)]) -> String {
        let mut out = String::new();
        for (i, s) in self.sites.iter().enumerate() {
            let alt = choice.iter().find(|(si, _)| *si == i).map(|(_, a)| *a).unwrap_or(0);
            out.push_str(&s.alts[alt]);
        }
        out
    }
    /// all renderings with exactly k deviations
    pub fn deviations(&self, k: usize, mut f: impl FnMut(String)) {
        let open = self.open_sites();
        if k == 0 {
            f(self.default_text());
            return;
        }
        for combo in crate::explore::combinations(open.len(), k) {
            let radix: Vec<usize> = combo.iter().map(|ci| self.sites[open[*ci]].alts.len() - 1).collect();
            crate::explore::product(&radix, |idx| {
                let choice: Vec<(usize, usize)> = combo.iter().zip(idx).map(|(ci, a)| (open[*ci], a + 1)).collect();
                f(self.render(&choice));
            });
        }
    }
    /// the rendering in which every insignificant-whitespace site holds `ws` and everything else its default
    pub fn render_ws(&self, ws: &str) -> String {
        self.sites.iter().map(|s| if s.alts.len() == WS_MENU.len() && s.alts[0].is_empty() && s.alts[1] == " " { ws } else { s.alts[0].as_str() }).collect()
    }
    pub fn count_deviations(&self, k: usize) -> u64 {
        let mut n = 0;
        self.deviations(k, |_| n += 1);
        n
    }
}

pub const WS_MENU: [&str; 5] = ["", " ", "\n", "\t", "\r\n"];

fn ws_site(t: &mut Template) {
    t.menu(WS_MENU.iter().map(|s| s.to_string()).collect());
}

pub fn char_menu(c: char) -> Vec<String> {
    let cp = c as u32;
    let mut alts: Vec<String> = Vec::new();
    let short = match c {
        '"' => Some("\\\""),
        '\\' => Some("\\\\"),
        '/' => Some("\\/"),
        '\u{08}' => Some("\\b"),
        '\u{0c}' => Some("\\f"),
        '\n' => Some("\\n"),
        '\r' => Some("\\r"),
        '\t' => Some("\\t"),
        _ => None,
    };
    let must_escape = c == '"' || c == '\\' || cp < 0x20;
    if !must_escape {
        alts.push(c.to_string());
    }
    if let Some(s) = short {
        alts.push(s.to_string());
    }
    if cp < 0x10000 && !(0xD800..0xE000).contains(&cp) {
        let lo = format!("\\u{cp:04x}");
        let up = format!("\\u{cp:04X}");
        alts.push(lo.clone());
        if up != lo {
            alts.push(up);
        }
    }
    alts
}

fn string_sites(t: &mut Template, s: &str) {
    t.fixed("\"");
    for c in s.chars() {
        t.menu(char_menu(c));
    }
    t.fixed("\"");
}

/// value-preserving spellings of a number (first = default)
pub fn number_menu(n: &Num) -> Vec<String> {
    match n {
        Num::Int(i) => {
            let d = format!("{i}");
            let mut v = vec![d.clone()];
            if i.unsigned_abs() < (1u128 << 53) {
                v.push(format!("{d}.0"));
                v.push(format!("{d}e0"));
                v.push(format!("{d}E0"));
                v.push(format!("{d}E+0"));
                v.push(format!("{d}e-0"));
                v.push(format!("{d}.000e00"));
                if *i == 0 {
                    v.push("-0".to_string());
                    v.push("-0.0".to_string());
                    v.push("0e5".to_string());
                    v.push("-0E-3".to_string());
                }
                if *i != 0 {
                    v.push(format!("{d}0e-1"));
                    v.push(format!("{d}00E-2"));
                }
                if *i != 0 && i % 10 == 0 {
                    let q = i / 10;
                    v.push(format!("{q}e1"));
                    v.push(format!("{q}E+1"));
                    v.push(format!("{q}e01"));
                    v.push(format!("{q}.0E1"));
                }
            }
            v
        }
        Num::F(f) => {
            // derive from the shortest round-trip digits
            let sci = format!("{f:e}"); // like -1.5e0, 5e-324
            let (mant, exp) = sci.split_once('e').unwrap();
            let exp: i32 = exp.parse().unwrap();
            let neg = mant.starts_with('-');
            let m = mant.trim_start_matches('-');
            let digits: String = m.chars().filter(|c| *c != '.').collect();
            let e10 = exp - (digits.len() as i32 - 1); // value = digits * 10^e10
            let sign = if neg { "-" } else { "" };
            let mut v = Vec::new();
            // default: plain scientific with lower-case e
            v.push(format!("{sign}{m}e{exp}"));
            v.push(format!("{sign}{m}E{exp}"));
            if exp >= 0 {
                v.push(format!("{sign}{m}e+{exp}"));
                v.push(format!("{sign}{m}E+0{exp}"));
            } else {
                v.push(format!("{sign}{m}E-0{}", -exp));
            }
            v.push(format!("{sign}{digits}e{e10}"));
            v.push(format!("{sign}{digits}0E{}", e10 - 1));
            if m.contains('.') {
                v.push(format!("{sign}{m}0e{exp}"));
            } else {
                v.push(format!("{sign}{m}.0e{exp}"));
            }
            // plain decimal when short
            if (-8..=20).contains(&exp) {
                let plain = if e10 >= 0 {
                    format!("{sign}{digits}{}", "0".repeat(e10 as usize))
                } else {
                    let point = digits.len() as i32 + e10;
                    if point > 0 {
                        format!("{sign}{}.{}", &digits[..point as usize], &digits[point as usize..])
                    } else {
                        format!("{sign}0.{}{}", "0".repeat((-point) as usize), digits)
                    }
                };
                if plain.contains('.') {
                    v.push(format!("{plain}0"));
                }
                v.insert(0, plain); // plain is the default when available
            }
            v.dedup();
            v
        }
    }
}

pub fn template(v: &V) -> Template {
    let mut t = Template::default();
    build(&mut t, v);
    t
}

fn build(t: &mut Template, v: &V) {
    match v {
        V::Null => t.fixed("null"),
        V::Bool(true) => t.fixed("true"),
        V::Bool(false) => t.fixed("false"),
        V::Num(n) => t.menu(number_menu(n)),
        V::Str(s) => string_sites(t, s),
        V::Arr(a) => {
            t.fixed("[");
            ws_site(t);
            for (i, x) in a.iter().enumerate() {
                if i > 0 {
                    ws_site(t);
                    t.fixed(",");
                    ws_site(t);
                }
                build(t, x);
            }
            if !a.is_empty() {
                ws_site(t);
            }
            t.fixed("]");
        }
        V::Obj(o) => {
            t.fixed("{");
            ws_site(t);
            for (i, (k, x)) in o.iter().enumerate() {
                if i > 0 {
                    ws_site(t);
                    t.fixed(",");
                    ws_site(t);
                }
                string_sites(t, k);
                ws_site(t);
                t.fixed(":");
                ws_site(t);
                build(t, x);
            }
            if !o.is_empty() {
                ws_site(t);
            }
            t.fixed("}");
        }
    }
}

fn p(s: &str) -> V {
    super::json::parse_str(s)
}

/// boundary numbers named in DESIGN §3.5 (as literals)
pub fn boundary_numbers() -> Vec<&'static str> {
    vec![
        "0", "-0", "1", "-1", "10", "100", "1.5", "-2.25", "0.1",
        "9007199254740991", "9007199254740992", "9007199254740993", "-9007199254740993",
        "9223372036854775807", "9223372036854775808", "18446744073709551615", "18446744073709551616",
        "-9223372036854775808", "-9223372036854775809", "1e19", "1.8446744073709552e19",
        "5e-324", "1.7976931348623157e308", "1e-7", "123456789012345680000", "2.5e-10",
        "-1e19", "-10000000000000000000", "-12345678901234567890", "-1.8446744073709550e19", "-18446744073709551615", "-1e20", "12345678901234567890", "1e18", "-1e18", "-4611686018427387904.0",
    ]
}

pub fn string_atoms() -> Vec<&'static str> {
    vec![
        "", "a", "ab", "\"", "\\", "/", "\u{08}", "\u{0c}", "\n", "\r", "\t", "\u{00}", "\u{1f}", "\u{7f}",
        "\u{80}", "\u{e9}", "\u{d7ff}", "\u{e000}", "\u{ffff}", "\u{10000}", "\u{1f603}", "\u{10ffff}",
        "a\"", "\\n", "é/", "😃a", " ", "null", "1",
        // characters that other software treats specially: the replacement character, a non-character, the BOM,
        // the line separator
        "\u{fffd}", "a\u{fffd}b", "\u{fffe}", "\u{feff}", "\u{2028}",
    ]
}

/// U1: the C01 value universe
pub fn universe1() -> Vec<V> {
    let mut u: Vec<V> = vec![V::Null, V::Bool(true), V::Bool(false)];
    for n in boundary_numbers() {
        u.push(p(n));
    }
    for s in string_atoms() {
        u.push(V::s(s));
    }
    for t in [
        "[]", "{}", "[1]", "[null,true]", "[[]]", "[{}]", "{\"a\":1}", "{\"a\":[]}", "{\"b\":2,\"a\":1}",
        "{\"\":\"\"}", "[\"a\",\"b\"]", "[[1,2],[3]]", "{\"a\":{\"b\":{\"c\":null}}}", "[1.5,\"x\",false]",
        "{\"k\":[1,{\"z\":\"é\"}]}", "[[[]]]", "{\"é\":1,\"\\n\":2}",
    ] {
        u.push(p(t));
    }
    u
}

/// 12-value core of U1
pub fn core12() -> Vec<V> {
    ["null", "true", "0", "-1", "1.5", "\"\"", "\"a\"", "\"\\\"\"", "[]", "{}", "[1]", "{\"a\":1}"]
        .iter()
        .map(|s| p(s))
        .collect()
}

pub fn nested_chain(depth: usize, array: bool) -> V {
    let mut v = V::int(1);
    for _ in 0..depth {
        v = if array { V::Arr(vec![v]) } else { V::Obj(vec![("a".into(), v)]) };
    }
    v
}

/// The position grid: atoms of every kind (also ones that print with an exponent, or look like the start of another
/// token) placed at every position of every nesting shape. A shape is a sequence of wrappers applied innermost first:
/// the only / first / last / middle element of an array, the only / first / last / middle member of an object.
pub const GRID_WRAPPERS: usize = 8;
pub fn grid_atoms() -> Vec<V> {
    ["null", "true", "false", "0", "-1.5", "1e300", "12345678901234567890", "2.5e-9", "\"\"", "\"s\"", "\"tru\"", "[]", "{}"].iter().map(|s| p(s)).collect()
}
/// member names for the object wrappers of a shape: ordinary, empty, spelled like a literal or a number, with a blank,
/// not ASCII, holding a quote, holding a line feed
pub fn grid_names() -> Vec<&'static str> {
    vec!["a", "", "true", "null", "1", "-1.5e3", "a b", "\u{e9}", "\"", "k\n"]
}
pub fn grid_value(shape: &[usize], name: &str, atom: &V) -> V {
    let mut v = atom.clone();
    for w in shape {
        let n = || name.to_string();
        v = match w {
            0 => V::Arr(vec![v]),
            1 => V::Arr(vec![v, V::int(7)]),
            2 => V::Arr(vec![V::s("f"), v]),
            3 => V::Arr(vec![V::int(7), v, V::s("f")]),
            4 => V::Obj(vec![(n(), v)]),
            5 => V::Obj(vec![(n(), v), ("z".into(), V::int(7))]),
            6 => V::Obj(vec![("y".into(), V::s("f")), (n(), v)]),
            _ => V::Obj(vec![("y".into(), V::int(7)), (n(), v), ("z".into(), V::s("f"))]),
        };
    }
    v
}

/// May `left` be immediately followed by `right` with no separator?
pub fn may_touch(left: &str, right: &str) -> bool {
    let l = left.as_bytes()[left.len() - 1];
    let r = right.as_bytes()[0];
    // a minus sign can only start a number: it ends whatever number or literal stands in front of it (`1e2-3`, `true-1`)
    matches!(l, b'}' | b']' | b'"') || matches!(r, b'{' | b'[' | b'"') || (r == b'-' && (l.is_ascii_digit() || l.is_ascii_lowercase()))
}

#[cfg(test)]
mod tests {
    use super::*;
    use crate::refmodel::json::parse_one;
    #[test]
    fn all_spellings_conform() {
        for v in universe1() {
            let t = template(&v);
            for k in 0..=1 {
                t.deviations(k, |s| {
                    let got = parse_one(s.as_bytes()).unwrap_or_else(|e| panic!("{s:?}: {e:?}"));
                    assert_eq!(got, v, "{s:?}");
                });
            }
        }
    }
}
