//! Oracle self-check: every example of the function documentation (harness/data/docs.json,
//! extracted by tools/extract_docs.py) is evaluated by the reference evaluator and must give
//! the documented result. A disagreement is a machinery error, never a verdict.

use super::eval::{self, Env};
use super::expr;
use super::json::{self, V};

pub const DOCS: &str = include_str!("../../data/docs.json");

pub struct Summary {
    pub examples: usize,
    pub agreed: usize,
    pub tainted: usize,
    pub skipped: usize,
    pub mismatches: Vec<String>,
}

pub fn run() -> Summary {
    let docs: serde_json::Value = serde_json::from_str(DOCS).expect("docs.json");
    let mut s = Summary { examples: 0, agreed: 0, tainted: 0, skipped: 0, mismatches: vec![] };
    for f in docs.as_array().unwrap() {
        let name = f["name"].as_str().unwrap();
        if super::ftable::EXCLUDED.contains(&name) {
            continue;
        }
        for ex in f["examples"].as_array().unwrap() {
            s.examples += 1;
            if ex["validator"].as_bool().unwrap_or(false) {
                s.skipped += 1;
                continue;
            }
            let args: Vec<&str> = ex["args"].as_array().unwrap().iter().map(|a| a.as_str().unwrap()).collect();
            let text = format!("({} {})", name, args.join(" "));
            let e = match expr::parse(&text) {
                Ok(e) => e,
                Err(err) => {
                    s.mismatches.push(format!("{text}: reference reader: {err}"));
                    continue;
                }
            };
            let input = match ex["input"].as_str() {
                Some(t) => json::parse_str(t),
                None => V::Null,
            };
            let expected: Option<V> = match ex["output"].as_str() {
                Some(t) if ex["has_output"].as_bool().unwrap_or(false) => match json::parse_one(t.as_bytes()) {
                    Ok(v) => Some(v),
                    Err(_) => {
                        s.skipped += 1;
                        continue;
                    }
                },
                _ => None,
            };
            match eval::eval(&e, &Env::of(input)) {
                Err(t) => {
                    s.tainted += 1;
                    if std::env::var("JV_SHOW_TAINT").is_ok() {
                        eprintln!("TAINT {text}: {}", t.0);
                    }
                }
                Ok(got) => {
                    // the documented value is the "implementation side" here
                    if eval::agrees_opt(&got, &expected, true) {
                        s.agreed += 1;
                    } else {
                        s.mismatches.push(format!("{text}: documented {} reference {}", eval::show_opt(&expected), eval::show_opt(&got)));
                    }
                }
            }
        }
    }
    s
}

#[cfg(test)]
mod tests {
    #[test]
    fn documentation_examples_agree_with_the_reference_evaluator() {
        let s = super::run();
        for m in &s.mismatches {
            eprintln!("MISMATCH {m}");
        }
        eprintln!("examples={} agreed={} tainted={} skipped={}", s.examples, s.agreed, s.tainted, s.skipped);
        assert!(s.mismatches.is_empty());
        assert!(s.agreed > 350);
    }
}
