//! Reference pipeline: the documented stages as pure list transformations, in the
//! documented order
//!   only-objects-and-arrays -> set -> split -> filter -> select* -> unique -> sort* -> skip/take -> group|merge -> print
//! Written from the CLI help text; independent of /repo/src.

use super::eval::{self, Env, Taint};
use super::expr::{self, E};
use super::json::{self, V};
use std::cmp::Ordering;

#[derive(Clone, Debug, PartialEq)]
pub enum SetVal {
    Var(V),
    Macro(E),
}

#[derive(Clone, Debug, PartialEq)]
pub enum Group {
    By(E),
    Merge,
}

#[derive(Clone, Debug, PartialEq, Default)]
pub struct Config {
    pub sets: Vec<(String, SetVal)>,
    pub split: Option<E>,
    pub filter: Option<E>,
    pub selects: Vec<(E, String)>,
    pub unique: bool,
    /// (key, descending, spelling of the direction as written on the command line)
    pub sorts: Vec<(E, bool, &'static str)>,
    pub skip: u64,
    pub take: Option<u64>,
    pub group: Option<Group>,
    pub ooa: bool,
}

#[derive(Clone, Debug)]
pub struct Row {
    pub env: Env,
}

impl Row {
    /// the value that is printed / collected for this row
    pub fn build(&self) -> V {
        if self.env.sel.is_empty() {
            self.env.input.clone()
        } else {
            let mut m: Vec<(String, V)> = Vec::new();
            for (k, v) in &self.env.sel {
                if let Some(v) = v {
                    match m.iter_mut().find(|(kk, _)| kk == k) {
                        Some(slot) => slot.1 = v.clone(),
                        None => m.push((k.clone(), v.clone())),
                    }
                }
            }
            V::Obj(m)
        }
    }
    /// what --unique compares
    fn key(&self) -> Vec<Option<V>> {
        if self.env.sel.is_empty() {
            vec![Some(self.env.input.clone())]
        } else {
            self.env.sel.iter().map(|(_, v)| v.clone()).collect()
        }
    }
}

fn key_eq(a: &[Option<V>], b: &[Option<V>]) -> bool {
    a.len() == b.len()
        && a.iter().zip(b).all(|(x, y)| match (x, y) {
            (None, None) => true,
            (Some(x), Some(y)) => eval::veq(x, y),
            _ => false,
        })
}

impl Config {
    pub fn has_stateful(&self) -> bool {
        self.unique || !self.sorts.is_empty() || self.skip > 0 || self.take.is_some() || self.group.is_some()
    }

    /// rows after split/filter/select (the record-local part), per input value
    pub fn local_rows(&self, input: &V) -> Result<Vec<Row>, Taint> {
        if self.ooa && !matches!(input, V::Obj(_) | V::Arr(_)) {
            return Ok(vec![]);
        }
        let mut env = Env::of(input.clone());
        for (n, s) in &self.sets {
            match s {
                SetVal::Var(v) => env.vars.push((n.clone(), v.clone())),
                SetVal::Macro(m) => env.macros.push((n.clone(), m.clone())),
            }
        }
        let mut rows: Vec<Env> = Vec::new();
        match &self.split {
            None => rows.push(env),
            Some(s) => {
                if let Some(V::Arr(items)) = eval::eval(s, &env)? {
                    for it in items {
                        rows.push(env.descend(it));
                    }
                }
            }
        }
        let mut out = Vec::new();
        for mut r in rows {
            if let Some(f) = &self.filter {
                if eval::eval(f, &r)? != Some(V::Bool(true)) {
                    continue;
                }
            }
            for (e, name) in &self.selects {
                let v = eval::eval(e, &r)?;
                if let Some(x) = &v {
                    if eval::has_mark(x) {
                        return Err(Taint("spelling-dependent selected value".into()));
                    }
                }
                r.sel.push((name.clone(), v));
            }
            out.push(Row { env: r });
        }
        Ok(out)
    }

    /// rows after unique and sort (before skip/take)
    pub fn ordered_rows(&self, inputs: &[V]) -> Result<Vec<Row>, Taint> {
        let mut rows = Vec::new();
        for i in inputs {
            rows.extend(self.local_rows(i)?);
        }
        if self.unique {
            let mut kept: Vec<Row> = Vec::new();
            let mut keys: Vec<Vec<Option<V>>> = Vec::new();
            for r in rows {
                let k = r.key();
                if !keys.iter().any(|q| key_eq(q, &k)) {
                    keys.push(k);
                    kept.push(r);
                }
            }
            rows = kept;
        }
        if !self.sorts.is_empty() {
            let mut keyed: Vec<(Vec<V>, Row)> = Vec::new();
            'row: for r in rows {
                let mut ks = Vec::new();
                for (e, _, _) in &self.sorts {
                    match eval::eval(e, &r.env)? {
                        Some(k) => {
                            if eval::has_mark(&k) {
                                return Err(Taint("spelling-dependent sort key".into()));
                            }
                            ks.push(k)
                        }
                        None => continue 'row,
                    }
                }
                keyed.push((ks, r));
            }
            // stable insertion sort, lexicographic, first key most significant
            let mut out: Vec<(Vec<V>, Row)> = Vec::new();
            for it in keyed {
                let mut pos = out.len();
                while pos > 0 {
                    let mut o = Ordering::Equal;
                    for (j, (_, desc, _)) in self.sorts.iter().enumerate() {
                        let c = match eval::vcmp(&out[pos - 1].0[j], &it.0[j]) {
                            Some(c) => c,
                            None => return Err(Taint("order of two unequal objects".into())),
                        };
                        let c = if *desc { c.reverse() } else { c };
                        if c != Ordering::Equal {
                            o = c;
                            break;
                        }
                    }
                    if o == Ordering::Greater {
                        pos -= 1;
                    } else {
                        break;
                    }
                }
                out.insert(pos, it);
            }
            rows = out.into_iter().map(|(_, r)| r).collect();
        }
        Ok(rows)
    }

    /// rows after skip/take
    pub fn limited_rows(&self, inputs: &[V]) -> Result<Vec<Row>, Taint> {
        let rows = self.ordered_rows(inputs)?;
        let s = (self.skip as usize).min(rows.len());
        let e = match self.take {
            Some(t) => s.saturating_add(t as usize).min(rows.len()),
            None => rows.len(),
        };
        Ok(rows[s..e].to_vec())
    }

    /// the values printed, in order
    pub fn output(&self, inputs: &[V]) -> Result<Vec<V>, Taint> {
        let rows = self.limited_rows(inputs)?;
        match &self.group {
            None => Ok(rows.iter().map(|r| r.build()).collect()),
            Some(Group::Merge) => Ok(vec![V::Arr(rows.iter().map(|r| r.build()).collect())]),
            Some(Group::By(e)) => {
                let mut groups: Vec<(String, Vec<V>)> = Vec::new();
                for r in &rows {
                    if let Some(V::Str(k)) = eval::eval(e, &r.env)? {
                        if eval::has_mark(&V::Str(k.clone())) {
                            return Err(Taint("spelling-dependent group key".into()));
                        }
                        match groups.iter_mut().find(|(kk, _)| *kk == k) {
                            Some((_, g)) => g.push(r.build()),
                            None => groups.push((k, vec![r.build()])),
                        }
                    }
                }
                Ok(vec![V::Obj(groups.into_iter().map(|(k, g)| (k, V::Arr(g))).collect())])
            }
        }
    }

    /// command-line arguments in canonical order (always `--opt=value`)
    pub fn args(&self) -> Vec<String> {
        let mut a = Vec::new();
        if self.ooa {
            a.push("--only-objects-and-arrays".to_string());
        }
        for (n, s) in &self.sets {
            match s {
                SetVal::Var(v) => a.push(format!("--set={n}={}", expr::const_text(v))),
                SetVal::Macro(m) => a.push(format!("--set=@{n}={}", expr::show(m))),
            }
        }
        if let Some(s) = &self.split {
            a.push(format!("--split-by={}", expr::show(s)));
        }
        if let Some(f) = &self.filter {
            a.push(format!("--filter={}", expr::show(f)));
        }
        for (e, n) in &self.selects {
            a.push(format!("--select={}={n}", expr::show(e)));
        }
        if self.unique {
            a.push("--unique".to_string());
        }
        for (e, _, dir) in &self.sorts {
            if dir.is_empty() {
                a.push(format!("--sort-by={}", expr::show(e)));
            } else {
                a.push(format!("--sort-by={}={dir}", expr::show(e)));
            }
        }
        if self.skip > 0 {
            a.push(format!("--skip={}", self.skip));
        }
        if let Some(t) = self.take {
            a.push(format!("--take={t}"));
        }
        match &self.group {
            None => {}
            Some(Group::Merge) => a.push("--merge".to_string()),
            Some(Group::By(e)) => a.push(format!("--group-by={}", expr::show(e))),
        }
        a
    }

    /// canonical description of the reference-model state after a history (for the `states` counter):
    /// the rows each stateful stage holds
    pub fn state_after(&self, inputs: &[V]) -> String {
        match self.ordered_rows(inputs) {
            Ok(rows) => {
                let s: Vec<String> = rows.iter().map(|r| json::to_text(&r.build())).collect();
                format!("u{}|s{}|k{}|t{:?}|g{}|{}", self.unique as u8, self.sorts.len(), self.skip, self.take, self.group.is_some() as u8, s.join(";"))
            }
            Err(_) => "tainted".into(),
        }
    }
}

/// input text for a sequence of values (one per line)
pub fn input_text(vals: &[V]) -> Vec<u8> {
    let mut s = String::new();
    for v in vals {
        s.push_str(&expr::const_text(v));
        s.push('\n');
    }
    s.into_bytes()
}

/// stdout of a JSON-style run, read back row by row
pub fn read_rows(stdout: &[u8]) -> Result<Vec<V>, String> {
    json::parse_rows(stdout, b"\n")
}
