//! Reference evaluator for the expression language, written from the function
//! documentation (harness/data/docs.json = the add_description_line/add_example texts)
//! and the selection help. Independent of /repo/src.
//!
//! `Err(Taint)` means: the documentation leaves this case open (or the case is outside
//! the domain the property quantifies over); the case is executed (C05) but not compared.

use super::decimal::Dec;
use super::expr::{Step, E};
use super::ftable;
use super::json::{self, Num, V};
use std::cmp::Ordering;

#[derive(Clone, Debug, PartialEq)]
pub struct Taint(pub String);

pub type R = Result<Option<V>, Taint>;

fn taint<T>(why: &str) -> Result<T, Taint> {
    Err(Taint(why.to_string()))
}

/// strings produced by number-as-string functions: value is what counts, not the spelling
pub const NAS_MARK: char = '\u{1}';
/// strings produced by `stringify`: JSON text, compared by re-reading
pub const JSON_MARK: char = '\u{2}';

#[derive(Clone, Debug, Default)]
pub struct Env {
    pub input: V,
    /// enclosing inputs, nearest first
    pub parents: Vec<V>,
    pub vars: Vec<(String, V)>,
    pub macros: Vec<(String, E)>,
    pub sel: Vec<(String, Option<V>)>,
    /// inside a functional argument (selected names are not specified there)
    pub in_lambda: bool,
    pub depth: usize,
}

impl Default for V {
    fn default() -> Self {
        V::Null
    }
}

impl Env {
    pub fn of(input: V) -> Env {
        Env { input, ..Default::default() }
    }
    pub fn with_input(&self, v: V) -> Env {
        let mut parents = Vec::with_capacity(self.parents.len() + 1);
        parents.push(self.input.clone());
        parents.extend(self.parents.iter().cloned());
        Env { input: v, parents, vars: self.vars.clone(), macros: self.macros.clone(), sel: self.sel.clone(), in_lambda: true, depth: self.depth }
    }
    /// next pipe stage / split row: new input, previous input becomes the parent; selected names kept
    pub fn descend(&self, v: V) -> Env {
        let mut e = self.with_input(v);
        e.in_lambda = self.in_lambda;
        e
    }
}

// ------------------------------------------------------------------ order and equality

pub fn has_mark(v: &V) -> bool {
    match v {
        V::Str(s) => s.starts_with(NAS_MARK) || s.starts_with(JSON_MARK),
        V::Arr(a) => a.iter().any(has_mark),
        V::Obj(o) => o.iter().any(|(k, x)| k.starts_with(NAS_MARK) || k.starts_with(JSON_MARK) || has_mark(x)),
        _ => false,
    }
}

/// value equality (numbers by value, object members as a set)
pub fn veq(a: &V, b: &V) -> bool {
    a.eq_unordered(b)
}

/// The documented total order: null < false < true < strings < numbers < objects < arrays.
/// `None` where the documentation fixes nothing (two unequal objects).
pub fn vcmp(a: &V, b: &V) -> Option<Ordering> {
    let (ra, rb) = (rank(a), rank(b));
    if ra != rb {
        return Some(ra.cmp(&rb));
    }
    match (a, b) {
        (V::Null, V::Null) => Some(Ordering::Equal),
        (V::Bool(x), V::Bool(y)) => Some(x.cmp(y)),
        (V::Str(x), V::Str(y)) => Some(x.chars().cmp(y.chars())),
        (V::Num(x), V::Num(y)) => Some(x.cmp_value(y)),
        (V::Arr(x), V::Arr(y)) => {
            for (p, q) in x.iter().zip(y.iter()) {
                match vcmp(p, q)? {
                    Ordering::Equal => {}
                    o => return Some(o),
                }
            }
            Some(x.len().cmp(&y.len()))
        }
        (V::Obj(_), V::Obj(_)) => {
            // identical objects are equal; for any other pair - also one that differs only in the order of its
            // members - the documentation fixes no order
            if a == b {
                Some(Ordering::Equal)
            } else {
                None
            }
        }
        _ => unreachable!(),
    }
}

fn rank(v: &V) -> u8 {
    match v {
        V::Null => 0,
        V::Bool(_) => 1,
        V::Str(_) => 2,
        V::Num(_) => 3,
        V::Obj(_) => 4,
        V::Arr(_) => 5,
    }
}

fn cmp_t(a: &V, b: &V) -> Result<Ordering, Taint> {
    match vcmp(a, b) {
        Some(o) => Ok(o),
        None => taint("order of two unequal objects"),
    }
}

/// stable sort of items by key under the documented order
fn stable_sort_by<T: Clone>(items: &[(Option<V>, T)]) -> Result<Vec<T>, Taint> {
    // insertion sort: stable, and every comparison may taint
    let mut out: Vec<(Option<V>, T)> = Vec::with_capacity(items.len());
    for it in items {
        let mut pos = out.len();
        while pos > 0 {
            let o = match (&out[pos - 1].0, &it.0) {
                (None, None) => Ordering::Equal,
                (None, Some(_)) => Ordering::Less,
                (Some(_), None) => Ordering::Greater,
                (Some(x), Some(y)) => cmp_t(x, y)?,
            };
            if o == Ordering::Greater {
                pos -= 1;
            } else {
                break;
            }
        }
        out.insert(pos, it.clone());
    }
    Ok(out.into_iter().map(|(_, t)| t).collect())
}

// ------------------------------------------------------------------ helpers

fn as_count(v: &Option<V>) -> Option<usize> {
    match v {
        Some(V::Num(Num::Int(i))) if *i >= 0 => Some((*i).min(usize::MAX as i128) as usize),
        _ => None,
    }
}

const SAFE: i128 = 1i128 << 53;

/// a number usable in double arithmetic without the reading "numbers are doubles" mattering
fn arith(v: &Option<V>) -> Result<Option<f64>, Taint> {
    match v {
        Some(V::Num(Num::Int(i))) => {
            // beyond 2^53 only integers that a double holds exactly (e.g. -2^63): the operation is then the correctly
            // rounded one on exact operands, and numv() below leaves results of large magnitude open anyway
            if i.abs() > SAFE && ((*i as f64) as i128 != *i || i.abs() > (1i128 << 63)) {
                taint("integer beyond 2^53 in arithmetic")
            } else {
                Ok(Some(*i as f64))
            }
        }
        Some(V::Num(Num::F(f))) => Ok(Some(*f)),
        _ => Ok(None),
    }
}

fn numv(f: f64) -> R {
    if !f.is_finite() {
        return taint("non-finite arithmetic result");
    }
    if f.abs() > 9.0e15 {
        return taint("arithmetic result beyond the interoperable range");
    }
    Ok(Some(V::Num(Num::from_f64(f))))
}

fn b(x: bool) -> R {
    Ok(Some(V::Bool(x)))
}

fn chars_of(s: &str) -> Vec<char> {
    s.chars().collect()
}

pub fn canonical(name: &str) -> Option<&'static ftable::F> {
    ftable::FUNCTIONS.iter().find(|f| f.name == name || f.aliases.contains(&name))
}

/// `stringify`: the one-line JSON text. Returned unmarked when the spelling is beyond doubt.
fn stringify_value(v: &V) -> String {
    let plain = match v {
        V::Null | V::Bool(_) => true,
        V::Num(Num::Int(i)) => i.abs() < SAFE,
        V::Str(s) => s.chars().all(|c| (' '..='~').contains(&c) && c != '"' && c != '\\' && c != '/'),
        _ => false,
    };
    let t = json::to_text(v);
    if plain {
        t
    } else {
        format!("{JSON_MARK}{t}")
    }
}

fn unmark_nas(s: &str) -> &str {
    s.strip_prefix(NAS_MARK).unwrap_or(s)
}

fn nas_arg(v: &Option<V>) -> Option<Dec> {
    match v {
        Some(V::Str(s)) => {
            let t = unmark_nas(s);
            // generated domain: [+-]digits[.digits][e[+-]digits]; other spellings the implementation may accept are outside
            Dec::parse(t)
        }
        _ => None,
    }
}

fn nas_out(d: &Dec) -> R {
    Ok(Some(V::Str(format!("{NAS_MARK}{}", d.show()))))
}

/// is this string in the number-as-string domain the generators use?
fn nas_domain(v: &Option<V>) -> Result<(), Taint> {
    if let Some(V::Str(s)) = v {
        let t = unmark_nas(s);
        if Dec::parse(t).is_none() {
            // strings with digits that are not in the plain decimal grammar (".5", "5.", "1_000", " 1", "0x10", "inf", "nan" ...)
            let suspicious = t.bytes().any(|c| c.is_ascii_digit()) || ["inf", "nan", "infinity"].contains(&t.trim().to_ascii_lowercase().trim_start_matches(['+', '-']));
            if suspicious {
                return taint("number-as-string spelling outside the generated grammar");
            }
        }
    }
    Ok(())
}

// ------------------------------------------------------------------ evaluator

pub fn eval(e: &E, env: &Env) -> R {
    if env.depth > 200 {
        return taint("recursion");
    }
    match e {
        E::Const(v) => Ok(Some(v.clone())),
        E::Path { ups, steps } => {
            let base = if *ups == 0 {
                &env.input
            } else if *ups <= env.parents.len() {
                &env.parents[*ups - 1]
            } else {
                return taint("^ beyond the chain of enclosing inputs");
            };
            let mut cur = base;
            for s in steps {
                match (s, cur) {
                    (Step::Key(k), V::Obj(_)) => match cur.get(k) {
                        Some(v) => cur = v,
                        None => return Ok(None),
                    },
                    (Step::Idx(i), V::Arr(a)) => match a.get(*i) {
                        Some(v) => cur = v,
                        None => return Ok(None),
                    },
                    _ => return Ok(None),
                }
            }
            Ok(Some(cur.clone()))
        }
        E::Var(n) => Ok(env.vars.iter().rev().find(|(k, _)| k == n).map(|(_, v)| v.clone())),
        E::Mac(n) => match env.macros.iter().rev().find(|(k, _)| k == n) {
            None => Ok(None),
            Some((_, body)) => {
                let mut e2 = env.clone();
                e2.depth += 1;
                eval(body, &e2)
            }
        },
        E::Sel(n) => {
            if env.in_lambda {
                return taint("/name/ inside a functional argument");
            }
            Ok(env.sel.iter().find(|(k, _)| k == n).and_then(|(_, v)| v.clone()))
        }
        E::Ctx(_) => taint("input context"),
        E::Call(name, args) => {
            let Some(f) = canonical(name) else { return taint("unknown function") };
            if args.len() < f.min || args.len() > f.max {
                return taint("arity");
            }
            call(f.name, args, env)
        }
    }
}

fn ev(args: &[E], i: usize, env: &Env) -> R {
    match args.get(i) {
        Some(a) => eval(a, env),
        None => Ok(None),
    }
}

fn no_marks(vs: &[&Option<V>]) -> Result<(), Taint> {
    for v in vs {
        if let Some(x) = v {
            if has_mark(x) {
                return taint("spelling-dependent string flows into another function");
            }
        }
    }
    Ok(())
}

fn call(name: &str, args: &[E], env: &Env) -> R {
    // ---- functions that control evaluation themselves
    match name {
        "?" => {
            return match ev(args, 0, env)? {
                Some(V::Bool(true)) => ev(args, 1, env),
                Some(V::Bool(false)) => ev(args, 2, env),
                _ => Ok(None),
            };
        }
        "default" => {
            for i in 0..args.len() {
                if let Some(v) = ev(args, i, env)? {
                    return Ok(Some(v));
                }
            }
            return Ok(None);
        }
        "|" => {
            let mut cur: Option<Env> = None;
            for a in args {
                let here = cur.as_ref().unwrap_or(env);
                match eval(a, here)? {
                    // selected names inside a pipe stage are as unspecified as inside a functional argument
                    Some(v) => cur = Some(here.with_input(v)),
                    None => return Ok(None),
                }
            }
            return Ok(cur.map(|c| c.input));
        }
        "set" => {
            let n = ev(args, 0, env)?;
            let v = ev(args, 1, env)?;
            return match (n, v) {
                (Some(V::Str(n)), Some(v)) => {
                    no_marks(&[&Some(v.clone())])?;
                    let mut e2 = env.clone();
                    e2.vars.push((n, v));
                    eval(&args[2], &e2)
                }
                (Some(V::Str(_)), None) => taint("set with an absent value"),
                _ => Ok(None),
            };
        }
        "define" => {
            return match ev(args, 0, env)? {
                Some(V::Str(n)) => {
                    let mut e2 = env.clone();
                    e2.macros.push((n, args[1].clone()));
                    eval(&args[2], &e2)
                }
                _ => Ok(None),
            };
        }
        ":" => {
            return match ev(args, 0, env)? {
                Some(V::Str(n)) => eval(&E::Var(n), env),
                _ => Ok(None),
            }
        }
        "@" => {
            return match ev(args, 0, env)? {
                Some(V::Str(n)) => eval(&E::Mac(n), env),
                _ => Ok(None),
            }
        }
        "and" | "or" => {
            let mut vals = Vec::new();
            for i in 0..args.len() {
                vals.push(ev(args, i, env)?);
            }
            let nonbool = vals.iter().any(|v| !matches!(v, Some(V::Bool(_))));
            let decisive = vals.iter().any(|v| *v == Some(V::Bool(name == "or")));
            if nonbool && decisive {
                return taint("and/or: both documented rules apply");
            }
            if nonbool {
                return Ok(None);
            }
            return b(if name == "and" { !decisive } else { decisive });
        }
        _ => {}
    }
    // ---- functional arguments: first argument evaluated here, lambda per element
    let lambda_fns = [
        "filter", "map", "flat_map", "fold", "group_by", "sort_by", "filter_keys", "filter_values", "map_keys", "map_values", "sort_by_values_by",
        "\"sort_by\"",
    ];
    if lambda_fns.contains(&name) {
        let first = ev(args, 0, env)?;
        no_marks(&[&first])?;
        return functional(name, first, args, env);
    }
    // ---- ordinary functions: all arguments evaluated
    let mut a: Vec<Option<V>> = Vec::with_capacity(args.len());
    for i in 0..args.len() {
        a.push(ev(args, i, env)?);
    }
    let is_nas = name.starts_with('"');
    if !is_nas {
        for v in &a {
            no_marks(&[v])?;
        }
    }
    let g = |i: usize| -> &Option<V> { a.get(i).unwrap_or(&None) };
    match name {
        // ---------------------------------------------------------- basic / collection
        "get" => match (g(0), g(1)) {
            (Some(o @ V::Obj(_)), Some(V::Str(k))) => Ok(o.get(k).cloned()),
            (Some(V::Arr(l)), n @ Some(V::Num(_))) => Ok(as_count(n).and_then(|i| l.get(i).cloned())),
            _ => Ok(None),
        },
        "size" => match g(0) {
            Some(V::Arr(l)) => Ok(Some(V::int(l.len() as i128))),
            Some(V::Obj(o)) => Ok(Some(V::int(o.len() as i128))),
            Some(V::Str(s)) => Ok(Some(V::int(s.chars().count() as i128))),
            _ => Ok(None),
        },
        "take" | "take_last" | "sub" => {
            let (start, len) = if name == "sub" {
                match (as_count(g(1)), as_count(g(2))) {
                    (Some(s), Some(l)) => (s, l),
                    _ => return Ok(None),
                }
            } else {
                match as_count(g(1)) {
                    Some(n) => (0, n),
                    None => return Ok(None),
                }
            };
            fn window<T: Clone>(items: &[T], name: &str, start: usize, len: usize) -> Vec<T> {
                let n = items.len();
                match name {
                    "take" => items[..len.min(n)].to_vec(),
                    "take_last" => items[n - len.min(n)..].to_vec(),
                    _ => {
                        let s = start.min(n);
                        let e = start.saturating_add(len).min(n);
                        items[s..e].to_vec()
                    }
                }
            }
            match g(0) {
                Some(V::Arr(l)) => Ok(Some(V::Arr(window(l, name, start, len)))),
                Some(V::Obj(o)) => Ok(Some(V::Obj(window(o, name, start, len)))),
                Some(V::Str(s)) => Ok(Some(V::Str(window(&chars_of(s), name, start, len).into_iter().collect()))),
                _ => Ok(None),
            }
        }
        // ---------------------------------------------------------- boolean
        "=" | "!=" => match (g(0), g(1)) {
            (Some(x), Some(y)) => b(veq(x, y) == (name == "=")),
            _ => Ok(None),
        },
        "<" | "<=" | ">" | ">=" => match (g(0), g(1)) {
            (Some(x), Some(y)) => {
                let o = cmp_t(x, y)?;
                b(match name {
                    "<" => o == Ordering::Less,
                    "<=" => o != Ordering::Greater,
                    ">" => o == Ordering::Greater,
                    _ => o != Ordering::Less,
                })
            }
            _ => Ok(None),
        },
        "not" => match g(0) {
            Some(V::Bool(x)) => b(!x),
            _ => Ok(None),
        },
        "xor" => match (g(0), g(1)) {
            (Some(V::Bool(x)), Some(V::Bool(y))) => b(x != y),
            _ => Ok(None),
        },
        // ---------------------------------------------------------- list folding
        "all" => match g(0) {
            Some(V::Arr(l)) => b(!l.is_empty() && l.iter().all(|x| *x == V::Bool(true))),
            _ => Ok(None),
        },
        "any" => match g(0) {
            Some(V::Arr(l)) => b(l.iter().any(|x| *x == V::Bool(true))),
            _ => Ok(None),
        },
        "first" => match g(0) {
            Some(V::Arr(l)) => Ok(l.first().cloned()),
            _ => Ok(None),
        },
        "last" => match g(0) {
            Some(V::Arr(l)) => Ok(l.last().cloned()),
            _ => Ok(None),
        },
        "join" => {
            let sep = if args.len() > 1 {
                match g(1) {
                    Some(V::Str(s)) => s.clone(),
                    _ => {
                        return match g(0) {
                            Some(V::Arr(_)) => taint("join with a separator that is not a string"),
                            _ => Ok(None),
                        }
                    }
                }
            } else {
                ", ".to_string()
            };
            match g(0) {
                Some(V::Arr(l)) => {
                    let mut parts = Vec::new();
                    for x in l {
                        match x {
                            V::Str(s) => parts.push(s.clone()),
                            _ => return Ok(None),
                        }
                    }
                    Ok(Some(V::Str(parts.join(&sep))))
                }
                _ => Ok(None),
            }
        }
        "sum" => match g(0) {
            Some(V::Arr(l)) => {
                let mut s = 0.0;
                for x in l {
                    match arith(&Some(x.clone()))? {
                        Some(f) => s += f,
                        None => return Ok(None),
                    }
                }
                numv(s)
            }
            _ => Ok(None),
        },
        // ---------------------------------------------------------- list manipulation
        "indexed" => match g(0) {
            Some(V::Arr(l)) => Ok(Some(V::Arr(
                l.iter().enumerate().map(|(i, x)| V::Obj(vec![("value".into(), x.clone()), ("index".into(), V::int(i as i128))])).collect(),
            ))),
            _ => Ok(None),
        },
        "pop" => match g(0) {
            Some(V::Arr(l)) => Ok(Some(V::Arr(l[..l.len().saturating_sub(1)].to_vec()))),
            _ => Ok(None),
        },
        "pop_first" => match g(0) {
            Some(V::Arr(l)) => Ok(Some(V::Arr(l.iter().skip(1).cloned().collect()))),
            _ => Ok(None),
        },
        "push" => match g(0) {
            Some(V::Arr(l)) => {
                let mut l = l.clone();
                for x in a.iter().skip(1).flatten() {
                    l.push(x.clone());
                }
                Ok(Some(V::Arr(l)))
            }
            _ => Ok(None),
        },
        "push_front" => match g(0) {
            Some(V::Arr(l)) => {
                let mut l = l.clone();
                for x in a.iter().skip(1).flatten() {
                    l.insert(0, x.clone());
                }
                Ok(Some(V::Arr(l)))
            }
            _ => Ok(None),
        },
        "reverese" => match g(0) {
            Some(V::Arr(l)) => Ok(Some(V::Arr(l.iter().rev().cloned().collect()))),
            _ => Ok(None),
        },
        "sort" | "sort_unique" => match g(0) {
            Some(V::Arr(l)) => {
                // "sort and remove duplicates": duplicates are what `=` calls equal (objects regardless of the order of
                // their members), so they can be removed first; what is left is then ordered
                let mut firsts: Vec<V> = Vec::new();
                for x in l.iter() {
                    if name != "sort_unique" || !firsts.iter().any(|y| veq(y, x)) {
                        firsts.push(x.clone());
                    }
                }
                let keyed: Vec<(Option<V>, V)> = firsts.iter().map(|x| (Some(x.clone()), x.clone())).collect();
                let mut s = stable_sort_by(&keyed)?;
                if name == "sort_unique" {
                    let mut u: Vec<V> = Vec::new();
                    for x in s {
                        if !u.last().map(|y| veq(y, &x)).unwrap_or(false) {
                            u.push(x);
                        }
                    }
                    s = u;
                }
                Ok(Some(V::Arr(s)))
            }
            _ => Ok(None),
        },
        // ---------------------------------------------------------- list producers
        "range" => match g(0) {
            Some(V::Num(Num::Int(0))) => taint("range 0: `positive integer`"),
            n @ Some(V::Num(_)) => match as_count(n) {
                Some(k) if k <= 10_000 => Ok(Some(V::Arr((0..k).map(|i| V::int(i as i128)).collect()))),
                Some(_) => taint("range too large"),
                None => Ok(None),
            },
            _ => Ok(None),
        },
        "zip" | "cross" => {
            let mut lists: Vec<&Vec<V>> = Vec::new();
            for v in &a {
                match v {
                    Some(V::Arr(l)) => lists.push(l),
                    _ => return Ok(None),
                }
            }
            if name == "zip" {
                let n = lists.iter().map(|l| l.len()).max().unwrap_or(0);
                let rows = (0..n)
                    .map(|i| V::Obj(lists.iter().enumerate().filter_map(|(j, l)| l.get(i).map(|x| (format!(".{j}"), x.clone()))).collect()))
                    .collect();
                Ok(Some(V::Arr(rows)))
            } else {
                let total: usize = lists.iter().map(|l| l.len()).product();
                if total > 100_000 {
                    return taint("cross too large");
                }
                let mut rows = Vec::with_capacity(total);
                for mut k in 0..total {
                    let mut m = Vec::new();
                    for (j, l) in lists.iter().enumerate() {
                        m.push((format!(".{j}"), l[k % l.len()].clone()));
                        k /= l.len();
                    }
                    rows.push(V::Obj(m));
                }
                Ok(Some(V::Arr(rows)))
            }
        }
        // ---------------------------------------------------------- number
        "+" | "*" => {
            let mut acc = if name == "+" { 0.0 } else { 1.0 };
            let mut missing = false;
            for v in &a {
                match arith(v)? {
                    Some(f) => {
                        if name == "+" {
                            acc += f
                        } else {
                            acc *= f
                        }
                    }
                    None => missing = true,
                }
            }
            if missing {
                Ok(None)
            } else {
                numv(acc)
            }
        }
        "-" => {
            if args.len() == 1 {
                match arith(g(0))? {
                    Some(f) => numv(-f),
                    None => Ok(None),
                }
            } else {
                match (arith(g(0))?, arith(g(1))?) {
                    (Some(x), Some(y)) => numv(x - y),
                    _ => Ok(None),
                }
            }
        }
        "/" | "%" => match (arith(g(0))?, arith(g(1))?) {
            (Some(_), Some(y)) if y == 0.0 => Ok(None),
            (Some(x), Some(y)) => numv(if name == "/" { x / y } else { x % y }),
            _ => Ok(None),
        },
        "abs" | "ceil" | "floor" | "round" => match arith(g(0))? {
            Some(f) => numv(match name {
                "abs" => f.abs(),
                "ceil" => f.ceil(),
                "floor" => f.floor(),
                _ => f.round(),
            }),
            None => Ok(None),
        },
        // ---------------------------------------------------------- number as string
        "\"+\"" | "\"*\"" => {
            for v in &a {
                nas_domain(v)?;
            }
            let mut acc: Option<Dec> = None;
            for v in &a {
                match nas_arg(v) {
                    Some(d) => {
                        acc = Some(match acc {
                            None => d,
                            Some(x) => {
                                if name == "\"+\"" {
                                    x.add(&d)
                                } else {
                                    x.mul(&d)
                                }
                            }
                        })
                    }
                    None => return Ok(None),
                }
            }
            nas_out(&acc.unwrap())
        }
        "\"-\"" => {
            for v in &a {
                nas_domain(v)?;
            }
            if args.len() == 1 {
                match nas_arg(g(0)) {
                    Some(d) => nas_out(&d.neg()),
                    None => Ok(None),
                }
            } else {
                match (nas_arg(g(0)), nas_arg(g(1))) {
                    (Some(x), Some(y)) => nas_out(&x.sub(&y)),
                    _ => Ok(None),
                }
            }
        }
        "\"abs\"" | "\"||\"" => {
            nas_domain(g(0))?;
            match nas_arg(g(0)) {
                Some(d) => nas_out(&if name == "\"abs\"" { d.abs() } else { d }),
                None => Ok(None),
            }
        }
        "\"/\"" | "\"%\"" | "\"round\"" => {
            // exactness is not claimed (C19); only the type discipline is
            let ok = a.iter().all(|v| nas_arg(v).is_some());
            for v in &a {
                nas_domain(v)?;
            }
            if ok {
                taint("inexact number-as-string operation")
            } else {
                Ok(None)
            }
        }
        "\"=\"" | "\"!=\"" | "\"<\"" | "\"<=\"" | "\">\"" | "\">=\"" => {
            nas_domain(g(0))?;
            nas_domain(g(1))?;
            match (nas_arg(g(0)), nas_arg(g(1))) {
                (Some(x), Some(y)) => {
                    let o = x.cmp(&y);
                    b(match name {
                        "\"=\"" => o == Ordering::Equal,
                        "\"!=\"" => o != Ordering::Equal,
                        "\"<\"" => o == Ordering::Less,
                        "\"<=\"" => o != Ordering::Greater,
                        "\">\"" => o == Ordering::Greater,
                        _ => o != Ordering::Less,
                    })
                }
                _ => Ok(None),
            }
        }
        // ---------------------------------------------------------- object
        "put" | "insert_if_absent" | "replace_if_exists" => match (g(0), g(1), g(2)) {
            (Some(V::Obj(o)), Some(V::Str(k)), Some(x)) => {
                let mut o = o.clone();
                let pos = o.iter().position(|(kk, _)| kk == k);
                match (name, pos) {
                    ("put", Some(p)) | ("replace_if_exists", Some(p)) => o[p].1 = x.clone(),
                    ("put", None) | ("insert_if_absent", None) => o.push((k.clone(), x.clone())),
                    _ => {}
                }
                Ok(Some(V::Obj(o)))
            }
            _ => Ok(None),
        },
        "entries" => match g(0) {
            Some(V::Obj(o)) => Ok(Some(V::Arr(o.iter().map(|(k, x)| V::Obj(vec![("key".into(), V::Str(k.clone())), ("value".into(), x.clone())])).collect()))),
            _ => Ok(None),
        },
        "keys" => match g(0) {
            Some(V::Obj(o)) => Ok(Some(V::Arr(o.iter().map(|(k, _)| V::Str(k.clone())).collect()))),
            _ => Ok(None),
        },
        "values" => match g(0) {
            Some(V::Obj(o)) => Ok(Some(V::Arr(o.iter().map(|(_, x)| x.clone()).collect()))),
            _ => Ok(None),
        },
        "sort_by_keys" | "sort_by_values" => match g(0) {
            Some(V::Obj(o)) => {
                let keyed: Vec<(Option<V>, (String, V))> =
                    o.iter().map(|(k, x)| (Some(if name == "sort_by_keys" { V::Str(k.clone()) } else { x.clone() }), (k.clone(), x.clone()))).collect();
                Ok(Some(V::Obj(stable_sort_by(&keyed)?)))
            }
            _ => Ok(None),
        },
        // ---------------------------------------------------------- string
        "concat" => {
            let mut s = String::new();
            for v in &a {
                match v {
                    Some(V::Str(x)) => s.push_str(x),
                    _ => return Ok(None),
                }
            }
            Ok(Some(V::Str(s)))
        }
        "head" | "tail" => match (g(0), as_count(g(1))) {
            (Some(V::Str(s)), Some(n)) => {
                let c = chars_of(s);
                let k = n.min(c.len());
                Ok(Some(V::Str(if name == "head" { c[..k].iter().collect() } else { c[c.len() - k..].iter().collect() })))
            }
            _ => Ok(None),
        },
        "split" => match (g(0), g(1)) {
            (Some(V::Str(_)), Some(V::Str(sep))) if sep.is_empty() => taint("split by the empty string"),
            (Some(V::Str(s)), Some(V::Str(sep))) => Ok(Some(V::Arr(s.split(sep.as_str()).map(V::s).collect()))),
            _ => Ok(None),
        },
        "base63_decode" => match g(0) {
            Some(V::Str(s)) => {
                use base64::Engine;
                match base64::engine::general_purpose::STANDARD.decode(s.as_bytes()) {
                    Ok(bytes) => Ok(String::from_utf8(bytes).ok().map(V::Str)),
                    Err(_) => Ok(None),
                }
            }
            _ => Ok(None),
        },
        "env" => match g(0) {
            Some(V::Str(n)) if n == "JV_FIXED" => Ok(Some(V::s("fixed-value"))),
            Some(V::Str(n)) if n == "JV_UNSET" => Ok(None),
            Some(V::Str(_)) => taint("environment variable not owned by the harness"),
            _ => Ok(None),
        },
        "parse" => match g(0) {
            Some(V::Str(s)) => match json::parse_one(s.as_bytes()) {
                Ok(v) => Ok(Some(v)),
                Err(_) => taint("parse of a text that is not exactly one RFC 8259 value"),
            },
            _ => Ok(None),
        },
        "parse_selection" => match g(0) {
            Some(V::Str(s)) => match super::expr::parse(s) {
                Ok(e2) => {
                    let mut env2 = env.clone();
                    env2.depth += 1;
                    eval(&e2, &env2)
                }
                Err(_) => taint("parse_selection of a text outside the documented grammar"),
            },
            _ => Ok(None),
        },
        "stringify" => match g(0) {
            Some(v) => Ok(Some(V::Str(stringify_value(v)))),
            None => Ok(None),
        },
        "match" => match (g(0), g(1)) {
            (Some(V::Str(s)), Some(V::Str(p))) => match regex::Regex::new(p) {
                Ok(re) => b(re.is_match(s)),
                Err(_) => Ok(None),
            },
            _ => Ok(None),
        },
        "extract_regex_group" => match (g(0), g(1), g(2)) {
            (Some(V::Str(s)), Some(V::Str(p)), n @ Some(V::Num(_))) => match (regex::Regex::new(p), as_count(n)) {
                (Ok(re), Some(k)) => Ok(re.captures(s).and_then(|c| c.get(k)).map(|m| V::s(m.as_str()))),
                _ => Ok(None),
            },
            _ => Ok(None),
        },
        // ---------------------------------------------------------- time
        "format_time" => match (g(0), g(1)) {
            (Some(V::Num(n)), Some(V::Str(fmt))) => format_time(n, fmt),
            _ => Ok(None),
        },
        "parse_time" | "parse_time_with_zone" => match (g(0), g(1)) {
            (Some(V::Str(s)), Some(V::Str(fmt))) => parse_time(s, fmt, name == "parse_time_with_zone"),
            _ => Ok(None),
        },
        // ---------------------------------------------------------- types
        "as_array" => Ok(g(0).clone().filter(|v| matches!(v, V::Arr(_)))),
        "as_boolean" => Ok(g(0).clone().filter(|v| matches!(v, V::Bool(_)))),
        "as_number" => Ok(g(0).clone().filter(|v| matches!(v, V::Num(_)))),
        "as_object" => Ok(g(0).clone().filter(|v| matches!(v, V::Obj(_)))),
        "as_string" => Ok(g(0).clone().filter(|v| matches!(v, V::Str(_)))),
        "array?" => b(matches!(g(0), Some(V::Arr(_)))),
        "bool?" => b(matches!(g(0), Some(V::Bool(_)))),
        "null?" => b(matches!(g(0), Some(V::Null))),
        "number?" => b(matches!(g(0), Some(V::Num(_)))),
        "object?" => b(matches!(g(0), Some(V::Obj(_)))),
        "string?" => b(matches!(g(0), Some(V::Str(_)))),
        "empty?" => b(g(0).is_none()),
        _ => taint("function outside the reference evaluator"),
    }
}

fn functional(name: &str, first: Option<V>, args: &[E], env: &Env) -> R {
    let lam = |v: &V, idx: usize| -> R { eval(&args[idx], &env.with_input(v.clone())) };
    match name {
        "filter" | "map" | "flat_map" | "group_by" | "sort_by" | "\"sort_by\"" => {
            let Some(V::Arr(l)) = first else { return Ok(None) };
            match name {
                "filter" => {
                    let mut out = Vec::new();
                    for x in &l {
                        if lam(x, 1)? == Some(V::Bool(true)) {
                            out.push(x.clone());
                        }
                    }
                    Ok(Some(V::Arr(out)))
                }
                "map" => {
                    let mut out = Vec::new();
                    for x in &l {
                        if let Some(y) = lam(x, 1)? {
                            out.push(y);
                        }
                    }
                    no_marks(&[&Some(V::Arr(out.clone()))])?;
                    Ok(Some(V::Arr(out)))
                }
                "flat_map" => {
                    let mut out = Vec::new();
                    for x in &l {
                        if let Some(V::Arr(ys)) = lam(x, 1)? {
                            out.extend(ys);
                        }
                    }
                    Ok(Some(V::Arr(out)))
                }
                "group_by" => {
                    let mut groups: Vec<(String, V)> = Vec::new();
                    for x in &l {
                        match lam(x, 1)? {
                            Some(V::Str(k)) => {
                                if has_mark(&V::Str(k.clone())) {
                                    return taint("spelling-dependent group key");
                                }
                                match groups.iter_mut().find(|(kk, _)| *kk == k) {
                                    Some((_, V::Arr(g))) => g.push(x.clone()),
                                    _ => groups.push((k, V::Arr(vec![x.clone()]))),
                                }
                            }
                            _ => return Ok(None),
                        }
                    }
                    Ok(Some(V::Obj(groups)))
                }
                "sort_by" => {
                    let mut keyed = Vec::new();
                    for x in &l {
                        let k = lam(x, 1)?;
                        no_marks(&[&k])?;
                        keyed.push((k, x.clone()));
                    }
                    Ok(Some(V::Arr(stable_sort_by(&keyed)?)))
                }
                _ => {
                    // "sort_by": stable by decimal value, elements without a number-as-string key first
                    let mut keyed: Vec<(Option<Dec>, V)> = Vec::new();
                    for x in &l {
                        let k = lam(x, 1)?;
                        nas_domain(&k)?;
                        keyed.push((nas_arg(&k), x.clone()));
                    }
                    let mut out: Vec<(Option<Dec>, V)> = Vec::new();
                    for it in keyed {
                        let mut pos = out.len();
                        while pos > 0 {
                            let o = match (&out[pos - 1].0, &it.0) {
                                (None, None) => Ordering::Equal,
                                (None, Some(_)) => Ordering::Less,
                                (Some(_), None) => Ordering::Greater,
                                (Some(x), Some(y)) => x.cmp(y),
                            };
                            if o == Ordering::Greater {
                                pos -= 1;
                            } else {
                                break;
                            }
                        }
                        out.insert(pos, it);
                    }
                    Ok(Some(V::Arr(out.into_iter().map(|(_, v)| v).collect())))
                }
            }
        }
        "fold" => {
            let Some(V::Arr(l)) = first else { return Ok(None) };
            let has_init = args.len() > 2;
            let mut cur = if has_init { eval(&args[1], env)? } else { None };
            no_marks(&[&cur])?;
            let fi = if has_init { 2 } else { 1 };
            for (i, x) in l.iter().enumerate() {
                let mut m = Vec::new();
                if let Some(c) = &cur {
                    m.push(("so_far".to_string(), c.clone()));
                }
                m.push(("value".to_string(), x.clone()));
                m.push(("index".to_string(), V::int(i as i128)));
                cur = lam(&V::Obj(m), fi)?;
                no_marks(&[&cur])?;
            }
            Ok(cur)
        }
        "filter_keys" | "filter_values" | "map_keys" | "map_values" | "sort_by_values_by" => {
            let Some(V::Obj(o)) = first else { return Ok(None) };
            match name {
                "filter_keys" | "filter_values" => {
                    let mut out = Vec::new();
                    for (k, x) in &o {
                        let subject = if name == "filter_keys" { V::Str(k.clone()) } else { x.clone() };
                        if lam(&subject, 1)? == Some(V::Bool(true)) {
                            out.push((k.clone(), x.clone()));
                        }
                    }
                    Ok(Some(V::Obj(out)))
                }
                "map_keys" => {
                    let mut out: Vec<(String, V)> = Vec::new();
                    for (k, x) in &o {
                        if let Some(V::Str(nk)) = lam(&V::Str(k.clone()), 1)? {
                            if has_mark(&V::Str(nk.clone())) {
                                return taint("spelling-dependent key");
                            }
                            if out.iter().any(|(kk, _)| *kk == nk) {
                                return taint("map_keys: colliding new keys");
                            }
                            out.push((nk, x.clone()));
                        }
                    }
                    Ok(Some(V::Obj(out)))
                }
                "map_values" => {
                    let mut out = Vec::new();
                    for (k, x) in &o {
                        if let Some(y) = lam(x, 1)? {
                            out.push((k.clone(), y));
                        }
                    }
                    no_marks(&[&Some(V::Obj(out.clone()))])?;
                    Ok(Some(V::Obj(out)))
                }
                _ => {
                    let mut keyed = Vec::new();
                    for (k, x) in &o {
                        let key = lam(x, 1)?;
                        no_marks(&[&key])?;
                        if key.is_none() {
                            return taint("sort_by_values_by with an absent key");
                        }
                        keyed.push((key, (k.clone(), x.clone())));
                    }
                    Ok(Some(V::Obj(stable_sort_by(&keyed)?)))
                }
            }
        }
        _ => taint("functional"),
    }
}

// ------------------------------------------------------------------ time (chrono's strftime semantics, as the documentation links)

fn instant(n: &Num) -> Result<Option<chrono::DateTime<chrono::Utc>>, Taint> {
    use chrono::TimeZone;
    let f = n.as_f64();
    if !f.is_finite() {
        return taint("non-finite instant");
    }
    // only instants whose fraction is exactly representable, so that every rounding rule agrees
    let secs = f.floor();
    let frac = f - secs;
    let nanos = frac * 1e9;
    if nanos.fract() != 0.0 {
        return taint("instant whose nanoseconds depend on the rounding rule");
    }
    if secs.abs() > 8.0e12 {
        return Ok(None);
    }
    Ok(chrono::Utc.timestamp_opt(secs as i64, nanos as u32).single())
}

fn valid_format(fmt: &str) -> bool {
    use chrono::format::{Item, StrftimeItems};
    !StrftimeItems::new(fmt).any(|i| matches!(i, Item::Error))
}

fn format_time(n: &Num, fmt: &str) -> R {
    use std::fmt::Write;
    if !valid_format(fmt) {
        return Ok(None);
    }
    match instant(n)? {
        Some(t) => {
            let mut s = String::new();
            match write!(s, "{}", t.format(fmt)) {
                Ok(()) => Ok(Some(V::Str(s))),
                Err(_) => Ok(None),
            }
        }
        None => Ok(None),
    }
}

fn parse_time(s: &str, fmt: &str, zone: bool) -> R {
    if !valid_format(fmt) {
        return Ok(None);
    }
    let (secs, nanos) = if zone {
        match chrono::DateTime::parse_from_str(s, fmt) {
            Ok(t) => (t.timestamp(), t.timestamp_subsec_nanos()),
            Err(_) => return Ok(None),
        }
    } else {
        match chrono::NaiveDateTime::parse_from_str(s, fmt) {
            Ok(t) => (t.and_utc().timestamp(), t.and_utc().timestamp_subsec_nanos()),
            Err(_) => return Ok(None),
        }
    };
    // compare as the nearest double of secs + nanos/1e9; only dyadic fractions are generated
    let f = secs as f64 + (nanos as f64) / 1e9;
    Ok(Some(V::Num(Num::from_f64(f))))
}

// ------------------------------------------------------------------ comparison of an implementation value with the reference

/// Compare what the implementation produced with the reference value.
/// Marked strings are compared by value (decimal / JSON re-read).
pub fn agrees(model: &V, got: &V, unordered_records: bool) -> bool {
    match (model, got) {
        (V::Str(m), V::Str(g)) => {
            if let Some(t) = m.strip_prefix(NAS_MARK) {
                // model spelling is `<mantissa>e<exp>`
                match (Dec::parse(t), Dec::parse(g)) {
                    (Some(x), Some(y)) => x.eq(&y),
                    _ => false,
                }
            } else if let Some(t) = m.strip_prefix(JSON_MARK) {
                match (json::parse_one(t.as_bytes()), json::parse_one(g.as_bytes())) {
                    (Ok(x), Ok(y)) => (if unordered_records { x.eq_unordered(&y) } else { x == y }) && !g.contains('\n') && !g.contains('\r'),
                    _ => false,
                }
            } else {
                m == g
            }
        }
        (V::Arr(a), V::Arr(c)) => a.len() == c.len() && a.iter().zip(c).all(|(x, y)| agrees(x, y, unordered_records)),
        (V::Obj(a), V::Obj(c)) => {
            if a.len() != c.len() {
                return false;
            }
            if unordered_records {
                a.iter().all(|(k, x)| c.iter().find(|(kk, _)| kk == k).map(|(_, y)| agrees(x, y, unordered_records)).unwrap_or(false))
            } else {
                a.iter().zip(c).all(|((k, x), (kk, y))| k == kk && agrees(x, y, unordered_records))
            }
        }
        _ => model == got,
    }
}

pub fn agrees_opt(model: &Option<V>, got: &Option<V>, unordered_records: bool) -> bool {
    match (model, got) {
        (None, None) => true,
        (Some(m), Some(g)) => agrees(m, g, unordered_records),
        _ => false,
    }
}

/// functions that build records of their own (member order shown by an example, not stated as a rule)
pub fn creates_records(e: &E) -> bool {
    let mut found = false;
    e.walk(&mut |x| {
        if let E::Call(n, _) = x {
            if let Some(f) = canonical(n) {
                if ["indexed", "entries", "zip", "cross"].contains(&f.name) {
                    found = true;
                }
            }
        }
    });
    found
}

/// human-readable form of a reference value (marks removed)
pub fn show_opt(v: &Option<V>) -> String {
    match v {
        None => "nothing".into(),
        Some(v) => json::to_text(v).replace("\\u0001", "").replace("\\u0002", ""),
    }
}

/// The known printer defect: a character outside the BMP written as `\\u` + 5 or 6 hex digits.
/// Returns the text with every such sequence replaced by the character it was meant to be.
pub fn undo_long_escapes(text: &str) -> Option<String> {
    let b: Vec<char> = text.chars().collect();
    let mut out = String::new();
    let mut i = 0;
    let mut changed = false;
    while i < b.len() {
        if b[i] == '\\' && i + 1 < b.len() && b[i + 1] == '\\' {
            out.push_str("\\\\");
            i += 2;
            continue;
        }
        if b[i] == '\\' && i + 1 < b.len() && b[i + 1] == 'u' {
            let hex: String = b[i + 2..].iter().take(6).take_while(|c| c.is_ascii_hexdigit()).collect();
            for n in [6usize, 5] {
                if hex.len() >= n {
                    if let Some(c) = u32::from_str_radix(&hex[..n], 16).ok().filter(|v| *v >= 0x10000).and_then(char::from_u32) {
                        out.push(c);
                        i += 2 + n;
                        changed = true;
                        break;
                    }
                }
            }
            if changed && out.chars().last().map(|c| c as u32 >= 0x10000).unwrap_or(false) && (i >= b.len() || b[i - 1] != 'u') {
                continue;
            }
        }
        out.push(b[i]);
        i += 1;
    }
    if changed {
        Some(out)
    } else {
        None
    }
}
