//! Exact decimal arithmetic (mantissa * 10^exp, BigInt) for the number-as-string oracle.

use num_bigint::BigInt;
use num_traits::{Signed, Zero};
use std::cmp::Ordering;

#[derive(Clone, Debug)]
pub struct Dec {
    pub m: BigInt,
    pub e: i64,
}

impl Dec {
    /// `[+-]digits[.digits][(e|E)[+-]digits]` (at least one digit in the mantissa)
    pub fn parse(s: &str) -> Option<Dec> {
        let b = s.as_bytes();
        let mut i = 0;
        let mut neg = false;
        if i < b.len() && (b[i] == b'+' || b[i] == b'-') {
            neg = b[i] == b'-';
            i += 1;
        }
        let mut digits = String::new();
        let mut scale: i64 = 0;
        let mut seen_digit = false;
        while i < b.len() && b[i].is_ascii_digit() {
            digits.push(b[i] as char);
            seen_digit = true;
            i += 1;
        }
        if i < b.len() && b[i] == b'.' {
            i += 1;
            while i < b.len() && b[i].is_ascii_digit() {
                digits.push(b[i] as char);
                scale += 1;
                seen_digit = true;
                i += 1;
            }
        }
        if !seen_digit {
            return None;
        }
        let mut exp: i64 = 0;
        if i < b.len() && (b[i] == b'e' || b[i] == b'E') {
            i += 1;
            let mut eneg = false;
            if i < b.len() && (b[i] == b'+' || b[i] == b'-') {
                eneg = b[i] == b'-';
                i += 1;
            }
            let st = i;
            while i < b.len() && b[i].is_ascii_digit() {
                i += 1;
            }
            if st == i {
                return None;
            }
            exp = s[st..i].parse().ok()?;
            if eneg {
                exp = -exp;
            }
        }
        if i != b.len() {
            return None;
        }
        let mut m: BigInt = digits.parse().ok()?;
        if neg {
            m = -m;
        }
        Some(Dec { m, e: exp - scale }.norm())
    }
    pub fn norm(mut self) -> Dec {
        if self.m.is_zero() {
            self.e = 0;
            return self;
        }
        let ten = BigInt::from(10);
        while (&self.m % &ten).is_zero() {
            self.m /= &ten;
            self.e += 1;
        }
        self
    }
    fn align(a: &Dec, b: &Dec) -> (BigInt, BigInt, i64) {
        let e = a.e.min(b.e);
        let p = |d: &Dec| &d.m * num_traits::pow(BigInt::from(10), (d.e - e) as usize);
        (p(a), p(b), e)
    }
    pub fn add(&self, o: &Dec) -> Dec {
        let (a, b, e) = Dec::align(self, o);
        Dec { m: a + b, e }.norm()
    }
    pub fn sub(&self, o: &Dec) -> Dec {
        let (a, b, e) = Dec::align(self, o);
        Dec { m: a - b, e }.norm()
    }
    pub fn mul(&self, o: &Dec) -> Dec {
        Dec { m: &self.m * &o.m, e: self.e + o.e }.norm()
    }
    pub fn abs(&self) -> Dec {
        Dec { m: self.m.abs(), e: self.e }
    }
    pub fn neg(&self) -> Dec {
        Dec { m: -&self.m, e: self.e }
    }
    pub fn cmp(&self, o: &Dec) -> Ordering {
        let (a, b, _) = Dec::align(self, o);
        a.cmp(&b)
    }
    pub fn eq(&self, o: &Dec) -> bool {
        self.cmp(o) == Ordering::Equal
    }
    pub fn show(&self) -> String {
        format!("{}e{}", self.m, self.e)
    }
}

#[cfg(test)]
mod tests {
    use super::*;
    #[test]
    fn t() {
        let a = Dec::parse("1.50").unwrap();
        let b = Dec::parse("15E-1").unwrap();
        assert!(a.eq(&b));
        assert!(Dec::parse("0.1").unwrap().add(&Dec::parse("0.2").unwrap()).eq(&Dec::parse("0.3").unwrap()));
        assert!(Dec::parse("-1e100").unwrap().cmp(&Dec::parse("1e-100").unwrap()) == Ordering::Less);
        assert!(Dec::parse("1e+102").unwrap().eq(&Dec::parse("100e100").unwrap()));
        assert!(Dec::parse("x").is_none());
    }
}
