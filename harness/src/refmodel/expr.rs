//! Reference expression language: AST, a reader for the documented concrete syntax
//! (Appendix B of DESIGN.md), and a printer with spelling variants.
//! Written from the selection help text, independent of /repo/src.

use super::json::{self, V};

#[derive(Clone, Debug, PartialEq)]
pub enum Step {
    Key(String),
    Idx(usize),
}

#[derive(Clone, Debug, PartialEq)]
pub enum E {
    Const(V),
    /// `^`* followed by `.` (root) or a chain of `.key` / `#index`
    Path { ups: usize, steps: Vec<Step> },
    /// function call; `name` as written (aliases allowed)
    Call(String, Vec<E>),
    Var(String),
    Mac(String),
    Sel(String),
    /// `&name` input context (not evaluated by the reference evaluator)
    Ctx(String),
}

impl E {
    pub fn root() -> E {
        E::Path { ups: 0, steps: vec![] }
    }
    pub fn key(k: &str) -> E {
        E::Path { ups: 0, steps: vec![Step::Key(k.to_string())] }
    }
    pub fn call(name: &str, args: Vec<E>) -> E {
        E::Call(name.to_string(), args)
    }
    pub fn c(text: &str) -> E {
        E::Const(json::parse_str(text))
    }
    pub fn depth(&self) -> usize {
        match self {
            E::Call(_, a) => 1 + a.iter().map(|x| x.depth()).max().unwrap_or(0),
            _ => 0,
        }
    }
    pub fn walk(&self, f: &mut dyn FnMut(&E)) {
        f(self);
        if let E::Call(_, a) = self {
            for x in a {
                x.walk(f);
            }
        }
    }
}

// ------------------------------------------------------------------ reader

pub struct Rd<'a> {
    b: &'a [u8],
    pub i: usize,
}

fn is_ws(b: u8) -> bool {
    matches!(b, b' ' | b'\n' | b'\t' | b'\r')
}

impl<'a> Rd<'a> {
    pub fn new(s: &'a str) -> Self {
        Rd { b: s.as_bytes(), i: 0 }
    }
    fn peek(&self) -> Option<u8> {
        self.b.get(self.i).copied()
    }
    pub fn ws(&mut self) {
        while self.peek().map(is_ws).unwrap_or(false) {
            self.i += 1;
        }
    }
    pub fn at_end(&self) -> bool {
        self.i >= self.b.len()
    }
    fn take_while(&mut self, stop: impl Fn(u8) -> bool) -> Result<String, String> {
        let s = self.i;
        while let Some(c) = self.peek() {
            if stop(c) {
                break;
            }
            self.i += 1;
        }
        String::from_utf8(self.b[s..self.i].to_vec()).map_err(|e| e.to_string())
    }
    pub fn expr(&mut self) -> Result<E, String> {
        self.ws();
        match self.peek() {
            None => Err("unexpected end".into()),
            Some(b'.' | b'#' | b'^') => self.path(),
            Some(b'(') => self.call(),
            Some(b':') => {
                self.i += 1;
                let n = self.take_while(|c| is_ws(c) || c == b')' || c == b',' || c == b'=')?;
                if n.is_empty() {
                    return Err("empty variable name".into());
                }
                Ok(E::Var(n))
            }
            Some(b'@') => {
                self.i += 1;
                let n = self.take_while(|c| is_ws(c) || c == b')' || c == b',' || c == b'=')?;
                if n.is_empty() {
                    return Err("empty macro name".into());
                }
                Ok(E::Mac(n))
            }
            Some(b'&') => {
                self.i += 1;
                let n = self.take_while(|c| is_ws(c) || c == b')' || c == b',' || c == b'=')?;
                Ok(E::Ctx(n))
            }
            Some(b'/') => {
                self.i += 1;
                let n = self.take_while(|c| c == b'/')?;
                if self.peek() != Some(b'/') {
                    return Err("unterminated /name/".into());
                }
                self.i += 1;
                let n = n.trim().to_string();
                if n.is_empty() {
                    return Err("empty selection name".into());
                }
                Ok(E::Sel(n))
            }
            Some(_) => {
                let mut p = json::P::new(&self.b[self.i..]);
                match p.value(0, 0) {
                    Ok(v) => {
                        self.i += p.i;
                        Ok(E::Const(v))
                    }
                    Err(e) => Err(format!("bad literal at {}: {}", self.i + e.at, e.what)),
                }
            }
        }
    }
    fn path(&mut self) -> Result<E, String> {
        let mut ups = 0;
        while self.peek() == Some(b'^') {
            ups += 1;
            self.i += 1;
        }
        let mut steps = Vec::new();
        loop {
            match self.peek() {
                Some(b'.') => {
                    self.i += 1;
                    let k = self.take_while(|c| {
                        is_ws(c) || c < 0x20 || matches!(c, b'.' | b',' | b'=' | b'(' | b')' | b'"' | b'[' | b']' | b'{' | b'}' | b'#')
                    })?;
                    if k.is_empty() {
                        if steps.is_empty() {
                            return Ok(E::Path { ups, steps });
                        }
                        return Err("missing key".into());
                    }
                    steps.push(Step::Key(k));
                }
                Some(b'#') => {
                    self.i += 1;
                    let d = self.take_while(|c| !c.is_ascii_digit())?;
                    if d.is_empty() {
                        if steps.is_empty() {
                            return Ok(E::Path { ups, steps });
                        }
                        return Err("missing index".into());
                    }
                    steps.push(Step::Idx(d.parse().map_err(|_| "index".to_string())?));
                }
                _ => {
                    // a bare `^^` is the enclosing input itself (used by the documentation of `|`)
                    return Ok(E::Path { ups, steps });
                }
            }
        }
    }
    fn call(&mut self) -> Result<E, String> {
        self.i += 1; // (
        self.ws();
        let mut name = self.take_while(|c| is_ws(c) || c < 0x20 || matches!(c, b',' | b'(' | b')'))?;
        let mut args = Vec::new();
        if name.starts_with('.') && name.len() > 1 {
            args.push(E::root());
            name = name[1..].to_string();
        }
        if name.is_empty() {
            return Err("empty function name".into());
        }
        loop {
            self.ws();
            match self.peek() {
                None => return Err("unterminated call".into()),
                Some(b',') => self.i += 1,
                Some(b')') => {
                    self.i += 1;
                    return Ok(E::Call(name, args));
                }
                _ => args.push(self.expr()?),
            }
        }
    }
}

/// Read one complete expression (surrounding whitespace allowed).
pub fn parse(text: &str) -> Result<E, String> {
    let mut r = Rd::new(text);
    let e = r.expr()?;
    r.ws();
    if !r.at_end() {
        return Err(format!("trailing text at {} in {text:?}", r.i));
    }
    Ok(e)
}

pub fn p(text: &str) -> E {
    parse(text).unwrap_or_else(|e| panic!("reference expression {text:?}: {e}"))
}

// ------------------------------------------------------------------ printer

#[derive(Clone, Copy, Debug, PartialEq)]
pub struct Style {
    /// separator between arguments
    pub sep: &'static str,
    /// padding before `)`
    pub pad: &'static str,
    /// write `(.f x)` instead of `(f . x)` where the first argument is the bare root
    pub dot_sugar: bool,
}

pub const PLAIN: Style = Style { sep: " ", pad: "", dot_sugar: false };

pub fn path_text(ups: usize, steps: &[Step]) -> String {
    let mut s = "^".repeat(ups);
    if steps.is_empty() {
        s.push('.');
    }
    for st in steps {
        match st {
            Step::Key(k) => {
                s.push('.');
                s.push_str(k);
            }
            Step::Idx(i) => {
                s.push('#');
                s.push_str(&i.to_string());
            }
        }
    }
    s
}

/// JSON literal as jawk expression text: concise, but with a space after `:` and `,`
/// avoided (the expression reader needs no whitespace); numbers in shortest form.
pub fn const_text(v: &V) -> String {
    fn num(n: &json::Num) -> String {
        match n {
            json::Num::Int(i) => i.to_string(),
            json::Num::F(f) => {
                let s = format!("{f}");
                if s.contains("inf") || s.contains("NaN") {
                    "null".into()
                } else if s.len() > 24 {
                    format!("{f:e}")
                } else {
                    s
                }
            }
        }
    }
    fn w(out: &mut String, v: &V) {
        match v {
            V::Num(n) => out.push_str(&num(n)),
            V::Arr(a) => {
                out.push('[');
                for (i, x) in a.iter().enumerate() {
                    if i > 0 {
                        out.push_str(", ");
                    }
                    w(out, x);
                }
                out.push(']');
            }
            V::Obj(o) => {
                out.push('{');
                for (i, (k, x)) in o.iter().enumerate() {
                    if i > 0 {
                        out.push_str(", ");
                    }
                    json::esc_str(out, k);
                    out.push_str(": ");
                    w(out, x);
                }
                out.push('}');
            }
            other => json::write_text(out, other),
        }
    }
    let mut s = String::new();
    w(&mut s, v);
    s
}

pub fn show_with(e: &E, st: &Style) -> String {
    match e {
        E::Const(v) => const_text(v),
        E::Path { ups, steps } => path_text(*ups, steps),
        E::Var(n) => format!(":{n}"),
        E::Mac(n) => format!("@{n}"),
        E::Sel(n) => format!("/{n}/"),
        E::Ctx(n) => format!("&{n}"),
        E::Call(name, args) => {
            // no padding after `(`: the help text documents `(<function-name> <arg0> ..)` only
            let mut s = String::from("(");
            let mut rest: &[E] = args;
            if st.dot_sugar && !args.is_empty() && args[0] == E::root() && !name.starts_with('.') {
                s.push('.');
                rest = &args[1..];
            }
            s.push_str(name);
            for a in rest {
                s.push_str(st.sep);
                s.push_str(&show_with(a, st));
            }
            s.push_str(st.pad);
            s.push(')');
            s
        }
    }
}

pub fn show(e: &E) -> String {
    show_with(e, &PLAIN)
}

#[cfg(test)]
mod tests {
    use super::*;
    #[test]
    fn roundtrip() {
        for t in [
            ".", ".a.b#3.c", "^^.k", "#0", "(len .)", "(.len)", "(map .list (+ ^.add .))", ":v", "@m", "/name/",
            "(set \"foo\" {\"key\": 100} (get :foo \"key\" ))", "(\"abs\" \"-100\")", "(+ :v,:v)", "(| (get . 1) (+ . 4))",
            "[1, 2, {\"a\": null}]", "(define \"add-1\" (.+ 1) (map [1, 2, 3] @add-1))",
        ] {
            let e = p(t);
            let s = show(&e);
            assert_eq!(p(&s), e, "{t} -> {s}");
        }
        assert_eq!(p("(.len)"), p("(len .)"));
        assert_eq!(p("(+ :v,:v)"), E::call("+", vec![E::Var("v".into()), E::Var("v".into())]));
    }
}
