pub mod json;
pub mod spell;
pub mod ftable;
pub mod decimal;
pub mod expr;
pub mod eval;
pub mod selfcheck;
pub mod pipeline;
