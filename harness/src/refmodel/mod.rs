pub mod json;
pub mod spell;
pub mod ftable;
pub mod decimal;
