pub mod json;
pub mod spell;
