/* LD_PRELOAD shim for the C16 check: makes read(2) on ONE file fail after a given number of bytes.
 *   JV_FAIL_PATH   the file (compared with the target of /proc/self/fd/<fd>)
 *   JV_FAIL_AT     number of bytes delivered before the failure
 *   JV_FAIL_ERRNO  errno of the failure (default EIO)
 * Everything else goes to the real read(). */
#define _GNU_SOURCE
#include <dlfcn.h>
#include <errno.h>
#include <limits.h>
#include <stdio.h>
#include <stdlib.h>
#include <string.h>
#include <unistd.h>

static ssize_t (*real_read)(int, void *, size_t);
static long delivered[1024];

ssize_t read(int fd, void *buf, size_t n) {
    if (!real_read) real_read = (ssize_t(*)(int, void *, size_t))dlsym(RTLD_NEXT, "read");
    const char *path = getenv("JV_FAIL_PATH");
    const char *at = getenv("JV_FAIL_AT");
    if (path && at && fd >= 0 && fd < 1024) {
        char link[64], target[PATH_MAX];
        snprintf(link, sizeof link, "/proc/self/fd/%d", fd);
        ssize_t l = readlink(link, target, sizeof target - 1);
        if (l > 0) {
            target[l] = 0;
            if (strcmp(target, path) == 0) {
                long limit = atol(at);
                if (delivered[fd] >= limit) {
                    const char *e = getenv("JV_FAIL_ERRNO");
                    errno = e ? atoi(e) : EIO;
                    return -1;
                }
                if ((long)n > limit - delivered[fd]) n = (size_t)(limit - delivered[fd]);
                ssize_t r = real_read(fd, buf, n);
                if (r > 0) delivered[fd] += r;
                return r;
            }
        }
    }
    return real_read(fd, buf, n);
}
