#!/bin/bash
# tools/final_runs2.sh <deadline-epoch> : thorough runs (evidence_thorough/), cheapest first, until the deadline; a run is
# only started when its expected duration still fits
cd /verif
dl=$1
for pe in C18:20 C20:20 C12:60 C16:60 C02:90 C07:90 C19:120 C09:240 C01:240 C10:240 C15:300 C08:360 C17:400 C11:500 C13:500 C06:600 C05:600 C14:800 C03:1000 C04:1100; do
  p=${pe%%:*}; e=${pe##*:}
  now=$(date +%s)
  if [ $((now + e)) -gt $dl ]; then echo "$p thorough skipped (would not fit)"; continue; fi
  VERIF_EVIDENCE_DIR=/verif/evidence_thorough VERIF_REPLAY_DIR=/verif/work/replays_thorough /usr/bin/time -f "$p thorough wall=%es rc=%x" ./check $p thorough 2>&1 | grep -E "thorough wall|MACHINERY|^VIOLATION|capped=Some" | cut -c1-200
done
