#!/usr/bin/env python3
"""Print §9 of DESIGN.md (seeded changes and the checks that catch them) from seeded/*/meta.json."""
import json, glob, os
print("| change | breaks | what it is / what it needs | confirmed (suite passes, demo fails with / passes without) | caught by (quick tier) |")
print("|---|---|---|---|---|")
for f in sorted(x for x in glob.glob('/verif/seeded/*/meta.json') if '/_' not in x):
    m = json.load(open(f))
    res = m["checks_run_against_it"]["results"]
    caught = ", ".join(f"{k}: {'VIOLATION' if v['exit']==1 else 'exit '+str(v['exit'])}" for k, v in sorted(res.items())) or "not run yet"
    ok = m["confirmed_by_me"]["result"]
    okshort = "yes" if "exit=1" in ok and "without exit=0" in ok else ok
    title = m["title"].replace("|", "\\|")
    needs = (m.get("needs_to_manifest") or "")[:220].replace("|", "\\|").replace("\n", " ")
    print(f"| {m['id']} | {m['breaks_property']} | {title}. Needs: {needs} | {okshort} | {caught} |")

print()
print("Own catalogue (appendix D), materialised as patches under `seeded_own/` — **not independent** of the checks; M15 and M18 are behaviour-preserving negative controls and must stay silent:")
print()
print("| id | edit | suite with the edit | checks run → result |")
print("|---|---|---|---|")
for f in sorted(glob.glob('/verif/seeded_own/*/info.json'), key=lambda x: int(os.path.basename(os.path.dirname(x))[1:])):
    m = json.load(open(f))
    res = m.get("checks_run_against_it", {})
    caught = ", ".join(f"{k}: {'VIOLATION' if v['exit']==1 else ('silent' if v['exit']==0 else 'exit '+str(v['exit']))}" for k, v in sorted(res.items())) or "not run yet"
    edit = (m.get("catalogue_entry", {}).get("file", "") + ": " + m.get("catalogue_entry", {}).get("edit", "")).replace("|", "\\|")[:230]
    print(f"| {m['id']} | {edit} | {m.get('suite_passed')} passed / {m.get('suite_failed')} failed | {caught} |")
