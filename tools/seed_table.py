#!/usr/bin/env python3
"""Print §9 of DESIGN.md (seeded changes and the checks that catch them) from seeded/*/meta.json."""
import json, glob, os
print("| change | breaks | what it is / what it needs | confirmed (suite passes, demo fails with / passes without) | caught by (quick tier) |")
print("|---|---|---|---|---|")
for f in sorted(glob.glob('/verif/seeded/*/meta.json')):
    m = json.load(open(f))
    res = m["checks_run_against_it"]["results"]
    caught = ", ".join(f"{k}: {'VIOLATION' if v['exit']==1 else 'exit '+str(v['exit'])}" for k, v in sorted(res.items())) or "not run yet"
    ok = m["confirmed_by_me"]["result"]
    okshort = "yes" if "exit=1" in ok and "without exit=0" in ok else ok
    title = m["title"].replace("|", "\\|")
    needs = (m.get("needs_to_manifest") or "")[:220].replace("|", "\\|").replace("\n", " ")
    print(f"| {m['id']} | {m['breaks_property']} | {title}. Needs: {needs} | {okshort} | {caught} |")
