#!/bin/bash
# tools/detect_some.sh <glob-suffix e.g. 'm1[78]'> [N=4] : like detect_chains.sh for the kept changes whose name matches seeded/C??-<suffix>;
# logs in work/detect_zz_<tag>_<k>.log (tag = third argument, default "some")
pat=$1; N=${2:-4}; tag=${3:-some}
cd /verif
ls -d seeded/C??-$pat/ | sed 's|/$||' > /tmp/someseeded.txt
for k in $(seq 0 $((N-1))); do
  (
    export MUT_ROOT=/tmp/mutsome_$k
    : > work/detect_zz_${tag}_$k.log
    awk -v n=$N -v k=$k 'NR % n == k' /tmp/someseeded.txt | while read d; do
      id=$(basename $d); prop=${id%%-*}; also=$(cat $d/also.txt 2>/dev/null)
      ./seedtool.sh detect $d $prop $also 2>&1 | grep -E "^DETECT|patch does not apply" >> work/detect_zz_${tag}_$k.log
    done
    ./seedtool.sh clean
  ) &
done
wait
cat work/detect_zz_${tag}_*.log | sort
