#!/bin/bash
# run every patch of my own catalogue (seeded_own/) against the checks it is expected to be caught by
export MUT_ROOT=/tmp/mutown
cd /verif
for d in seeded_own/*/; do
  d=${d%/}; checks=$(cat $d/checks.txt)
  if [ -z "$checks" ]; then checks="C01 C03 C08 C10"; fi   # negative controls: must stay silent
  ./seedtool.sh detect $d $checks 2>&1 | grep -E "^DETECT|patch does not apply"
done
./seedtool.sh clean
