#!/bin/bash
# tools/old_detect.sh <<< "seeded/Cxx-mN Cxx" : detections with an OLDER harness checked out at /tmp/verif_old (git -C /verif worktree add --detach /tmp/verif_old <commit>)
R=/tmp/mutold; WT=$R/wt; mkdir -p $R
git -C /repo worktree add --detach $WT HEAD -q 2>/dev/null; cp -r /repo/target $WT/target 2>/dev/null
while read d p; do
  git -C $WT checkout -q -- .; git -C $WT apply /verif/$d/patch.diff || { echo "OLD $d apply failed"; continue; }
  out=$(VERIF_SUBJECT=$WT VERIF_TARGET_DIR=$R/vt VERIF_EVIDENCE_DIR=$R/ev VERIF_REPLAY_DIR=$R/rp /tmp/verif_old/check $p quick 2>&1); rc=$?
  echo "OLD $(basename $d) $p rc=$rc $(echo "$out" | grep -c '^VIOLATION') violation lines"
done
git -C /repo worktree remove --force $WT; rm -rf $R
