#!/bin/bash
# quick (registered evidence) and thorough (evidence_thorough/) runs of every check on /repo as it is; then regenerate
# MANIFEST.json and the generated sections of DESIGN.md
cd /verif
for p in C01 C02 C03 C04 C05 C06 C07 C08 C09 C10 C11 C12 C13 C14 C15 C16 C17 C18 C19 C20; do
  VERIF_EVIDENCE_DIR=/verif/evidence_thorough VERIF_REPLAY_DIR=/verif/work/replays_thorough /usr/bin/time -f "$p thorough wall=%es rc=%x" ./check $p thorough 2>&1 | grep -E "thorough wall|MACHINERY|^VIOLATION|capped=Some" | cut -c1-200
done
for p in C01 C02 C03 C04 C05 C06 C07 C08 C09 C10 C11 C12 C13 C14 C15 C16 C17 C18 C19 C20; do
  /usr/bin/time -f "$p quick wall=%es rc=%x" ./check $p quick 2>&1 | grep -E "quick wall|MACHINERY|^VIOLATION" | cut -c1-200
done
python3 gen_manifest.py
python3 tools/make_meta.py
python3 tools/regen_design.py
