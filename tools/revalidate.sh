#!/bin/bash
# tools/revalidate.sh <chain-id> <dir>... : re-confirm seeded changes against /repo's current HEAD
export MUT_ROOT=/tmp/mutreval_$1; shift
cd /verif
for d in "$@"; do ./seedtool.sh validate $d 2>&1 | grep -E "suite with patch|RESULT"; done
./seedtool.sh clean
