#!/bin/bash
# tools/detect_chains.sh [N=4] : run every kept seeded change against the quick check of its property (and the checks in
# also.txt) in N parallel chains; logs in work/detect_zz_full_<k>.log
N=${1:-4}
cd /verif
ls -d seeded/C*/ | sed 's|/$||' > /tmp/allseeded.txt
for k in $(seq 0 $((N-1))); do
  (
    export MUT_ROOT=/tmp/mutchain_$k
    : > work/detect_zz_full_$k.log
    awk -v n=$N -v k=$k 'NR % n == k' /tmp/allseeded.txt | while read d; do
      id=$(basename $d); prop=${id%%-*}; also=$(cat $d/also.txt 2>/dev/null)
      ./seedtool.sh detect $d $prop $also 2>&1 | grep -E "^DETECT|patch does not apply" >> work/detect_zz_full_$k.log
    done
    ./seedtool.sh clean
  ) &
done
wait
