#!/usr/bin/env python3
import json,glob,collections,sys
pid=sys.argv[1]; n=int(sys.argv[2]) if len(sys.argv)>2 else 3
c=collections.Counter(); ex={}
for f in glob.glob(f'/verif/replays/{pid}/*.json'):
    d=json.load(open(f)); k=d['clause']; c[k]+=1; ex.setdefault(k,[]).append(d)
print(c)
for k,v in ex.items():
    for d in sorted(v,key=lambda d: len(d['shell'][0]))[:n]:
        print(k,'|',d['signature']); print('  ',d['shell'][0][:400]); print('   exp',d['expected'][:300]); print('   act',d['actual'][:300])
