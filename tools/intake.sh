#!/bin/bash
# tools/intake.sh Cxx : take the two changes a sub-agent left in /tmp/seed2/Cxx.out/{m3,m4}, confirm them, run the checks, clean up
id=$1
export MUT_ROOT=/tmp/mutin_$id
cd /verif
for m in m3 m4; do
  src=/tmp/seed2/$id.out/$m
  [ -f $src/patch.diff ] || { echo "RESULT seeded/$id-$m: nothing delivered"; continue; }
  mkdir -p seeded/$id-$m; cp $src/patch.diff $src/demo.sh $src/notes.md seeded/$id-$m/ 2>/dev/null
  ./seedtool.sh validate seeded/$id-$m 2>&1 | grep -E "suite with patch|RESULT" | tee -a work/validate_$id.log
  ./seedtool.sh detect seeded/$id-$m $id $(cat seeded/$id-$m/also.txt 2>/dev/null) 2>&1 | grep -v "^note" | tee -a work/detect_$id.log | grep -E "^DETECT|^    "
done
./seedtool.sh clean
git -C /repo worktree remove --force /tmp/seed2/$id 2>/dev/null; rm -rf /tmp/seed2/$id
