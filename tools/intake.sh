#!/bin/bash
# tools/intake.sh Cxx [root=/tmp/seed2] ["m3 m4"] : take the changes a sub-agent left in <root>/Cxx.out/<m>, confirm them, run the checks, clean up
id=$1
root=${2:-/tmp/seed2}
ms=${3:-"m3 m4"}
export MUT_ROOT=/tmp/mutin_$id
cd /verif
for m in $ms; do
  src=$root/$id.out/$m
  [ -f $src/patch.diff ] || { echo "RESULT seeded/$id-$m: nothing delivered"; continue; }
  mkdir -p seeded/$id-$m; cp $src/patch.diff $src/demo.sh $src/notes.md seeded/$id-$m/ 2>/dev/null
  ./seedtool.sh validate seeded/$id-$m 2>&1 | grep -E "suite with patch|RESULT" | tee -a work/validate_$id.log
  ./seedtool.sh detect seeded/$id-$m $id $(cat seeded/$id-$m/also.txt 2>/dev/null) 2>&1 | grep -v "^note" | tee -a work/detect_$id.log | grep -E "^DETECT|^    "
done
./seedtool.sh clean
git -C /repo worktree remove --force $root/$id 2>/dev/null; rm -rf $root/$id
