#!/bin/bash
# run each seeded change against the quick check of its own property (and extra ones given in seeded/<id>/also.txt)
export MUT_ROOT=/tmp/mutdet
cd /verif
for d in seeded/*/; do
  d=${d%/}; id=$(basename $d); prop=${id%%-*}
  also=$(cat $d/also.txt 2>/dev/null)
  ./seedtool.sh detect $d $prop $also 2>&1 | grep -E "^DETECT|patch does not apply"
done
./seedtool.sh clean
