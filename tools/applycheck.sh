#!/bin/bash
# which seeded patches still apply to /repo's HEAD?
git -C /repo worktree add --detach /tmp/applywt HEAD -q
for d in /verif/seeded/C*/ /verif/seeded_own/M*/; do
  git -C /tmp/applywt checkout -q -- .
  if ! git -C /tmp/applywt apply --check $d/patch.diff 2>/dev/null; then echo "NOAPPLY $(basename $d)"; fi
done
git -C /repo worktree remove --force /tmp/applywt
