#!/usr/bin/env python3
"""Write seeded/<id>/meta.json from notes.md (what the change is / needs) and from the logs of
tools/validate_all.sh and tools/detect_all.sh (what was run and what it showed)."""
import json, os, re, glob, sys
val = {}
for line in open('/verif/work/validate.log'):
    m = re.match(r'RESULT seeded/(\S+): (.*)', line)
    if m: val[m.group(1)] = m.group(2).strip()
for extra in sorted(glob.glob('/verif/work/validate_*.log')) + sorted(glob.glob('/verif/work/revalidate_*.log')):
    for line in open(extra):
        m = re.match(r'RESULT seeded/(\S+): (.*)', line)
        if m: val[m.group(1)] = m.group(2).strip()
det = {}
for f in ['/verif/work/detect_all.log'] + sorted(x for x in glob.glob('/verif/work/detect_*.log') if not x.endswith('detect_all.log')):
    if not os.path.exists(f): continue
    for line in open(f):
        m = re.match(r'DETECT (\S+) (C\d\d) rc=(\d+) (\d+) violation lines', line)
        if m: det.setdefault(m.group(1), {})[m.group(2)] = {"exit": int(m.group(3)), "violation_lines": int(m.group(4))}
def section(text, *names):
    for n in names:
        m = re.search(r'^##+ *(?:' + n + r')[^\n]*\n(?P<body>.*?)(?=^##+ |\Z)', text, re.S | re.M | re.I)
        if m: return ' '.join(m.group('body').split())[:900]
    return None
for d in sorted(x for x in glob.glob('/verif/seeded/*/') if not os.path.basename(x.rstrip('/')).startswith('_')):
    sid = os.path.basename(d.rstrip('/'))
    notes = open(d + 'notes.md').read() if os.path.exists(d + 'notes.md') else ''
    title = notes.splitlines()[0].lstrip('# ').strip() if notes else sid
    old = {}
    if os.path.exists(d + 'meta.json'):
        try:
            old = json.load(open(d + 'meta.json'))
        except Exception:
            old = {}
    # the logs of earlier sessions are not all kept: what they established stays unless a newer run says otherwise
    old_val = old.get('confirmed_by_me', {}).get('result')
    old_det = old.get('checks_run_against_it', {}).get('results', {})
    merged_det = dict(old_det)
    merged_det.update(det.get(sid, {}))
    meta = {
        "id": sid,
        "breaks_property": sid.split('-')[0],
        "title": title,
        "change": section(notes, 'Change', 'What was changed', 'The change'),
        "clause_broken": section(notes, r'(Which )?clause', 'Clause'),
        "needs_to_manifest": section(notes, r'(Exact )?condition', 'Trigger'),
        "origin": "written by an independent sub-agent that saw only the property text and a scratch worktree of /repo",
        "confirmed_by_me": {
            "how": "./seedtool.sh validate (scratch worktree at /repo's HEAD: git apply, cargo test --workspace --no-fail-fast --offline, demo.sh with the patch, demo.sh without)",
            "result": val.get(sid, old_val or "not validated yet"),
        },
        "checks_run_against_it": {
            "how": "./seedtool.sh detect (quick tier, harness built against the patched scratch worktree via VERIF_SUBJECT)",
            "results": merged_det,
        },
    }
    json.dump(meta, open(d + 'meta.json', 'w'), indent=1, ensure_ascii=False)
# my own catalogue (not independent): results into info.json
for d in sorted(glob.glob('/verif/seeded_own/*/')):
    mid = os.path.basename(d.rstrip('/'))
    info = json.load(open(d + 'info.json'))
    info["checks_run_against_it"] = det.get(mid, {})
    json.dump(info, open(d + 'info.json', 'w'), indent=1, ensure_ascii=False)
print(len(glob.glob('/verif/seeded/*/meta.json')), "meta files")
