#!/bin/bash
# tools/redetect.sh <log> <<< "dir check [check..]" lines : re-run detections (after a check was strengthened)
export MUT_ROOT=/tmp/mutre
cd /verif
while read d checks; do
  [ -z "$d" ] && continue
  ./seedtool.sh detect $d $checks 2>&1 | grep -E "^DETECT|patch does not apply" >> $1
done
./seedtool.sh clean
