#!/usr/bin/env python3
"""Extract the function documentation (names, aliases, arities, description lines, examples)
from /repo/src/functions/**/*.rs into JSON. The result is what the reference evaluator was
written from, and its examples are replayed against the reference evaluator as a self-check
(`jv selfcheck`). Usage: extract_docs.py [repo] > docs.json"""
import json, os, re, sys

repo = sys.argv[1] if len(sys.argv) > 1 else "/repo"

def unescape(s):
    out = []; i = 0
    while i < len(s):
        c = s[i]
        if c == '\\':
            i += 1; d = s[i]
            if d == 'n': out.append('\n')
            elif d == 't': out.append('\t')
            elif d == 'r': out.append('\r')
            elif d == '0': out.append('\0')
            elif d == '\\': out.append('\\')
            elif d == '"': out.append('"')
            elif d == "'": out.append("'")
            elif d == 'u':
                j = s.index('}', i); out.append(chr(int(s[i+2:j], 16))); i = j
            elif d == '\n':
                i += 1
                while i < len(s) and s[i] in ' \t\n': i += 1
                continue
            else: out.append('\\' + d)
            i += 1
        else:
            out.append(c); i += 1
    return ''.join(out)

LIT = r'(?:r#"(?P<raw>.*?)"#|"(?P<str>(?:[^"\\]|\\.)*)")'

def lit(m):
    if m.group('raw') is not None: return m.group('raw')
    return unescape(m.group('str'))

def first_lit(text):
    m = re.search(LIT, text, re.S)
    return lit(m) if m else None

def split_calls(chain):
    """split `.a(...).b(...)` at top level"""
    calls = []; i = 0; n = len(chain)
    while i < n:
        m = re.compile(r'\s*\.\s*([a-z_]+)\s*\(').match(chain, i)
        if not m: break
        name = m.group(1); j = m.end(); depth = 1; instr = None
        start = j
        while j < n and depth > 0:
            c = chain[j]
            if instr:
                if instr == 'raw':
                    if chain.startswith('"#', j): instr = None; j += 1
                elif c == '\\': j += 1
                elif c == '"': instr = None
            else:
                if chain.startswith('r#"', j): instr = 'raw'; j += 2
                elif c == '"': instr = 'str'
                elif c == '(': depth += 1
                elif c == ')': depth -= 1
            j += 1
        calls.append((name, chain[start:j-1]))
        i = j
    return calls

funcs = []
for root, _, files in os.walk(os.path.join(repo, "src/functions")):
    for f in sorted(files):
        if not f.endswith(".rs"): continue
        p = os.path.join(root, f)
        src = open(p).read()
        m = re.search(r'FunctionDefinitions::new\(\s*"((?:[^"\\]|\\.)*)"\s*,\s*([0-9a-zA-Z:_]+)\s*,\s*([0-9a-zA-Z:_]+)\s*,', src)
        if not m: continue
        name = unescape(m.group(1))
        mn = int(m.group(2)); mx = 99 if 'MAX' in m.group(3) else int(m.group(3))
        # the builder chain starts after the factory closure: find the last "})\n" that precedes ".add_"
        k = src.find('.add_', m.end())
        # walk back to the matching close of new(...) -- take from first top-level ".add_" that follows "})"
        k = re.search(r'\}\)\s*\.add_', src[m.end():])
        chain = src[m.end() + k.start() + 2:] if k else ''
        entry = {"name": name, "min": mn, "max": mx, "aliases": [], "description": [], "examples": [], "file": os.path.relpath(p, repo)}
        for cname, body in split_calls(chain):
            if cname == 'add_alias': entry["aliases"].append(first_lit(body))
            elif cname == 'add_description_line': entry["description"].append(first_lit(body))
            elif cname == 'add_example':
                ex = {"input": None, "args": [], "output": None, "has_output": False, "explain": None, "accurate": True, "validator": False}
                mm = re.search(r'Example::new\(\)', body)
                for c2, b2 in split_calls(body[mm.end():]):
                    if c2 == 'input': ex["input"] = first_lit(b2)
                    elif c2 == 'add_argument': ex["args"].append(first_lit(b2))
                    elif c2 == 'expected_output': ex["output"] = first_lit(b2); ex["has_output"] = True
                    elif c2 == 'explain': ex["explain"] = first_lit(b2)
                    elif c2 == 'more_or_less': ex["accurate"] = False
                    elif c2 in ('validate_output', 'expected_json'): ex["validator"] = True
                entry["examples"].append(ex)
        funcs.append(entry)
funcs.sort(key=lambda e: (e["file"]))
json.dump(funcs, sys.stdout, indent=1, ensure_ascii=False)
