#!/bin/bash
# validate every seeded change (applies, suite passes, demo fails with / passes without); log to work/validate.log
export MUT_ROOT=/tmp/mutval
cd /verif
for d in seeded/*/; do
  d=${d%/}
  ./seedtool.sh validate $d 2>&1 | grep -E "suite with patch|RESULT"
done
./seedtool.sh clean
